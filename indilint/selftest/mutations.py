"""Self-test corpus: source edits applied to a scratch copy of /repo/indi.

kind "break":    a realistic edit that violates the property while compiling (the existing
                 suite does not reach it); the named check must exit 1 and report the rule.
kind "preserve": a behaviour-preserving rewrite; the named checks must stay at exit 0.

An entry whose pattern no longer occurs in the current tree is skipped and counted, not failed.
Format: (id, kind, property or "*" list, expected rule prefix or None, file, old, new)
"""

E = "indi/device/properties/instance/elements.py"
V = "indi/device/properties/instance/vectors.py"
G = "indi/device/properties/instance/group.py"
D = "indi/device/driver.py"
R = "indi/routing/router.py"
BUF = "indi/transport/buffer.py"
STCP = "indi/transport/server/tcp.py"
STTY = "indi/transport/server/tty.py"
CTCP = "indi/transport/client/tcp.py"
CL = "indi/client/client.py"
CV = "indi/client/vectors.py"
CE = "indi/client/elements.py"
CD = "indi/client/device.py"
MB = "indi/message/base.py"
CK = "indi/message/checks.py"
VAL = "indi/device/values.py"

M = []


def brk(mid, prop, rule, file, old, new):
    M.append((mid, "break", [prop], rule, file, old, new))


def keep(mid, props, file, old, new):
    M.append((mid, "preserve", props, None, file, old, new))


# ---------------------------------------------------------------- C01
brk("c01-state-unpublished", "C01", "C01.PUB", V, "        self._state = checks.dictionary(value, const.State)\n        self.device.send_message(self.to_set_message())", "        self._state = checks.dictionary(value, const.State)")
brk("c01-group-swap", "C01", "C01.ORDER", G, "            self.device.send_message(v.to_def_message())\n            self.device.send_message(v.to_set_message())", "            self.device.send_message(v.to_set_message())\n            self.device.send_message(v.to_def_message())")
brk("c01-group-first-only", "C01", "C01.ORDER", G, "            self.device.send_message(v.to_set_message())", "            self.device.send_message(v.to_set_message())\n            break")
brk("c01-vectors-filter", "C01", "C01.ENUM", D, "                self._vectors[vector.name] = vector", "                if vector.enabled:\n                    self._vectors[vector.name] = vector")
brk("c01-mro-depth", "C01", "C01.MRO", D, "for base in reversed(cls.__mro__[1:]):", "for base in reversed(cls.__mro__[1:3]):")
brk("c01-mro-bases", "C01", "C01.MRO", D, "for base in reversed(cls.__mro__[1:]):", "for base in cls.__bases__:")
brk("c01-enabled-send-before-store", "C01", "C01.ORDER", V, "        self._enabled = value\n        self.device.send_message(self.to_def_message())\n        self.device.send_message(self.to_set_message())", "        self.device.send_message(self.to_def_message())\n        self._enabled = value\n        self.device.send_message(self.to_set_message())")
keep("c01-local-device", ["C01", "C14"], V, "        self._enabled = value\n        self.device.send_message(self.to_def_message())\n        self.device.send_message(self.to_set_message())", "        self._enabled = value\n        dev = self.device\n        dev.send_message(self.to_def_message())\n        dev.send_message(self.to_set_message())")
keep("c01-group-values", ["C01"], G, "        for k, v in self._vectors.items():\n            self.device.send_message(v.to_def_message())", "        for v in self._vectors.values():\n            self.device.send_message(v.to_def_message())")

# ---------------------------------------------------------------- C02 / C11 / C08 (buffer)
brk("c02-consume-after-callback", "C02", "C02.CONSUME", BUF, "            self.data = self.data[end:]\n            self._cleanup_buffer()\n            callback(message)", "            callback(message)\n            self.data = self.data[end:]\n            self._cleanup_buffer()")
brk("c02-end-plus-one-rejected", "C02", "C11.RECOVER", BUF, "            if not message and end is not None:\n                self.data = self.data[end:]", "            if not message and end is not None:\n                self.data = self.data[end + 1:]")
brk("c02-end-plus-one", "C02", "C02.CONSUME", BUF, "            self.data = self.data[end:]\n            self._cleanup_buffer()\n            callback(message)", "            self.data = self.data[end + 1:]\n            self._cleanup_buffer()\n            callback(message)")
brk("c02-rfind-discard", "C02", "C02.DISCARD", BUF, "        if last_tag_pos >= 0:\n            start = last_tag_pos", "        if last_tag_pos >= 0 and len(data) - last_tag_pos > 1:\n            start = last_tag_pos")
brk("c02-max-not-min", "C02", "C02.DISCARD", BUF, "start = min(start, found_pos) if start is not None else found_pos", "start = max(start, found_pos) if start is not None else found_pos")
brk("c02-utf8", "C02", "C02.DECODE", STCP, 'message.decode("latin1")', 'message.decode("utf-8")')
brk("c02-process-conditional", "C02", "C02.LOOP", CTCP, "            self.buffer.process(self.message_from_server)", "            if b'>' in message:\n                self.buffer.process(self.message_from_server)")
brk("c02-tags-handwritten", "C02", "C02.TAGS", BUF, "self.allowed_tags = [m.tag_name() for m in IndiMessage.all_message_classes()]", 'self.allowed_tags = ["getProperties", "setTextVector", "defTextVector", "newTextVector"]')
brk("c02-append-strip", "C02", "C02.APPEND", BUF, "        self.buffer.write(data)", "        self.buffer.write(data.strip())")
brk("c11-continue", "C11", "C11.PROGRESS", BUF, "                    continue\n                break", "                    continue\n                continue")
brk("c11-find-restart", "C11", "C11.PROGRESS", BUF, '            end = data.find(">", end)', '            end = data.find(">")')
brk("c11-narrow-except", "C11", "C11.CONTAIN", BUF, "                except Exception:\n                    logger.warning", "                except ValueError:\n                    logger.warning")
brk("c11-bound-double", "C11", "C11.BOUND", BUF, "and self.data_len > self.max_buffer_size_before_frontal_cleanup", "and self.data_len > 2 * self.max_buffer_size_before_frontal_cleanup")
brk("c11-regress-d6", "C11", "C11.PROGRESS", BUF, "            if not message:\n                if (\n                    self.max_buffer_size_before_frontal_cleanup is not None\n                    and self.data_len > self.max_buffer_size_before_frontal_cleanup\n                ):\n                    self._cleanup_beginning()\n                    continue\n                break", "            if not message and self.max_buffer_size_before_frontal_cleanup is not None:\n                if self.data_len > self.max_buffer_size_before_frontal_cleanup:\n                    self._cleanup_beginning()\n                    continue\n                break")
brk("c08-regress-d6", "C08", "C08.PROGRESS", BUF, "            if not message:\n                if (\n                    self.max_buffer_size_before_frontal_cleanup is not None\n                    and self.data_len > self.max_buffer_size_before_frontal_cleanup\n                ):\n                    self._cleanup_beginning()\n                    continue\n                break", "            if not message and self.max_buffer_size_before_frontal_cleanup is not None:\n                if self.data_len > self.max_buffer_size_before_frontal_cleanup:\n                    self._cleanup_beginning()\n                    continue\n                break")
keep("c02-local-data", ["C02", "C11", "C08"], BUF, "            self.data = self.data[end:]\n            self._cleanup_buffer()", "            rest = self.data[end:]\n            self.data = rest\n            self._cleanup_buffer()")
keep("c11-while-true", ["C02", "C11", "C08"], BUF, "        while self.data_len:\n            message, end = self._find_message_in_buffer()", "        while True:\n            if not self.data_len:\n                break\n            message, end = self._find_message_in_buffer()")

# ---------------------------------------------------------------- C03 / C13 / C20
brk("c03-unregister", "C03", "C03.REG", "indi/message/del_property.py", "@IndiMessage.register_message\nclass DelProperty", "class DelProperty")
brk("c03-rename-attr", "C03", "C03.SYM", "indi/message/del_property.py", "self.message = message", "self.msg = message")
brk("c03-truthy-filter", "C03", "C03.WRITE", MB, "            if v is not None\n            and k\n            not in (\n                \"children\",\n                \"value\",\n            )\n        }\n\n        element = ET.Element", "            if v\n            and k\n            not in (\n                \"children\",\n                \"value\",\n            )\n        }\n\n        element = ET.Element")
brk("c03-children-reversed", "C03", "C03.WRITE", MB, "            for child in self.children:\n                child.to_xml(element)", "            for child in reversed(self.children):\n                child.to_xml(element)")
brk("c03-no-strip", "C03", "C03.READ", MB, 'kwargs["value"] = xml.text.strip()\n\n        return message_class(**kwargs)', 'kwargs["value"] = xml.text\n\n        return message_class(**kwargs)')
brk("c03-conditional-attr", "C03", "C03.STABLE", "indi/message/get_properties.py", "        self.name = name", "        if name:\n            self.name = name")
brk("c13-wrong-vocab", "C13", "C13.GUARD", "indi/message/defs.py", "checks.dictionary(state, const.State)", "checks.dictionary(state, const.SwitchState)")
brk("c13-child-kind", "C13", "C13.CHILD", "indi/message/news.py", "@IndiMessage.register_message\nclass NewSwitchVector(NewVector):\n    children_class = OneSwitch", "@IndiMessage.register_message\nclass NewSwitchVector(NewVector):\n    children_class = OneText")
brk("c13-regex-dot", "C13", "C13.NUM", CK, 'r"^[\\-+]?\\d+\\.$",', 'r"^[\\-+]?\\d+.$",')
brk("c13-regress-d3", "C13", "C13.VOCAB", CK, "    allowed = [v for k, v in vars(dictionary_class).items() if not k.startswith(\"_\")]\n    if value not in allowed:", "    if value not in dictionary_class.__dict__.values():")
brk("c13-required-default", "C13", "C13.REQUIRED", "indi/message/one_parts.py", "def __init__(self, name: str, size: float, format: str, value, **junk):", "def __init__(self, name: str, size: float = 0, format: str = \"\", value=None, **junk):")
brk("c13-unchecked-perm", "C13", "C13.GUARD", "indi/message/defs.py", "        self.perm = checks.dictionary(perm, const.Permissions)", "        self.perm = perm")
brk("c20-regress-d1", "C20", "C20.RETAIN", MB, '            res["_children"] = [child.to_dict() for child in self.children]', '            for child in self.children:\n                res["_children"] = child.to_dict()')
brk("c20-no-class-test", "C20", "C20.EQ", MB, "    def __eq__(self, other):\n        return other.__class__ == self.__class__ and self.to_dict() == other.to_dict()\n\n\n@IndiMessage", "    def __eq__(self, other):\n        return self.to_dict() == other.to_dict()\n\n\n@IndiMessage")
brk("c20-exclude-attr", "C20", "C20.RETAIN", MB, '            if v is not None and k not in ("value",)\n        }\n\n        if getattr', '            if v is not None and k not in ("value", "label")\n        }\n\n        if getattr')
keep("c20-tuple-children", ["C20", "C03"], MB, '            res["_children"] = [child.to_dict() for child in self.children]', '            res["_children"] = tuple(child.to_dict() for child in self.children)')

# ---------------------------------------------------------------- C04 / C05 / C12.ENABLE / C18.UNREG
brk("c04-live-device-walk", "C04", "C04.REENTRANT", R, "for device in self._each_registered(self.devices):", "for device in self.devices:")
brk("c05-live-client-walk", "C05", "C05.REENTRANT", R, "for client in self._each_registered(self.clients):", "for client in self.clients:")
brk("c05-snapshot-walk", "C05", "C05.REENTRANT", R, "        served = []\n        while True:\n            remaining = list(table)", "        for entry in list(table):\n            yield entry\n        served = []\n        while True:\n            remaining = []")
brk("c04-sender-test", "C04", "C04.DEV", R, "if not device == sender and device.accepts(message.device):", "if device.accepts(message.device):")
brk("c04-accepts-none", "C04", "C04.DEV", R, "device.accepts(message.device)", "device.accepts(None)")
brk("c04-direction", "C04", "C04.DIR", "indi/message/news.py", "    from_client = True", "    from_client = True\n    from_device = True")
brk("c04-case-insensitive", "C04", "C04.ACC", D, "return device is None or self.name == device", "return not device or self.name.lower() == device.lower()")
brk("c05-key-none", "C05", "C05.PRED", R, "device_name, self.DEFAULT_BLOB_POLICY", "None, self.DEFAULT_BLOB_POLICY")
brk("c05-keep-policy", "C05", "C05.FORGET", R, "            del self.blob_routing[client]", "            pass")
brk("c05-key-name", "C05", "C05.KEY", R, "self.blob_routing[sender][message.device] = message.value", "self.blob_routing[sender][message.name] = message.value")
brk("c05-setdefault", "C05", "C05.RESET", R, "        self.blob_routing[client] = {}", "        self.blob_routing.setdefault(client, {})")
brk("c05-default-also", "C05", "C05.DEFAULT", R, "DEFAULT_BLOB_POLICY = const.BLOBEnable.NEVER", "DEFAULT_BLOB_POLICY = const.BLOBEnable.ALSO")
brk("c05-regress-d4", "C05", "C05.PRED", R, "is_blob = isinstance(message, SetBLOBVector)", "is_blob = isinstance(message, EnableBLOB)")
brk("c05-all-clients", "C05", "C05.KEY", R, "        if sender in self.blob_routing:\n            self.blob_routing[sender][message.device] = message.value", "        for c in self.blob_routing:\n            self.blob_routing[c][message.device] = message.value")
brk("c08-pred-never", "C08", "C08.PRED", R, "                            const.BLOBEnable.ALSO,\n                            const.BLOBEnable.ONLY,\n                        )\n                    ) or (", "                            const.BLOBEnable.ALSO,\n                            const.BLOBEnable.ONLY,\n                            const.BLOBEnable.NEVER,\n                        )\n                    ) or (")
brk("c18-unreg-raise", "C18", "C18.UNREG", R, "        if client in self.clients:\n            self.clients.remove(client)", "        self.clients.remove(client)")
keep("c05-local-policy", ["C04", "C05", "C08"], R, "                    if (\n                        is_blob\n                        and client_blob_policy", "                    pol = client_blob_policy\n                    client_blob_policy = pol\n                    if (\n                        is_blob\n                        and client_blob_policy")

# ---------------------------------------------------------------- C06 / C07 / C09 / C14
brk("c06-by-key", "C06", "C06.KEY", V, "element = self._elements_by_name.get(child.name)", "element = self._elements.get(child.name.lower())")
brk("c06-not-cleared", "C06", "C06.SUBMIT", CV, "                el.reset_new_value()", "                pass")
brk("c06-label-address", "C06", "C06.SUBMIT", CV, "            name=self.name,", "            name=self.label,")
brk("c06-float-conv", "C06", "C06.CONV", E, "self.set_value(values.str_to_num(msg.value, self._definition.format))", "self.set_value(float(msg.value))")
brk("c06-regress-d8", "C06", "C06.COERCE", E, "        assert int(msg.size) == blob_value.size", "        assert msg.size == blob_value.size")
brk("c06-regress-kind", "C06", "C06.KEY", D, "            if vector is not None and isinstance(\n                msg, getattr(vector, \"new_message_class\", ())\n            ):\n                vector.from_new_message(msg)", "            if vector is not None:\n                vector.from_new_message(msg)")
brk("c07-name-truthy", "C07", "C07.BRANCH", D, "                if msg.name in self._vectors:\n                    v = self._vectors[msg.name]\n                    self.send_message(v.to_def_message())", "                for k, v in self._vectors.items():\n                    if k.startswith(msg.name):\n                        self.send_message(v.to_def_message())")
brk("c07-disabled-def", "C07", "C07.DISABLED", V, "    def to_def_message(self) -> Union[message.DefVector, message.DelProperty]:\n        if not self.enabled:\n            return message.DelProperty(\n                device=self.device.name,\n                name=self._definition.name,\n                timestamp=message.now(),\n            )\n\n        elements = tuple(", "    def to_def_message(self) -> Union[message.DefVector, message.DelProperty]:\n        if not self._enabled:\n            return message.DelProperty(\n                device=self.device.name,\n                name=self._definition.name,\n                timestamp=message.now(),\n            )\n\n        elements = tuple(")
brk("c07-all-elements", "C07", "C07.DISABLED", V, "            e.to_set_message() for k, e in self._elements.items() if e.enabled\n        )", "            e.to_set_message() for k, e in self._elements.items()\n        )")
brk("c07-regress-d10", "C07", "C07.EMIT", "indi/device/properties/definition/elements.py", "        min: float = 0,\n        max: float = 0,", "        min: Optional[float] = None,\n        max: Optional[float] = None,")
brk("c07-junk-keyword", "C07", "C07.EMIT", V, "            state=self._state,\n            timestamp=message.now(),\n            children=elements,\n        )\n\n    def to_set_message(self):", "            state=self._state,\n            perm=self._definition.perm,\n            timestamp=message.now(),\n            children=elements,\n        )\n\n    def to_set_message(self):")
brk("c09-atmostone-on", "C09", "C09.STEP", V, "                const.SwitchRule.AT_MOST_ONE,\n                const.SwitchRule.ONE_OF_MANY,\n            ):", "                const.SwitchRule.ONE_OF_MANY,\n            ):")
brk("c09-atmostone-off", "C09", "C09.STEP", V, "if self._definition.rule in (const.SwitchRule.ONE_OF_MANY,):", "if self._definition.rule in (const.SwitchRule.ONE_OF_MANY, const.SwitchRule.AT_MOST_ONE):")
brk("c09-check-after", "C09", "C09.STEP", E, "        value = checks.dictionary(value, const.SwitchState)\n        return self._vector.apply_rule(self, value)", "        return checks.dictionary(self._vector.apply_rule(self, value), const.SwitchState)")
brk("c09-bulk-only-on", "C09", "C09.BULK", V, "            if el.bool_value != new_value:\n                el.bool_value = new_value", "            if new_value:\n                el.bool_value = new_value")
brk("c09-regress-d16", "C09", "C09.BULK", V, "        for k, el in elements.items():\n            new_value = el.name in values", "        for k, el in elements:\n            new_value = el.name in values")
brk("c09-raw-store", "C09", "C09.GATE", E, "        self.value = const.SwitchState.ON if value else const.SwitchState.OFF", "        self._value = const.SwitchState.ON if value else const.SwitchState.OFF\n        self.device.send_message(self._vector.to_set_message())")
keep("c09-drop-sender-test", ["C09"], V, "if el != sender and el._value == const.SwitchState.ON:\n                        el._value", "if el._value == const.SwitchState.ON:\n                        el._value")
brk("c14-compare-requested", "C14", "C14.SETTER", E, "        if prev_value != self._value:", "        if prev_value != value:")
brk("c14-change-requested", "C14", "C14.SETTER", E, "e = events.Change(element=self, old_value=prev_value, new_value=self._value)", "e = events.Change(element=self, old_value=prev_value, new_value=value)")
brk("c14-no-veto", "C14", "C14.WRITE", E, "        if not e.prevent_default:\n            self.value = value", "        self.value = value")
brk("c14-msg-direct", "C14", "C14.MSG", E, "        self.set_value(msg.value)", "        self.value = msg.value")
brk("c14-render-before-store", "C14", "C14.SETTER", E, "        self._value = self.check_value(value)\n        self.device.send_message(self._vector.to_set_message())", "        msg = self._vector.to_set_message()\n        self._value = self.check_value(value)\n        self.device.send_message(msg)")
brk("c14-dispatch-break", "C14", "C14.DISPATCH", "indi/device/events.py", "            else:\n                cb(event)", "            else:\n                cb(event)\n                if event.prevent_default:\n                    break")
brk("c14-raw-read", "C14", "C14.READ", E, "            value=self.value,\n            label", "            value=self._value,\n            label")
keep("c14-tuple-assign", ["C14", "C01", "C09"], E, "        prev_value = self._value\n        self.check_value_type(value)\n        self._value = self.check_value(value)", "        self.check_value_type(value)\n        prev_value, self._value = self._value, self.check_value(value)")

# ---------------------------------------------------------------- C10
brk("c10-no-strip", "C10", "C10.RENDER", VAL, "    return (fmt % n).strip()", "    return fmt % n")
brk("c10-minutes-unpadded", "C10", "C10.RENDER", VAL, 'return f"{sign}{w}:{rest:02d}"', 'return f"{sign}{w}:{rest:d}"')
brk("c10-validator-colon-only", "C10", "C10.ACCEPT", CK, 'r"^[\\-+]?\\d+[:; ]\\d{2}$",  # :mm', 'r"^[\\-+]?\\d+:\\d{2}$",  # :mm')
brk("c10-parser-no-blank", "C10", "C10.PARSE", VAL, '(?:[:; ](\\d+\\.?\\d*))?(?:[:; ](\\d+\\.?\\d*))?$', '(?:[:;](\\d+\\.?\\d*))?(?:[:;](\\d+\\.?\\d*))?$')
brk("c10-parser-dot-any", "C10", "C10.PARSE", VAL, '(\\d+\\.?\\d*|\\.\\d+)(?:[:; ]', '(\\d+.?\\d*|\\.\\d+)(?:[:; ]')

# ---------------------------------------------------------------- C12 / C15 / C16 / C17 / C18 / C19
brk("c12-regress-contain", "C12", "C12.ESCAPE", V, "            try:\n                element.set_value_from_message(child)\n            except Exception:\n                logger.exception(\n                    \"Vector %s: cannot apply new value of element %s\",\n                    self.name,\n                    child.name,\n                )", "            element.set_value_from_message(child)")
brk("c12-regress-lookup", "C12", "C12.ESCAPE", D, "            vector = self._vectors.get(msg.name)", "            vector = self._vectors[msg.name]")
brk("c12-regress-inloop", "C12", "C12.INLOOP", STTY, "        try:\n            self.router.process_message(message, sender=self)\n        except Exception:\n            logger.exception(\"Error while processing message from client\")", "        self.router.process_message(message, sender=self)")
brk("c12-narrow-contain", "C12", "C12.ESCAPE", V, "            except Exception:\n                logger.exception(\n                    \"Vector %s", "            except ValueError:\n                logger.exception(\n                    \"Vector %s")
brk("c15-break-on-unknown", "C15", "C15.MIRROR", CV, "                el = self.elements.get(ch.name)\n                if el:\n                    el.process_message(ch)", "                el = self.elements.get(ch.name)\n                if el:\n                    el.process_message(ch)\n                else:\n                    break")
brk("c15-subscript", "C15", "C15.SURVIVE", CD, "            vector = self.get_vector(msg.name)", "            vector = self.vectors[msg.name]")
brk("c15-any-kind", "C15", "C15.MIRROR", CV, "        if isinstance(msg, self.set_message_class):\n            old_state", "        if True:\n            old_state")
brk("c15-state-conditional", "C15", "C15.MIRROR", CV, "            self.state = msg.state\n\n", "            if msg.children:\n                self.state = msg.state\n\n")
brk("c15-regress-d14", "C15", "C15.MIRROR", CL, "            if msg.name:\n                device = self.get_device(msg.device)\n            else:\n                self.devices.pop(msg.device, None)", "            device = self.get_device(msg.device)")
brk("c15-kind-binding", "C15", "C15.KINDS", CV, "class LightVector(Vector):\n    def_message_class = message.DefLightVector\n    set_message_class = message.SetLightVector", "class LightVector(Vector):\n    def_message_class = message.DefLightVector\n    set_message_class = message.SetTextVector")
brk("c16-filter-element", "C16", "C16.FILTER", CL, "                event.element.name if event.element else None,\n            )\n            and isinstance(event, self.event_type)", "                event.element.name if event.element else None,\n            )\n            or isinstance(event, self.event_type)")
brk("c16-contain-outside", "C16", "C16.CONTAIN", CL, "            if callback.accepts_event(event):\n                try:\n                    if asyncio.iscoroutinefunction(callback.callback):\n                        asyncio.get_running_loop().create_task(callback.callback(event))\n                    else:\n                        callback.callback(event)\n                except:\n                    logger.exception(\"Error in event handler\")", "            if callback.accepts_event(event):\n                if asyncio.iscoroutinefunction(callback.callback):\n                    asyncio.get_running_loop().create_task(callback.callback(event))\n                else:\n                    callback.callback(event)")
brk("c16-live-walk", "C16", "C16.DURING", CL, "        for callback in list(self.callbacks):\n            if callback not in self.callbacks:\n                continue\n", "        for callback in self.callbacks:\n")
brk("c16-snapshot-no-recheck", "C16", "C16.DURING", CL, "            if callback not in self.callbacks:\n                continue\n", "")
brk("c16-event-always", "C16", "C16.IFF", CE, "            if self._value != old_value:\n                event = ValueUpdate(self, old_value, self._value)", "            if True:\n                event = ValueUpdate(self, old_value, self._value)")
brk("c16-old-after", "C16", "C16.IFF", CE, "            old_value = self.value\n            self.set_value_from_message(msg)", "            self.set_value_from_message(msg)\n            old_value = self.value")
brk("c16-rm-first-only", "C16", "C16.RM", CL, "        for cb in to_rm:\n            self.callbacks.remove(cb)", "        for cb in to_rm[:1]:\n            self.callbacks.remove(cb)")
brk("c17-rm-after-raise", "C17", "C17.RELEASE", CL, "        self.rmonevent(uuid=uid)\n\n        if result.timeout:\n            raise Exception(\"Timeout occurred\")", "        if result.timeout:\n            raise Exception(\"Timeout occurred\")\n\n        self.rmonevent(uuid=uid)")
brk("c17-timeout-unguarded", "C17", "C17.FLAG", CL, "            if not lock.is_set():\n                result.timeout = True\n                lock.set()", "            result.timeout = True\n            lock.set()")
brk("c17-poll-forever", "C17", "C17.POLL", CL, "                while not lock.is_set():\n                    self.send_message(msg)", "                while True:\n                    self.send_message(msg)")
brk("c17-regress-d18", "C17", "C17.FLAG", CL, "            if release and not lock.is_set():", "            if release:")
brk("c17-old-state", "C17", "C17.COND", CL, "                if isinstance(event, events.StateUpdate):\n                    if event.new_state != initial:", "                if isinstance(event, events.StateUpdate):\n                    if event.old_state != initial:")
keep("c17-if-timeout", ["C17"], CL, "        if timeout is not None and timeout > 0:", "        if timeout:")
brk("c18-narrow-except", "C18", "C18.PAIR", STCP, "            except:\n                logger.exception(\"Error in client handler loop\")", "            except ConnectionError:\n                logger.exception(\"Error in client handler loop\")")
brk("c18-close-in-try", "C18", "C18.PAIR", STCP, "            try:\n                await conn.wait_for_messages()\n            except:\n                logger.exception(\"Error in client handler loop\")\n\n            conn.close()\n            cls.connections.remove(conn)", "            try:\n                await conn.wait_for_messages()\n                conn.close()\n                cls.connections.remove(conn)\n            except:\n                logger.exception(\"Error in client handler loop\")")
brk("c18-no-unregister", "C18", "C18.CLOSE", STCP, "        self.writer.close()\n        if self.router:\n            self.router.unregister_client(self)", "        self.writer.close()")
brk("c18-tty-no-close", "C18", "C18.PAIR", STTY, "        logger.info(\"Stopping INDIpy server on TTY\")\n        self.close()", "        logger.info(\"Stopping INDIpy server on TTY\")")
brk("c19-drain-outside", "C19", "C19.LOCK", STCP, "            self.writer.write(data)\n            await self.writer.drain()", "            self.writer.write(data)\n        await self.writer.drain()")
brk("c19-late-serialise", "C19", "C19.SERIALIZE", STCP, "        data = message.to_string()\n        asyncio.get_running_loop().create_task(self.send(data))\n\n    async def send(self, data: bytes):\n        async with self.sender_lock:", "        asyncio.get_running_loop().create_task(self.send(message))\n\n    async def send(self, data):\n        data = data.to_string()\n        async with self.sender_lock:")
brk("c19-class-lock", "C19", "C19.LOCK", STCP, "    connections: List[\"ConnectionHandler\"] = []\n", "    connections: List[\"ConnectionHandler\"] = []\n    sender_lock = asyncio.Lock()\n")
brk("c19-regress-d19", "C19", "C19.LOCK", STTY, "        async with self.sender_lock:\n            await self.stdout.write(data)\n            await self.stdout.flush()", "        await self.stdout.write(data)\n        await self.stdout.flush()")
keep("c19-chunked", ["C19"], CTCP, "            self.writer.write(data)\n            await self.writer.drain()", "            for i in range(0, len(data), 512):\n                self.writer.write(data[i:i + 512])\n                await self.writer.drain()")
brk("c08-config-control", "C08", "C08.CONFIG", CL, "            self.process_message, for_blobs=True\n        )", "            self.process_message\n        )")
brk("c08-regress-null", "C08", "C08.NULL", VAL, 'return cls(base64.b64decode(binary_base64 or ""), format)', "return cls(base64.b64decode(binary_base64), format)")
brk("c08-urlsafe", "C08", "C08.VALUE", VAL, "return base64.b64encode(self.binary).decode(\"latin1\")", "return base64.urlsafe_b64encode(self.binary).decode(\"latin1\")")

# ---------------------------------------------------------------- round 7 rules
brk("c12-regress-d27", "C12", "C12.POISON", E, "            if not finite:\n                raise ValueError(f\"Value of {self.name} is not a finite number\")", "            if not finite:\n                pass")
brk("c12-d27-overflow-unhandled", "C12", "C12.POISON", E, "            except OverflowError:\n                finite = False", "            except OverflowError:\n                finite = True")
keep("c12-d27-float-spelling", ["C12", "C10", "C06"], E, "                finite = math.isfinite(value)", "                finite = not (math.isinf(value) or math.isnan(value))")
brk("c04-wire-setattr", "C04", "C04.WIRE", MB, "        return message_class(**kwargs)\n\n    @classmethod\n    def from_string", "        message = message_class(**kwargs)\n        for key, value in xml.attrib.items():\n            if key not in vars(message):\n                setattr(message, key, value)\n        return message\n\n    @classmethod\n    def from_string")
brk("c07-range-int", "C07", "C07.RANGE", "indi/message/def_parts.py", "        self.step = step", "        self.step = int(step)")
brk("c13-kind-subsumed", "C13", "C13.CHILD", "indi/message/def_parts.py", "class DefText(DefIndiMessagePart):", "from indi.message.one_parts import OneText\n\n\nclass DefText(DefIndiMessagePart, OneText):")
brk("c14-selected-through-set-value", "C14", "C14.NOWRITE", E, "        self.value = const.SwitchState.ON if value else const.SwitchState.OFF", "        self.set_value(const.SwitchState.ON if value else const.SwitchState.OFF)")
brk("c06-pending-truthy", "C06", "C06.SUBMIT", CE, "        return self._new_value is not None", "        return bool(self._new_value)")
brk("c02-append-skip-blank", "C02", "C02.APPEND", BUF, "    def append(self, data: str):\n        self.buffer.write(data)", "    def append(self, data: str):\n        if data.strip():\n            self.buffer.write(data)")
brk("c03-write-normalise-space", "C03", "C03.WRITE", MB, "    def to_xml(self, parent):\n        kwargs = {\n            k: str(v)\n", "    def to_xml(self, parent):\n        kwargs = {\n            k: \" \".join(str(v).split())\n")
