"""Runs the self-test corpus: each mutation on its own scratch copy of /repo/indi (outside /repo and
/verif, removed afterwards), at up to 16 jobs.  Report-only: it never changes a check's verdict.

usage: /venv/bin/python -m indilint.selftest.run [--props C05,C09] [--jobs 16] [--out selftest_report.json]
"""
from __future__ import annotations

import argparse
import json
import os
import shutil
import subprocess
import sys
import tempfile
import time
from concurrent.futures import ThreadPoolExecutor

from .mutations import M

VERIF = os.path.dirname(os.path.dirname(os.path.dirname(os.path.abspath(__file__))))
REPO = os.environ.get("INDILINT_REPO", "/repo")


def unparse_roundtrip(root):
    """Behaviour-preserving rewrite applied to every module: ast.unparse round trip
    (drops comments, normalises formatting, quotes and parentheses)."""
    import ast

    n = 0
    for dp, dn, fn in os.walk(os.path.join(root, "indi")):
        for f in fn:
            if f.endswith(".py"):
                path = os.path.join(dp, f)
                src = open(path, encoding="utf-8").read()
                if not src.strip():
                    continue
                out = ast.unparse(ast.parse(src)) + "\n"
                compile(out, path, "exec")
                open(path, "w", encoding="utf-8").write(out)
                n += 1
    return n


def rename_locals(root):
    """Behaviour-preserving rewrite: alpha-rename the local variables of every function that has no nested
    function/lambda/comprehension-free-variable subtleties (locals = names stored in the function, not parameters,
    not declared global/nonlocal)."""
    import ast

    class Renamer(ast.NodeTransformer):
        def __init__(self, names):
            self.names = names

        def visit_Name(self, node):
            if node.id in self.names:
                return ast.copy_location(ast.Name(id=node.id + "_r", ctx=node.ctx), node)
            return node

        def visit_ExceptHandler(self, node):
            if node.name in self.names:
                node.name = node.name + "_r"
            self.generic_visit(node)
            return node

    n = 0
    for dp, dn, fn in os.walk(os.path.join(root, "indi")):
        for f in fn:
            if not f.endswith(".py"):
                continue
            path = os.path.join(dp, f)
            src = open(path, encoding="utf-8").read()
            if not src.strip():
                continue
            tree = ast.parse(src)
            changed = False
            for fn_ in [x for x in ast.walk(tree) if isinstance(x, (ast.FunctionDef, ast.AsyncFunctionDef))]:
                inner = [x for x in ast.walk(fn_) if x is not fn_ and isinstance(x, (ast.FunctionDef, ast.AsyncFunctionDef, ast.Lambda, ast.ClassDef, ast.Global, ast.Nonlocal))]
                if inner:
                    continue
                params = {a.arg for a in fn_.args.posonlyargs + fn_.args.args + fn_.args.kwonlyargs}
                if fn_.args.vararg:
                    params.add(fn_.args.vararg.arg)
                if fn_.args.kwarg:
                    params.add(fn_.args.kwarg.arg)
                stored = {x.id for x in ast.walk(fn_) if isinstance(x, ast.Name) and isinstance(x.ctx, ast.Store)}
                stored |= {h.name for h in ast.walk(fn_) if isinstance(h, ast.ExceptHandler) and h.name}
                names = {s for s in stored if s not in params and not s.startswith("__")}
                # a local that shadows a module-level name used before assignment would change meaning: skip those
                if not names:
                    continue
                fn_.body = [Renamer(names).visit(st) for st in fn_.body]
                changed = True
                n += 1
            if changed:
                out = ast.unparse(ast.fix_missing_locations(tree)) + "\n"
                compile(out, path, "exec")
                open(path, "w", encoding="utf-8").write(out)
    return n


def _rewrite_all(root, transform):
    import ast
    n = 0
    for dp, dn, fn in os.walk(os.path.join(root, "indi")):
        for f in fn:
            if not f.endswith(".py"):
                continue
            path = os.path.join(dp, f)
            src = open(path, encoding="utf-8").read()
            if not src.strip():
                continue
            tree = ast.parse(src)
            k = transform(tree)
            if k:
                out = ast.unparse(ast.fix_missing_locations(tree)) + "\n"
                compile(out, path, "exec")
                open(path, "w", encoding="utf-8").write(out)
                n += k
    return n


def invert_ifs(root):
    """Behaviour-preserving rewrite: 'if c: A else: B' -> 'if not c: B else: A' (plain if/else only, no elif chains)."""
    import ast

    def tr(tree):
        k = 0
        for node in ast.walk(tree):
            if isinstance(node, ast.If) and node.orelse and not (len(node.orelse) == 1 and isinstance(node.orelse[0], ast.If)):
                node.test = ast.UnaryOp(op=ast.Not(), operand=node.test)
                node.body, node.orelse = node.orelse, node.body
                k += 1
        return k

    return _rewrite_all(root, tr)


def values_for_items(root):
    """Behaviour-preserving rewrite: 'for k, v in d.items()' -> 'for v in d.values()' when k is unused in the loop."""
    import ast

    def tr(tree):
        k = 0
        for node in ast.walk(tree):
            if isinstance(node, ast.For) and isinstance(node.target, ast.Tuple) and len(node.target.elts) == 2 and all(isinstance(e, ast.Name) for e in node.target.elts):
                it = node.iter
                if isinstance(it, ast.Call) and isinstance(it.func, ast.Attribute) and it.func.attr == "items" and not it.args:
                    key = node.target.elts[0].id
                    used = any(isinstance(x, ast.Name) and x.id == key for st in node.body + node.orelse for x in ast.walk(st))
                    if not used:
                        node.target = node.target.elts[1]
                        it.func.attr = "values"
                        k += 1
        return k

    return _rewrite_all(root, tr)


def rename_private(root):
    """Behaviour-preserving rewrite: every single-underscore attribute/method name (x._name, def _name, class-level
    _name = ...) is renamed consistently across the package, together with string constants equal to such a name (the metaclass
    writes dct["_group_definitions"])."""
    import ast

    def ok(n):
        return n.startswith("_") and not n.startswith("__") and len(n) > 1

    names = set()
    for dp, dn, fn in os.walk(os.path.join(root, "indi")):
        for f in fn:
            if f.endswith(".py"):
                for node in ast.walk(ast.parse(open(os.path.join(dp, f), encoding="utf-8").read())):
                    if isinstance(node, ast.Attribute) and ok(node.attr):
                        names.add(node.attr)

    def tr(tree):
        k = 0
        for node in ast.walk(tree):
            if isinstance(node, ast.Constant) and isinstance(node.value, str) and node.value in names:
                node.value += "_p"
                k += 1
            elif isinstance(node, ast.Attribute) and ok(node.attr):
                node.attr += "_p"
                k += 1
            elif isinstance(node, (ast.FunctionDef, ast.AsyncFunctionDef)) and ok(node.name):
                node.name += "_p"
                k += 1
            elif isinstance(node, ast.ClassDef):
                for st in node.body:
                    tg = st.targets if isinstance(st, ast.Assign) else ([st.target] if isinstance(st, ast.AnnAssign) else [])
                    for t in tg:
                        if isinstance(t, ast.Name) and ok(t.id):
                            t.id += "_p"
                            k += 1
        return k

    return _rewrite_all(root, tr)


def reorder_methods(root):
    """Behaviour-preserving rewrite: undecorated methods of every class are moved behind the rest of the class body,
    in reverse order (decorated ones - properties, setters, classmethods, handlers - keep their place)."""
    import ast

    def tr(tree):
        k = 0
        for node in ast.walk(tree):
            if isinstance(node, ast.ClassDef):
                plain = [st for st in node.body if isinstance(st, (ast.FunctionDef, ast.AsyncFunctionDef)) and not st.decorator_list]
                if len(plain) > 1:
                    rest = [st for st in node.body if st not in plain]
                    node.body = rest + list(reversed(plain))
                    k += 1
        return k

    return _rewrite_all(root, tr)


def add_logging(root):
    """Behaviour-preserving rewrite: a debug log line naming the function is inserted at the top of every function
    and method (module gets 'import logging' and a logger when it has none)."""
    import ast

    def tr(tree):
        k = 0
        for node in ast.walk(tree):
            if isinstance(node, (ast.FunctionDef, ast.AsyncFunctionDef)):
                call = ast.parse(f"logging.getLogger(__name__).debug('enter %s', {node.name!r})").body[0]
                pos = 1 if node.body and isinstance(node.body[0], ast.Expr) and isinstance(getattr(node.body[0], 'value', None), ast.Constant) and isinstance(node.body[0].value.value, str) else 0
                node.body.insert(pos, call)
                k += 1
        if k:
            pos = 0
            for i, st in enumerate(tree.body):
                if isinstance(st, ast.ImportFrom) and st.module == "__future__" or (i == 0 and isinstance(st, ast.Expr) and isinstance(getattr(st, "value", None), ast.Constant)):
                    pos = i + 1
            tree.body.insert(pos, ast.parse("import logging").body[0])
        return k

    return _rewrite_all(root, tr)


def swap_eq(root):
    """Behaviour-preserving rewrite: 'a == b' -> 'b == a', 'a != b' -> 'b != a' (single comparisons; equality in this
    package is symmetric)."""
    import ast

    def tr(tree):
        k = 0
        for node in ast.walk(tree):
            if isinstance(node, ast.Compare) and len(node.ops) == 1 and isinstance(node.ops[0], (ast.Eq, ast.NotEq)):
                node.left, node.comparators[0] = node.comparators[0], node.left
                k += 1
        return k

    return _rewrite_all(root, tr)


def comp_to_loop(root):
    """Behaviour-preserving rewrite: 'x = [elt for t in it if c]' -> 'x = []' + explicit for/if/append."""
    import ast

    def conv(st):
        if not (isinstance(st, ast.Assign) and len(st.targets) == 1 and isinstance(st.targets[0], ast.Name) and isinstance(st.value, ast.ListComp) and len(st.value.generators) == 1 and not st.value.generators[0].is_async):
            return None
        g = st.value.generators[0]
        name = st.targets[0].id
        # the comprehension has its own scope: skip when its variables collide with the target
        if any(isinstance(n, ast.Name) and n.id == name for n in ast.walk(st.value)):
            return None
        app = ast.Expr(ast.Call(ast.Attribute(ast.Name(name, ast.Load()), "append", ast.Load()), [st.value.elt], []))
        body = [app]
        for c in reversed(g.ifs):
            body = [ast.If(c, body, [])]
        return [ast.Assign([ast.Name(name, ast.Store())], ast.List([], ast.Load())), ast.For(g.target, g.iter, body, [])]

    def tr(tree):
        k = 0
        for node in ast.walk(tree):
            for field in ("body", "orelse", "finalbody"):
                blk = getattr(node, field, None)
                if isinstance(blk, list) and blk and isinstance(blk[0], ast.stmt):
                    out = []
                    for st in blk:
                        r = conv(st)
                        if r:
                            out.extend(r)
                            k += 1
                        else:
                            out.append(st)
                    setattr(node, field, out)
        return k

    return _rewrite_all(root, tr)


def hoist_args(root):
    """Behaviour-preserving rewrite: 'f(g(x))' as a statement -> '_h0 = g(x); f(_h0)' (call arguments that are calls are
    bound to a temporary first; receiver lookups in this package are pure)."""
    import ast

    def tr(tree):
        k = 0
        for fn in [x for x in ast.walk(tree) if isinstance(x, (ast.FunctionDef, ast.AsyncFunctionDef))]:
            if any(isinstance(x, (ast.Lambda, ast.Global, ast.Nonlocal)) for x in ast.walk(fn)):
                continue
            counter = [0]
            for node in ast.walk(fn):
                for field in ("body", "orelse", "finalbody"):
                    blk = getattr(node, field, None)
                    if not (isinstance(blk, list) and blk and isinstance(blk[0], ast.stmt)):
                        continue
                    out = []
                    for st in blk:
                        call = st.value if isinstance(st, ast.Expr) and isinstance(st.value, ast.Call) else None
                        if call is not None and not any(isinstance(x, (ast.Await, ast.Yield, ast.YieldFrom, ast.NamedExpr, ast.GeneratorExp, ast.ListComp)) for x in ast.walk(call)):
                            for i, a in enumerate(call.args):
                                if isinstance(a, ast.Call):
                                    name = f"_h{counter[0]}"
                                    counter[0] += 1
                                    out.append(ast.Assign([ast.Name(name, ast.Store())], a))
                                    call.args[i] = ast.Name(name, ast.Load())
                                    k += 1
                        out.append(st)
                    setattr(node, field, out)
        return k

    return _rewrite_all(root, tr)


def rename_params(root):
    """Behaviour-preserving rewrite: parameters (other than self/cls) of functions without nested scopes are renamed,
    unless the name is used as a keyword argument anywhere in the package or its tests (then callers depend on it)."""
    import ast

    kw_used = set()
    for base in (os.path.join(root, "indi"), os.path.join(REPO, "tests"), os.path.join(REPO, "indi")):
        for dp, dn, fn in os.walk(base):
            for f in fn:
                if f.endswith(".py"):
                    try:
                        t = ast.parse(open(os.path.join(dp, f), encoding="utf-8").read())
                    except SyntaxError:
                        continue
                    for n in ast.walk(t):
                        if isinstance(n, ast.Call):
                            kw_used.update(k.arg for k in n.keywords if k.arg)
                        if isinstance(n, ast.Constant) and isinstance(n.value, str) and n.value.isidentifier():
                            kw_used.add(n.value)  # kwargs.get("perm"), getattr(x, "name") ...

    class Ren(ast.NodeTransformer):
        def __init__(self, names):
            self.names = names

        def visit_Name(self, node):
            if node.id in self.names:
                return ast.copy_location(ast.Name(id=node.id + "_a", ctx=node.ctx), node)
            return node

    def tr(tree):
        k = 0
        for fn_ in [x for x in ast.walk(tree) if isinstance(x, (ast.FunctionDef, ast.AsyncFunctionDef))]:
            if any(x is not fn_ and isinstance(x, (ast.FunctionDef, ast.AsyncFunctionDef, ast.Lambda, ast.ClassDef, ast.Global, ast.Nonlocal, ast.ListComp, ast.DictComp, ast.SetComp, ast.GeneratorExp)) for x in ast.walk(fn_)):
                continue
            if fn_.decorator_list or fn_.name.startswith("__"):
                continue
            args = fn_.args.posonlyargs + fn_.args.args
            names = {a.arg for a in args if a.arg not in ("self", "cls", "meta") and a.arg not in kw_used}
            if not names:
                continue
            for a in args:
                if a.arg in names:
                    a.arg += "_a"
            fn_.body = [Ren(names).visit(st) for st in fn_.body]
            k += len(names)
        return k

    return _rewrite_all(root, tr)


def run_one(entry, evidence_dir):
    mid, kind, props, rule, file, old, new = entry
    d = tempfile.mkdtemp(prefix="indilint-selftest-")
    res = {"id": mid, "kind": kind, "props": props, "rule": rule, "file": file}
    try:
        shutil.copytree(os.path.join(REPO, "indi"), os.path.join(d, "indi"))
        if file.startswith("*refactoring:"):
            # an independently written behaviour-preserving refactoring kept under /verif/refactorings/<id>/patch.diff
            patch = os.path.join(VERIF, "refactorings", file[13:-1], "patch.diff")
            pr = subprocess.run(["git", "apply", patch], cwd=d, capture_output=True, text=True)
            if pr.returncode != 0:
                res["status"] = "skipped"
                res["why"] = "refactoring patch does not apply to the current tree: " + pr.stderr.strip()[:200]
                return res
        elif file.startswith("*seed:"):
            # an independently seeded change kept under /verif/seeded/<id>/patch.diff (DESIGN.md section 10)
            patch = os.path.join(VERIF, "seeded", file[6:-1], "patch.diff")
            pr = subprocess.run(["git", "apply", patch], cwd=d, capture_output=True, text=True)
            if pr.returncode != 0:
                res["status"] = "skipped"
                res["why"] = "seeded patch does not apply to the current tree: " + pr.stderr.strip()[:200]
                return res
        elif file == "*unparse*":
            res["modules"] = unparse_roundtrip(d)
        elif file == "*rename-locals*":
            res["functions"] = rename_locals(d)
        elif file == "*invert-ifs*":
            res["ifs"] = invert_ifs(d)
        elif file == "*values-for-items*":
            res["loops"] = values_for_items(d)
        elif file == "*rename-private*":
            res["names"] = rename_private(d)
        elif file == "*reorder-methods*":
            res["classes"] = reorder_methods(d)
        elif file == "*add-logging*":
            res["functions"] = add_logging(d)
        elif file == "*rename-params*":
            res["params"] = rename_params(d)
        elif file == "*hoist-args*":
            res["hoisted"] = hoist_args(d)
        elif file == "*swap-eq*":
            res["comparisons"] = swap_eq(d)
        elif file == "*comp-to-loop*":
            res["comprehensions"] = comp_to_loop(d)
        else:
            path = os.path.join(d, file)
            src = open(path, encoding="utf-8").read()
            if src.count(old) < 1:
                res["status"] = "skipped"
                res["why"] = "pattern not found in the current tree"
                return res
            src2 = src.replace(old, new, 1)
            try:
                compile(src2, path, "exec")
            except SyntaxError as e:
                res["status"] = "skipped"
                res["why"] = f"variant does not compile: {e}"
                return res
            open(path, "w", encoding="utf-8").write(src2)
        outs = {}
        for prop in props:
            env = dict(os.environ)
            env["INDILINT_REPO"] = d
            env["INDILINT_EVIDENCE_DIR"] = os.path.join(evidence_dir, mid)  # one directory per variant: concurrent runs of one property must not share files
            os.makedirs(env["INDILINT_EVIDENCE_DIR"], exist_ok=True)
            env["INDILINT_NO_SELFTEST"] = "1"
            pr = subprocess.run(["/venv/bin/python", "-m", "indilint.cli", prop, "--repo", d], cwd=VERIF, env=env, capture_output=True, text=True, timeout=600)
            viol = [l.strip() for l in pr.stdout.splitlines() if l.strip().startswith("VIOLATED")]
            outs[prop] = {"rc": pr.returncode, "stderr_tail": pr.stderr[-300:] if pr.returncode not in (0, 1) or not viol and pr.returncode == 1 else "", "violated_rules": sorted({l.split()[2] for l in viol if len(l.split()) > 2}), "first": viol[0][:200] if viol else None}
        res["runs"] = outs
        if kind == "break":
            o = outs[props[0]]
            hit = o["rc"] == 1 and (rule is None or any(r.startswith(rule) for r in o["violated_rules"]))
            res["status"] = "killed" if hit else ("killed-other-rule" if o["rc"] == 1 else ("incomplete" if o["rc"] == 2 else "survived"))
        else:
            bad = {p_: o for p_, o in outs.items() if o["rc"] != 0}
            res["status"] = "silent" if not bad else ("incomplete" if all(o["rc"] == 2 for o in bad.values()) else "FALSE-ALARM")
        return res
    except Exception as e:  # engine trouble in the harness itself
        res["status"] = "harness-error"
        res["why"] = repr(e)
        return res
    finally:
        shutil.rmtree(d, ignore_errors=True)


def seed_entries(prop=None):
    out = []
    sd = os.path.join(VERIF, "seeded")
    for name in sorted(os.listdir(sd)) if os.path.isdir(sd) else []:
        if os.path.exists(os.path.join(sd, name, "patch.diff")) and (prop is None or name[:3] == prop):
            out.append((f"seed-{name}", "break", [name[:3]], None, f"*seed:{name}*", "", ""))
    return out


def refactoring_entries(props):
    out = []
    rd = os.path.join(VERIF, "refactorings")
    for name in sorted(os.listdir(rd)) if os.path.isdir(rd) else []:
        if os.path.exists(os.path.join(rd, name, "patch.diff")):
            out.append((f"refactoring-{name}", "preserve", list(props), None, f"*refactoring:{name}*", "", ""))
    return out


def run_for_property(prop: str, jobs: int = 16):
    entries = [e for e in M if prop in e[2]]
    entries = [(e[0], e[1], [prop] if e[1] == "preserve" else e[2], e[3], e[4], e[5], e[6]) for e in entries if e[1] == "preserve" or e[2][0] == prop]
    entries.extend(seed_entries(prop))
    entries.extend(refactoring_entries([prop]))
    entries.append((f"{prop}-unparse-roundtrip", "preserve", [prop], None, "*unparse*", "", ""))
    entries.append((f"{prop}-rename-locals", "preserve", [prop], None, "*rename-locals*", "", ""))
    entries.append((f"{prop}-invert-ifs", "preserve", [prop], None, "*invert-ifs*", "", ""))
    entries.append((f"{prop}-values-for-items", "preserve", [prop], None, "*values-for-items*", "", ""))
    entries.append((f"{prop}-rename-private", "preserve", [prop], None, "*rename-private*", "", ""))
    entries.append((f"{prop}-reorder-methods", "preserve", [prop], None, "*reorder-methods*", "", ""))
    entries.append((f"{prop}-add-logging", "preserve", [prop], None, "*add-logging*", "", ""))
    entries.append((f"{prop}-swap-eq", "preserve", [prop], None, "*swap-eq*", "", ""))
    entries.append((f"{prop}-hoist-args", "preserve", [prop], None, "*hoist-args*", "", ""))
    entries.append((f"{prop}-rename-params", "preserve", [prop], None, "*rename-params*", "", ""))
    entries.append((f"{prop}-comp-to-loop", "preserve", [prop], None, "*comp-to-loop*", "", ""))
    t0 = time.time()
    evdir = tempfile.mkdtemp(prefix="indilint-selftest-ev-")
    try:
        with ThreadPoolExecutor(max_workers=jobs) as ex:
            results = list(ex.map(lambda e: run_one(e, evdir), entries))
    finally:
        shutil.rmtree(evdir, ignore_errors=True)
    summary = {}
    for r_ in results:
        summary[r_["status"]] = summary.get(r_["status"], 0) + 1
    return {"wall_s": round(time.time() - t0, 1), "variants": len(results), "summary": summary, "results": results}


def main(argv=None):
    ap = argparse.ArgumentParser()
    ap.add_argument("--props", default=None)
    ap.add_argument("--jobs", type=int, default=16)
    ap.add_argument("--out", default=os.path.join(VERIF, "selftest_report.json"))
    ap.add_argument("--ids", default=None, help="comma-separated substrings of variant ids to run")
    a = ap.parse_args(argv)
    sel = set(a.props.split(",")) if a.props else None
    entries = list(M) + seed_entries()
    allprops = [f"C{i:02d}" for i in range(1, 21)]
    entries.extend(refactoring_entries(allprops))
    entries.append(("all-unparse-roundtrip", "preserve", allprops, None, "*unparse*", "", ""))
    entries.append(("all-rename-locals", "preserve", allprops, None, "*rename-locals*", "", ""))
    entries.append(("all-invert-ifs", "preserve", allprops, None, "*invert-ifs*", "", ""))
    entries.append(("all-values-for-items", "preserve", allprops, None, "*values-for-items*", "", ""))
    entries.append(("all-rename-private", "preserve", allprops, None, "*rename-private*", "", ""))
    entries.append(("all-reorder-methods", "preserve", allprops, None, "*reorder-methods*", "", ""))
    entries.append(("all-add-logging", "preserve", allprops, None, "*add-logging*", "", ""))
    entries.append(("all-swap-eq", "preserve", allprops, None, "*swap-eq*", "", ""))
    entries.append(("all-hoist-args", "preserve", allprops, None, "*hoist-args*", "", ""))
    entries.append(("all-rename-params", "preserve", allprops, None, "*rename-params*", "", ""))
    entries.append(("all-comp-to-loop", "preserve", allprops, None, "*comp-to-loop*", "", ""))
    if sel:
        entries = [e for e in entries if set(e[2]) & sel]
        entries = [(e[0], e[1], [p for p in e[2] if p in sel] if e[1] == "preserve" else e[2], e[3], e[4], e[5], e[6]) for e in entries]
    if a.ids:
        subs = a.ids.split(",")
        entries = [e for e in entries if any(s in e[0] for s in subs)]
    t0 = time.time()
    evdir = tempfile.mkdtemp(prefix="indilint-selftest-ev-")
    try:
        with ThreadPoolExecutor(max_workers=a.jobs) as ex:
            results = list(ex.map(lambda e: run_one(e, evdir), entries))
    finally:
        shutil.rmtree(evdir, ignore_errors=True)
    summary = {}
    for r in results:
        summary[r["status"]] = summary.get(r["status"], 0) + 1
    rep = {"wall_s": round(time.time() - t0, 1), "variants": len(results), "summary": summary, "results": results}
    with open(a.out, "w") as f:
        json.dump(rep, f, indent=1)
    print(f"selftest: {len(results)} variants in {rep['wall_s']} s: {summary}")
    for r in results:
        if r["status"] in ("survived", "FALSE-ALARM", "harness-error", "incomplete", "killed-other-rule"):
            print(f"  {r['status']:18s} {r['id']:32s} {r.get('runs') or r.get('why')}"[:300])
    return 0


if __name__ == "__main__":
    sys.exit(main())
