"""Program model for /repo/indi: modules, namespaces, classes, static MRO, signatures.

Nothing of the analysed package is imported or executed: everything here comes from
``ast.parse`` of the source files as they are on disk when the check runs.
"""
from __future__ import annotations

import ast
import os
from typing import Dict, List, Optional, Tuple


class AnalysisError(Exception):
    """The analyser cannot do its job (anchor vanished, parse failure, floor missed)."""


class Undecided(Exception):
    """A construct is outside the idioms a rule understands (-> ANALYSIS-INCOMPLETE)."""


REPO = os.environ.get("INDILINT_REPO", "/repo")


class Module:
    def __init__(self, name: str, path: str, source: str, is_pkg: bool):
        self.name = name
        self.path = path
        self.source = source
        self.lines = source.splitlines()
        self.is_pkg = is_pkg
        self.tree = ast.parse(source, filename=path)
        # name -> binding; binding is a tuple:
        #   ("import", module_qualname, attr_or_None)
        #   ("class", ClassInfo) / ("func", FunctionInfo) / ("assign", ast.expr)
        self.ns: Dict[str, tuple] = {}
        self.star_imports: List[str] = []
        self.classes: Dict[str, "ClassInfo"] = {}
        self.functions: Dict[str, "FunctionInfo"] = {}

    @property
    def relpath(self) -> str:
        return os.path.relpath(self.path, REPO)

    def package(self) -> str:
        return self.name if self.is_pkg else self.name.rpartition(".")[0]

    def __repr__(self):
        return f"<Module {self.name}>"


def _dispatch_registration(node):
    """@<dispatcher>.register(<class>) / @<dispatcher>.register (class taken from the first annotated parameter):
    -> (dispatcher name, class expression) or None."""
    for d in node.decorator_list:
        call = d if isinstance(d, ast.Call) else None
        target = call.func if call is not None else d
        if isinstance(target, ast.Attribute) and target.attr == "register" and isinstance(target.value, (ast.Name, ast.Attribute)):
            name = target.value.id if isinstance(target.value, ast.Name) else target.value.attr
            if call is not None and call.args:
                return (name, call.args[0])
            params = [a for a in node.args.posonlyargs + node.args.args if a.arg not in ("self", "cls")]
            if params and params[0].annotation is not None:
                return (name, params[0].annotation)
    return None


class FunctionInfo:
    def __init__(self, node, module: Module, cls: Optional["ClassInfo"], parent=None):
        self.node = node
        self.name = node.name
        self.module = module
        self.cls = cls
        self.parent: Optional[FunctionInfo] = parent
        self.is_async = isinstance(node, ast.AsyncFunctionDef)
        self.decorators = [ast.unparse(d) for d in node.decorator_list]
        self.nested: Dict[str, FunctionInfo] = {}
        for sub in ast.walk(node):
            pass

    @property
    def qualname(self) -> str:
        if self.parent is not None:
            return f"{self.parent.qualname}.{self.name}"
        if self.cls is not None:
            return f"{self.cls.qualname}.{self.name}"
        return f"{self.module.name}.{self.name}"

    @property
    def short(self) -> str:
        """file::Class.func form used in reports and finding keys."""
        q = self.name
        p = self.parent
        while p is not None:
            q = f"{p.name}.{q}"
            p = p.parent
        c = self.cls
        if c is None and self.parent is not None:
            pp = self.parent
            while pp.parent is not None:
                pp = pp.parent
            c = pp.cls
        if c is not None:
            q = f"{c.name}.{q}"
        return f"{self.module.relpath}::{q}"

    @property
    def kind(self) -> str:
        for d in self.decorators:
            if d == "property":
                return "getter"
            if d.endswith(".setter"):
                return "setter"
            if d == "classmethod":
                return "classmethod"
            if d == "staticmethod":
                return "staticmethod"
        return "method" if self.cls is not None and self.parent is None else "function"

    def params(self) -> List[str]:
        a = self.node.args
        return [x.arg for x in a.posonlyargs + a.args]

    def __repr__(self):
        return f"<Func {self.qualname}>"


class ClassInfo:
    def __init__(self, node: ast.ClassDef, module: Module):
        self.node = node
        self.name = node.name
        self.module = module
        self.base_exprs = list(node.bases)
        self.bases: List[ClassInfo] = []
        self.foreign_bases: List[str] = []
        self.mro: List[ClassInfo] = []
        self.decorators = [ast.unparse(d) for d in node.decorator_list]
        self.class_attrs: Dict[str, ast.expr] = {}
        self.annotations: Dict[str, ast.expr] = {}
        self.methods: Dict[str, FunctionInfo] = {}
        self.getters: Dict[str, FunctionInfo] = {}
        self.setters: Dict[str, FunctionInfo] = {}
        self.subclasses: List[ClassInfo] = []
        self.keywords = {k.arg: k.value for k in node.keywords}
        self.dispatch_impls: Dict[str, list] = {}  # singledispatchmethod: dispatcher name -> [(class expr, FunctionInfo)]
        for st in node.body:
            if isinstance(st, (ast.FunctionDef, ast.AsyncFunctionDef)):
                fi = FunctionInfo(st, module, self)
                reg = _dispatch_registration(st)
                if reg is not None:
                    self.dispatch_impls.setdefault(reg[0], []).append((reg[1], fi))
                    self.dispatch_all = getattr(self, "dispatch_all", []) + [fi]
                    if fi.name == "_" or fi.name in self.methods:
                        continue  # the usual anonymous '_' implementations do not shadow one another
                k = fi.kind
                if k == "getter":
                    self.getters[fi.name] = fi
                elif k == "setter":
                    self.setters[fi.name] = fi
                else:
                    self.methods[fi.name] = fi
            elif isinstance(st, ast.Assign):
                for t in st.targets:
                    if isinstance(t, ast.Name):
                        self.class_attrs[t.id] = st.value
            elif isinstance(st, ast.AnnAssign) and isinstance(st.target, ast.Name):
                self.annotations[st.target.id] = st.annotation
                if st.value is not None:
                    self.class_attrs[st.target.id] = st.value

        self._synthesize_dataclass(module)
        # typing.NamedTuple: ordered fields (with defaults); instances are tuples with named access
        self.namedtuple_fields = None
        if any(ast.unparse(b).split(".")[-1] == "NamedTuple" for b in self.node.bases):
            self.namedtuple_fields = [(st.target.id, st.value) for st in self.node.body if isinstance(st, ast.AnnAssign) and isinstance(st.target, ast.Name)]
        if deco_fields := getattr(self, "_dataclass_field_names", None):
            self.dataclass_fields = deco_fields

    def _synthesize_dataclass(self, module):
        """@dataclass: the generated __init__ and __eq__ are materialised as analysis-only methods (own annotated
        fields in order; simple defaults and field(default=..., compare=...) understood), so that a class converted
        to a dataclass is analysed like its hand-written equivalent."""
        deco = [d for d in self.decorators if d.split("(")[0].split(".")[-1] == "dataclass"]
        if not deco:
            return
        opts = deco[0]
        fields = []
        for st in self.node.body:
            if isinstance(st, ast.AnnAssign) and isinstance(st.target, ast.Name):
                if "ClassVar" in ast.unparse(st.annotation):
                    continue
                default, compare, init = None, True, True
                v = st.value
                if isinstance(v, ast.Call) and ast.unparse(v.func).split(".")[-1] == "field":
                    for k in v.keywords:
                        if k.arg == "default":
                            default = ast.unparse(k.value)
                        elif k.arg == "default_factory":
                            default = ast.unparse(k.value) + "()"
                        elif k.arg == "compare" and isinstance(k.value, ast.Constant):
                            compare = bool(k.value.value)
                        elif k.arg == "init" and isinstance(k.value, ast.Constant):
                            init = bool(k.value.value)
                elif v is not None:
                    default = ast.unparse(v)
                fields.append((st.target.id, default, compare, init))
        self._dataclass_field_names = [n for n, d, c, i in fields if i]
        src = []
        if "__init__" not in self.methods and "init=False" not in opts:
            params = ", ".join(n + (f"={d}" if d is not None else "") for n, d, c, i in fields if i)
            body = "".join(f"    self.{n} = {n if i else d}\n" for n, d, c, i in fields) or "    pass\n"
            src.append(f"def __init__(self{', ' if params else ''}{params}):\n{body}")
        if "__eq__" not in self.methods and "eq=False" not in opts:
            cmp = [n for n, d, c, i in fields if c]
            a = "(" + "".join(f"self.{n}, " for n in cmp) + ")"
            b = "(" + "".join(f"other.{n}, " for n in cmp) + ")"
            src.append(f"def __eq__(self, other):\n    if other.__class__ is self.__class__:\n        return {a} == {b}\n    return NotImplemented\n")
        for text in src:
            try:
                fn = ast.parse(text).body[0]
            except SyntaxError:
                continue
            for n_ in ast.walk(fn):
                if hasattr(n_, "lineno"):
                    n_.lineno = self.node.lineno
                    n_.end_lineno = self.node.lineno
            fi = FunctionInfo(fn, module, self)
            fi.synthetic = True
            self.methods[fi.name] = fi

    @property
    def qualname(self) -> str:
        return f"{self.module.name}.{self.name}"

    @property
    def short(self) -> str:
        return f"{self.module.relpath}::{self.name}"

    def is_subclass_of(self, other: "ClassInfo") -> bool:
        return other in self.mro

    def all_subclasses(self) -> List["ClassInfo"]:
        out, seen, todo = [], set(), list(self.subclasses)
        while todo:
            c = todo.pop(0)
            if id(c) in seen:
                continue
            seen.add(id(c))
            out.append(c)
            todo.extend(c.subclasses)
        return out

    def find_method(self, name: str) -> Optional[FunctionInfo]:
        for c in self.mro:
            if name in c.methods:
                return c.methods[name]
        return None

    def find_getter(self, name: str) -> Optional[FunctionInfo]:
        for c in self.mro:
            if name in c.getters:
                return c.getters[name]
            if name in c.methods or name in c.class_attrs:
                return None
        return None

    def find_setter(self, name: str) -> Optional[FunctionInfo]:
        for c in self.mro:
            if name in c.setters:
                return c.setters[name]
            if name in c.getters:
                return None
        return None

    def find_class_attr(self, name: str) -> Optional[Tuple[ast.expr, "ClassInfo"]]:
        for c in self.mro:
            if name in c.class_attrs:
                return c.class_attrs[name], c
        return None

    def has_member(self, name: str) -> bool:
        for c in self.mro:
            if name in c.methods or name in c.getters or name in c.class_attrs:
                return True
        return False

    def __repr__(self):
        return f"<Class {self.qualname}>"


class Param:
    def __init__(self, name, required, default, annotation, kind, owner):
        self.name = name
        self.required = required
        self.default = default  # ast or None
        self.annotation = annotation  # ast or None
        self.kind = kind  # "pos" | "kwonly"
        self.owner: ClassInfo = owner

    def nullable(self) -> bool:
        """Annotation says Optional[...] or default is None."""
        if self.default is not None and isinstance(self.default, ast.Constant) and self.default.value is None:
            return True
        if self.annotation is not None:
            s = ast.unparse(self.annotation)
            if s.startswith("Optional[") or "None" in s:
                return True
        return False

    def __repr__(self):
        return f"Param({self.name}{'' if self.required else '=?'}@{self.owner.name})"


class Signature:
    """Effective constructor signature of a class, following *args/**kwargs forwarding."""

    def __init__(self):
        self.positional: List[Param] = []
        self.kwonly: List[Param] = []
        self.swallows_unknown = False  # a **junk catch-all that is NOT forwarded
        self.accepts_extra_positional = False
        self.chain: List[FunctionInfo] = []
        self.resolved = True

    def named(self) -> Dict[str, Param]:
        d = {}
        for p in self.positional + self.kwonly:
            d.setdefault(p.name, p)
        return d

    def required(self) -> List[str]:
        return [p.name for p in self.positional + self.kwonly if p.required]


class Program:
    def __init__(self, root: str = None, package: str = "indi"):
        self.root = root or REPO
        self.package = package
        self.modules: Dict[str, Module] = {}
        self.classes: Dict[str, ClassInfo] = {}
        self.functions: List[FunctionInfo] = []
        self._load()
        self._bind()
        self._link_classes()

    # ------------------------------------------------------------------ loading
    def _load(self):
        pkg_dir = os.path.join(self.root, self.package)
        if not os.path.isdir(pkg_dir):
            raise AnalysisError(f"package directory {pkg_dir} not found")
        for dirpath, dirnames, filenames in os.walk(pkg_dir):
            dirnames[:] = sorted(d for d in dirnames if d != "__pycache__")
            for fn in sorted(filenames):
                if not fn.endswith(".py"):
                    continue
                path = os.path.join(dirpath, fn)
                rel = os.path.relpath(path, self.root)[:-3].split(os.sep)
                is_pkg = rel[-1] == "__init__"
                if is_pkg:
                    rel = rel[:-1]
                name = ".".join(rel)
                try:
                    with open(path, encoding="utf-8") as f:
                        src = f.read()
                    self.modules[name] = Module(name, path, src, is_pkg)
                except SyntaxError as e:
                    raise AnalysisError(f"cannot parse {path}: {e}")

    def _abs_module(self, mod: Module, module: Optional[str], level: int) -> str:
        if level == 0:
            return module or ""
        base = mod.package().split(".")
        if level > 1:
            base = base[: -(level - 1)]
        return ".".join(base + ([module] if module else []))

    def _bind(self):
        for mod in self.modules.values():
            self._bind_body(mod, mod.tree.body)

    def _bind_body(self, mod: Module, body):
        for st in body:
            if isinstance(st, ast.Import):
                for a in st.names:
                    if a.asname:
                        mod.ns[a.asname] = ("import", a.name, None)
                    else:
                        top = a.name.split(".")[0]
                        mod.ns[top] = ("import", top, None)
            elif isinstance(st, ast.ImportFrom):
                target = self._abs_module(mod, st.module, st.level)
                for a in st.names:
                    if a.name == "*":
                        mod.star_imports.append(target)
                    else:
                        mod.ns[a.asname or a.name] = ("import", target, a.name)
            elif isinstance(st, ast.ClassDef):
                ci = ClassInfo(st, mod)
                mod.classes[ci.name] = ci
                mod.ns[ci.name] = ("class", ci)
                self.classes[ci.qualname] = ci
                for f in list(ci.methods.values()) + list(ci.getters.values()) + list(ci.setters.values()):
                    self._register_function(f)
            elif isinstance(st, (ast.FunctionDef, ast.AsyncFunctionDef)):
                fi = FunctionInfo(st, mod, None)
                reg = _dispatch_registration(st)
                if reg is not None:
                    mod.__dict__.setdefault("dispatch_impls", {}).setdefault(reg[0], []).append((reg[1], fi))
                    self._register_function(fi)
                    if fi.name == "_" or fi.name in mod.functions:
                        continue
                mod.functions[fi.name] = fi
                mod.ns[fi.name] = ("func", fi)
                self._register_function(fi)
            elif isinstance(st, ast.Assign):
                for t in st.targets:
                    if isinstance(t, ast.Name):
                        mod.ns[t.id] = ("assign", st.value)
                    elif isinstance(t, (ast.Tuple, ast.List)) and all(isinstance(x, ast.Name) for x in t.elts):
                        # a, b = X(), Y()   /   a, b = some_pair
                        for i_, x in enumerate(t.elts):
                            if isinstance(st.value, (ast.Tuple, ast.List)) and len(st.value.elts) == len(t.elts):
                                mod.ns[x.id] = ("assign", st.value.elts[i_])
                            else:
                                sub = ast.Subscript(value=st.value, slice=ast.Constant(value=i_), ctx=ast.Load())
                                ast.copy_location(sub, st.value)
                                ast.fix_missing_locations(sub)
                                mod.ns[x.id] = ("assign", sub)
            elif isinstance(st, ast.AnnAssign) and isinstance(st.target, ast.Name) and st.value is not None:
                mod.ns[st.target.id] = ("assign", st.value)
            elif isinstance(st, ast.If):
                # ``if TYPE_CHECKING:`` imports are bound too (used for annotations only)
                self._bind_body(mod, st.body)
                self._bind_body(mod, st.orelse)
            elif isinstance(st, ast.Try):
                self._bind_body(mod, st.body)

    def _register_function(self, fi: FunctionInfo):
        self.functions.append(fi)
        # nested functions
        def walk(parent: FunctionInfo, body):
            for st in body:
                for sub in _direct_defs(st):
                    nf = FunctionInfo(sub, parent.module, None, parent=parent)
                    parent.nested[nf.name] = nf
                    # several definitions of one name (one per branch of an if) are different functions
                    parent.__dict__.setdefault("nested_by_node", {})[id(sub)] = nf
                    self.functions.append(nf)
                    walk(nf, sub.body)
        walk(fi, fi.node.body)

    def add_synthetic_module(self, name: str, source: str) -> Module:
        """Adds analysis-only source (e.g. a three-level driver hierarchy used as a probe
        definition); it is parsed like repository code and never executed."""
        mod = Module(name, os.path.join(self.root, "<synthetic>", name.replace(".", "/") + ".py"), source, False)
        mod.synthetic = True
        self.modules[name] = mod
        self._bind_body(mod, mod.tree.body)
        for ci in mod.classes.values():
            for b in ci.base_exprs:
                r = self.resolve_class(ci.module, b)
                if r is not None:
                    ci.bases.append(r)
                    r.subclasses.append(ci)
        for ci in mod.classes.values():
            ci.mro = self._mro_of(ci)
        return mod

    def _mro_of(self, c, stack=()):
        if c.mro:
            return c.mro
        seqs = [list(self._mro_of(b, stack + (c,))) for b in c.bases] + [list(c.bases)]
        res = [c]
        while True:
            seqs = [s for s in seqs if s]
            if not seqs:
                break
            for s in seqs:
                cand = s[0]
                if not any(cand in t[1:] for t in seqs):
                    break
            else:
                raise AnalysisError(f"inconsistent MRO for {c.qualname}")
            res.append(cand)
            for s in seqs:
                if s[0] is cand:
                    del s[0]
        c.mro = res
        return res

    # --------------------------------------------------------------- resolution
    def lookup_in_module(self, modname: str, name: str, _seen=None):
        """Resolve ``name`` in module ``modname`` to an entity tuple or None.

        Entities: ("class", ClassInfo) ("func", FunctionInfo) ("module", Module)
                  ("assign", ast.expr, Module) ("foreign", dotted)
        """
        _seen = _seen or set()
        key = (modname, name)
        if key in _seen:
            return None
        _seen.add(key)
        mod = self.modules.get(modname)
        if mod is None:
            return ("foreign", f"{modname}.{name}")
        b = mod.ns.get(name)
        if b is None:
            for tgt in mod.star_imports:
                r = self.lookup_in_module(tgt, name, _seen)
                if r is not None and r[0] != "foreign":
                    return r
            sub = f"{modname}.{name}"
            if sub in self.modules:
                return ("module", self.modules[sub])
            return None
        if b[0] == "import":
            target, attr = b[1], b[2]
            if attr is None:
                if target in self.modules:
                    return ("module", self.modules[target])
                return ("foreign", target)
            sub = f"{target}.{attr}"
            if target in self.modules:
                r = self.lookup_in_module(target, attr, _seen)
                if r is not None:
                    return r
                if sub in self.modules:
                    return ("module", self.modules[sub])
                return None
            if sub in self.modules:
                return ("module", self.modules[sub])
            return ("foreign", sub)
        if b[0] == "assign":
            return ("assign", b[1], mod)
        return b

    def resolve_expr(self, mod: Module, expr: ast.expr):
        """Resolve a Name / dotted Attribute chain appearing in module ``mod``."""
        parts = _dotted(expr)
        if parts is None:
            return None
        ent = self.lookup_in_module(mod.name, parts[0])
        for p in parts[1:]:
            if ent is None:
                return None
            if ent[0] == "module":
                ent = self.lookup_in_module(ent[1].name, p)
            elif ent[0] == "foreign":
                ent = ("foreign", ent[1] + "." + p)
            elif ent[0] == "class":
                ci: ClassInfo = ent[1]
                m = ci.find_method(p)
                if m is not None:
                    ent = ("func", m)
                else:
                    ca = ci.find_class_attr(p)
                    if ca is None:
                        return None
                    ent = ("assign", ca[0], ca[1].module)
            elif ent[0] == "assign":
                # an alias such as ``RULES = SwitchRule``
                inner = self.resolve_expr(ent[2], ent[1])
                if inner is None:
                    return None
                ent = inner
                # re-apply this part
                if ent[0] == "module":
                    ent = self.lookup_in_module(ent[1].name, p)
                elif ent[0] == "class":
                    ca = ent[1].find_class_attr(p)
                    m = ent[1].find_method(p)
                    ent = ("func", m) if m else (("assign", ca[0], ca[1].module) if ca else None)
                else:
                    return None
            else:
                return None
        return ent

    def resolve_class(self, mod: Module, expr: ast.expr) -> Optional[ClassInfo]:
        ent = self.resolve_expr(mod, expr)
        depth = 0
        while ent is not None and ent[0] == "assign" and depth < 5:
            ent = self.resolve_expr(ent[2], ent[1])
            depth += 1
        if ent is not None and ent[0] == "class":
            return ent[1]
        return None

    def _link_classes(self):
        for ci in self.classes.values():
            for b in ci.base_exprs:
                r = self.resolve_class(ci.module, b)
                if r is not None:
                    ci.bases.append(r)
                else:
                    ci.foreign_bases.append(ast.unparse(b))
        for ci in self.classes.values():
            for b in ci.bases:
                b.subclasses.append(ci)
        cache: Dict[int, List[ClassInfo]] = {}

        def mro(c: ClassInfo, stack=()):
            if id(c) in cache:
                return cache[id(c)]
            if c in stack:
                raise AnalysisError(f"inheritance cycle at {c.qualname}")
            seqs = [list(mro(b, stack + (c,))) for b in c.bases] + [list(c.bases)]
            res = [c]
            while True:
                seqs = [s for s in seqs if s]
                if not seqs:
                    break
                for s in seqs:
                    cand = s[0]
                    if not any(cand in t[1:] for t in seqs):
                        break
                else:
                    raise AnalysisError(f"inconsistent MRO for {c.qualname}")
                res.append(cand)
                for s in seqs:
                    if s[0] is cand:
                        del s[0]
            cache[id(c)] = res
            return res

        for ci in self.classes.values():
            ci.mro = mro(ci)

    # ------------------------------------------------------------------ queries
    def cls(self, qualname: str) -> ClassInfo:
        c = self.classes.get(qualname)
        if c is None:
            raise AnalysisError(f"anchor class {qualname} not found")
        return c

    def find_class(self, modsuffix: str, name: str) -> ClassInfo:
        for q, c in self.classes.items():
            if c.name == name and c.module.name.endswith(modsuffix):
                return c
        raise AnalysisError(f"anchor class {modsuffix}:{name} not found")

    def func(self, qualname: str) -> FunctionInfo:
        for f in self.functions:
            if f.qualname == qualname:
                return f
        raise AnalysisError(f"anchor function {qualname} not found")

    def module(self, name: str) -> Module:
        m = self.modules.get(name)
        if m is None:
            raise AnalysisError(f"anchor module {name} not found")
        return m

    def class_constant(self, ci: ClassInfo, name: str):
        """Evaluate a class-level constant binding to a Python value, a ClassInfo or None."""
        ca = ci.find_class_attr(name)
        if ca is None:
            return None
        expr, owner = ca
        return self.const_value(owner.module, expr, owner)

    def const_value(self, mod: Module, expr: ast.expr, cls: ClassInfo = None, depth=0):
        """Best-effort constant folding of literals, NewType wrappers and aliases.

        Returns a Python constant, a ClassInfo, a tuple of those, or ``UNKNOWN``.
        """
        if depth > 8:
            return UNKNOWN
        if isinstance(expr, ast.Constant):
            return expr.value
        if isinstance(expr, ast.Tuple):
            vals = tuple(self.const_value(mod, e, cls, depth + 1) for e in expr.elts)
            return UNKNOWN if any(v is UNKNOWN for v in vals) else vals
        if isinstance(expr, ast.Call) and len(expr.args) == 1 and not expr.keywords:
            # NewType wrapper around a literal:  StateType("Idle")
            fn = self.resolve_expr(mod, expr.func)
            if fn is not None and fn[0] == "assign":
                v = fn[1]
                if isinstance(v, ast.Call) and ast.unparse(v.func) in ("NewType", "typing.NewType"):
                    return self.const_value(mod, expr.args[0], cls, depth + 1)
            return UNKNOWN
        if isinstance(expr, ast.Attribute) and expr.attr == "__class__" and isinstance(expr.value, ast.Constant) and expr.value.value is None:
            return type(None)
        if isinstance(expr, ast.Name) and expr.id in _BUILTIN_TYPES and mod.ns.get(expr.id) is None:
            return _BUILTIN_TYPES[expr.id]
        if isinstance(expr, (ast.Name, ast.Attribute)):
            if isinstance(expr, ast.Name) and cls is not None:
                ca = cls.find_class_attr(expr.id)
                # class-body names resolve in the class namespace first
                if ca is not None and ca[0] is not expr:
                    return self.const_value(ca[1].module, ca[0], ca[1], depth + 1)
            ent = self.resolve_expr(mod, expr)
            if ent is None:
                return UNKNOWN
            if ent[0] == "class":
                return ent[1]
            if ent[0] == "assign":
                return self.const_value(ent[2], ent[1], None, depth + 1)
            return UNKNOWN
        if isinstance(expr, ast.BinOp) and isinstance(expr.op, ast.Add):
            l = self.const_value(mod, expr.left, cls, depth + 1)
            r = self.const_value(mod, expr.right, cls, depth + 1)
            if isinstance(l, tuple) and isinstance(r, tuple):
                return l + r
            return UNKNOWN
        return UNKNOWN

    def vocabulary(self, ci: ClassInfo) -> Dict[str, object]:
        """Declared members of a constants class (``IDLE = StateType("Idle")``)."""
        out = {}
        for k, e in ci.class_attrs.items():
            v = self.const_value(ci.module, e, ci)
            out[k] = v
        return out

    # --------------------------------------------------------------- signatures
    def init_chain_signature(self, ci: ClassInfo) -> Signature:
        sig = Signature()
        self._sig_from(ci, 0, sig, forwarded_pos=True, first=True)
        return sig

    def _sig_from(self, ci: ClassInfo, start: int, sig: Signature, forwarded_pos: bool, first: bool):
        owner, f = None, None
        idx = start
        for i in range(start, len(ci.mro)):
            c = ci.mro[i]
            if "__init__" in c.methods:
                owner, f, idx = c, c.methods["__init__"], i
                break
        if f is None:
            return  # object.__init__: no parameters
        sig.chain.append(f)
        a = f.node.args
        pos = a.posonlyargs + a.args
        pos = pos[1:]  # self
        ndef = len(a.defaults)
        own_pos = []
        for i, p in enumerate(pos):
            di = i - (len(pos) - ndef)
            d = a.defaults[di] if di >= 0 else None
            own_pos.append(Param(p.arg, d is None, d, p.annotation, "pos", owner))
        own_kw = []
        for p, d in zip(a.kwonlyargs, a.kw_defaults):
            own_kw.append(Param(p.arg, d is None, d, p.annotation, "kwonly", owner))
        if forwarded_pos:
            sig.positional.extend(own_pos)
        else:
            # reachable only by keyword
            for p in own_pos:
                p.kind = "kwonly"
            sig.kwonly.extend(own_pos)
        sig.kwonly.extend(own_kw)
        # does it forward *args / **kwargs to super().__init__ ?
        fwd_args = fwd_kwargs = False
        sup = None
        for n in ast.walk(f.node):
            if (
                isinstance(n, ast.Call)
                and isinstance(n.func, ast.Attribute)
                and n.func.attr == "__init__"
                and isinstance(n.func.value, ast.Call)
                and isinstance(n.func.value.func, ast.Name)
                and n.func.value.func.id == "super"
            ):
                sup = n
                for x in n.args:
                    if isinstance(x, ast.Starred) and a.vararg and ast.unparse(x.value) == a.vararg.arg:
                        fwd_args = True
                for k in n.keywords:
                    if k.arg is None and a.kwarg and ast.unparse(k.value) == a.kwarg.arg:
                        fwd_kwargs = True
        if a.vararg and not fwd_args:
            sig.accepts_extra_positional = True
        if fwd_kwargs or fwd_args:
            before = len(sig.positional)
            self._sig_from(ci, idx + 1, sig, forwarded_pos=fwd_args, first=False)
            if not fwd_kwargs:
                # names of the rest are not reachable by keyword; drop kw-only ones
                pass
        else:
            if a.kwarg is not None:
                sig.swallows_unknown = True


_BUILTIN_TYPES = {"int": int, "float": float, "str": str, "bytes": bytes, "bool": bool, "list": list, "tuple": tuple, "dict": dict}

UNKNOWN = type("UNKNOWN", (), {"__repr__": lambda s: "UNKNOWN"})()


def _direct_defs(st):
    """Function definitions nested directly in statement ``st`` (not inside other defs)."""
    out = []
    if isinstance(st, (ast.FunctionDef, ast.AsyncFunctionDef)):
        return [st]
    for field in ("body", "orelse", "finalbody", "handlers"):
        for sub in getattr(st, field, []) or []:
            if isinstance(sub, ast.ExceptHandler):
                for s2 in sub.body:
                    out.extend(_direct_defs(s2))
            elif isinstance(sub, ast.stmt):
                out.extend(_direct_defs(sub))
    return out


def _dotted(expr) -> Optional[List[str]]:
    parts = []
    while isinstance(expr, ast.Attribute):
        parts.append(expr.attr)
        expr = expr.value
    if isinstance(expr, ast.Name):
        parts.append(expr.id)
        return list(reversed(parts))
    return None


def stmt_text(node) -> str:
    """Normalised one-line text of a statement/expression (for finding keys)."""
    try:
        s = ast.unparse(node)
    except Exception:
        s = repr(node)
    s = " ".join(s.split())
    return s if len(s) <= 160 else s[:157] + "..."


def walk_no_nested(node):
    """ast.walk over a function body that does not descend into nested defs/lambdas/classes."""
    todo = list(ast.iter_child_nodes(node))
    while todo:
        n = todo.pop(0)
        yield n
        if isinstance(n, (ast.FunctionDef, ast.AsyncFunctionDef, ast.ClassDef, ast.Lambda)):
            continue
        todo.extend(ast.iter_child_nodes(n))
