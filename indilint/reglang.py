"""Regular-language reasoning on the regex literals found in the source.

Regexes are parsed with CPython's own ``re._parser`` (so the dialect is exactly the one the
interpreter uses), translated to epsilon-NFAs over a *representative alphabet* (one
character per equivalence class of the Latin-1 characters with respect to every character
set occurring in any of the regexes under comparison), determinised, and compared by a
product search that returns a shortest witness string.

Supported: literals, character classes (ranges, categories \\d \\s \\w, negation), '.', groups,
alternation, greedy/lazy repeats, '^' at the start and '$' at the end of a pattern.
Anything else raises ``Undecided``.
"""
from __future__ import annotations

import re
import re._constants as C
import re._parser as P
from collections import deque
from typing import Dict, FrozenSet, List, Optional, Set, Tuple

from .model import Undecided

UNIVERSE = [chr(i) for i in range(256)]


class CharSet:
    """Predicate over characters, kept extensional over the Latin-1 universe."""

    def __init__(self, chars):
        self.chars = frozenset(chars)

    def __contains__(self, c):
        return c in self.chars


def _category(cat) -> Set[str]:
    name = str(cat)
    if name.endswith("CATEGORY_DIGIT"):
        return {c for c in UNIVERSE if re.match(r"\d", c)}
    if name.endswith("CATEGORY_NOT_DIGIT"):
        return {c for c in UNIVERSE if not re.match(r"\d", c)}
    if name.endswith("CATEGORY_SPACE"):
        return {c for c in UNIVERSE if re.match(r"\s", c)}
    if name.endswith("CATEGORY_NOT_SPACE"):
        return {c for c in UNIVERSE if not re.match(r"\s", c)}
    if name.endswith("CATEGORY_WORD"):
        return {c for c in UNIVERSE if re.match(r"\w", c)}
    if name.endswith("CATEGORY_NOT_WORD"):
        return {c for c in UNIVERSE if not re.match(r"\w", c)}
    raise Undecided(f"regex category {name}")


class NFA:
    def __init__(self):
        self.n = 0
        self.eps: Dict[int, Set[int]] = {}
        self.trans: Dict[int, List[Tuple[CharSet, int]]] = {}
        self.start = self.new()
        self.accept: Set[int] = set()
        self.sets: List[CharSet] = []

    def new(self) -> int:
        s = self.n
        self.n += 1
        self.eps[s] = set()
        self.trans[s] = []
        return s

    def add_eps(self, a, b):
        self.eps[a].add(b)

    def add(self, a, cs: CharSet, b):
        self.trans[a].append((cs, b))
        self.sets.append(cs)


class _EndMarker(Exception):
    pass


def _build(nfa: NFA, items, start: int, at_start: bool, tail_ok: bool) -> Tuple[int, bool]:
    """Builds ``items`` (a parsed sequence) from ``start``; returns (end state, saw_end_anchor)."""
    cur = start
    saw_end = False
    items = list(items)
    for idx, (op, arg) in enumerate(items):
        last = idx == len(items) - 1
        if saw_end:
            raise Undecided("pattern continues after '$'")
        if op is C.LITERAL:
            nxt = nfa.new()
            nfa.add(cur, CharSet({chr(arg)}) if arg < 256 else CharSet(set()), nxt)
            cur = nxt
        elif op is C.NOT_LITERAL:
            nxt = nfa.new()
            nfa.add(cur, CharSet(set(UNIVERSE) - {chr(arg)}), nxt)
            cur = nxt
        elif op is C.ANY:
            nxt = nfa.new()
            nfa.add(cur, CharSet(set(UNIVERSE) - {"\n"}), nxt)
            cur = nxt
        elif op is C.IN:
            chars: Set[str] = set()
            negate = False
            for o2, a2 in arg:
                if o2 is C.NEGATE:
                    negate = True
                elif o2 is C.LITERAL:
                    if a2 < 256:
                        chars.add(chr(a2))
                elif o2 is C.RANGE:
                    chars.update(chr(i) for i in range(a2[0], min(a2[1], 255) + 1))
                elif o2 is C.CATEGORY:
                    chars.update(_category(a2))
                else:
                    raise Undecided(f"regex set item {o2}")
            if negate:
                chars = set(UNIVERSE) - chars
            nxt = nfa.new()
            nfa.add(cur, CharSet(chars), nxt)
            cur = nxt
        elif op is C.SUBPATTERN:
            sub = arg[3]
            cur, se = _build(nfa, sub, cur, at_start and idx == 0, tail_ok and last)
            saw_end = saw_end or se
        elif op is C.BRANCH:
            end = nfa.new()
            ses = []
            for alt in arg[1]:
                s0 = nfa.new()
                nfa.add_eps(cur, s0)
                e, se = _build(nfa, alt, s0, at_start and idx == 0, tail_ok and last)
                ses.append(se)
                nfa.add_eps(e, end)
            if any(ses) and not all(ses):
                raise Undecided("'$' in some alternatives only")
            saw_end = saw_end or all(ses) and bool(ses)
            cur = end
        elif op in (C.MAX_REPEAT, C.MIN_REPEAT, getattr(C, "POSSESSIVE_REPEAT", None)):
            lo, hi, sub = arg
            for _ in range(lo):
                cur, se = _build(nfa, sub, cur, False, False)
                if se:
                    raise Undecided("'$' inside a repeat")
            if hi is C.MAXREPEAT:
                loop = nfa.new()
                nfa.add_eps(cur, loop)
                e, se = _build(nfa, sub, loop, False, False)
                nfa.add_eps(e, loop)
                cur = loop
            else:
                end = nfa.new()
                nfa.add_eps(cur, end)
                for _ in range(hi - lo):
                    cur, se = _build(nfa, sub, cur, False, False)
                    nfa.add_eps(cur, end)
                cur = end
        elif op is C.AT:
            nm = str(arg)
            if nm.endswith("AT_BEGINNING") or nm.endswith("AT_BEGINNING_STRING"):
                if not (at_start and idx == 0):
                    raise Undecided("'^' not at the start")
            elif nm.endswith("AT_END"):
                if not tail_ok:
                    raise Undecided("'$' not at the end of the pattern")
                saw_end = True
            elif nm.endswith("AT_END_STRING"):
                if not tail_ok:
                    raise Undecided("'\\Z' not at the end of the pattern")
                saw_end = "strict"
            else:
                raise Undecided(f"regex anchor {nm}")
        else:
            raise Undecided(f"regex construct {op}")
    return cur, saw_end


def nfa_of(pattern: str, mode: str = "match") -> NFA:
    """mode: 'match' (re.match: anchored at the start, free tail unless '$'),
    'fullmatch' (whole string)."""
    try:
        parsed = P.parse(pattern)
    except re.error as e:
        raise Undecided(f"regex does not parse: {e}")
    nfa = NFA()
    end, saw_end = _build(nfa, parsed, nfa.start, True, True)
    if mode == "fullmatch" or saw_end == "strict":
        nfa.accept.add(end)
    elif saw_end:
        # '$': end of string, or before a final newline
        nfa.accept.add(end)
        nl = nfa.new()
        nfa.add(end, CharSet({"\n"}), nl)
        nfa.accept.add(nl)
    else:
        tail = nfa.new()
        nfa.add_eps(end, tail)
        nfa.add(tail, CharSet(set(UNIVERSE)), tail)
        nfa.accept.add(tail)
    return nfa


def union_nfa(nfas: List[NFA]) -> NFA:
    u = NFA()
    for a in nfas:
        off = u.n
        for _ in range(a.n):
            u.new()
        for s, tgts in a.eps.items():
            for t in tgts:
                u.add_eps(s + off, t + off)
        for s, trs in a.trans.items():
            for cs, t in trs:
                u.add(s + off, cs, t + off)
        u.add_eps(u.start, a.start + off)
        u.accept.update(x + off for x in a.accept)
    return u


def representatives(nfas: List[NFA]) -> List[str]:
    sets = []
    seen = set()
    for a in nfas:
        for cs in a.sets:
            if cs.chars not in seen:
                seen.add(cs.chars)
                sets.append(cs)
    groups: Dict[tuple, str] = {}
    # prefer printable, well-known representatives
    order = sorted(UNIVERSE, key=lambda c: (not (c.isalnum() or c in " .:;+-"), ord(c)))
    for c in order:
        sig = tuple(c in cs for cs in sets)
        groups.setdefault(sig, c)
    return sorted(groups.values())


class DFA:
    def __init__(self, nfa: NFA, alphabet: List[str]):
        self.alphabet = alphabet
        self.trans: List[Dict[str, int]] = []
        self.accepting: List[bool] = []
        closure_cache: Dict[int, FrozenSet[int]] = {}

        def closure(states) -> FrozenSet[int]:
            out = set(states)
            todo = list(states)
            while todo:
                s = todo.pop()
                for t in nfa.eps[s]:
                    if t not in out:
                        out.add(t)
                        todo.append(t)
            return frozenset(out)

        start = closure({nfa.start})
        index = {start: 0}
        self.trans.append({})
        self.accepting.append(bool(start & nfa.accept))
        todo = deque([start])
        while todo:
            S = todo.popleft()
            i = index[S]
            for c in alphabet:
                T = set()
                for s in S:
                    for cs, t in nfa.trans[s]:
                        if c in cs:
                            T.add(t)
                Tc = closure(T)
                if Tc not in index:
                    index[Tc] = len(self.trans)
                    self.trans.append({})
                    self.accepting.append(bool(Tc & nfa.accept))
                    todo.append(Tc)
                    if len(self.trans) > 20000:
                        raise Undecided("DFA too large")
                self.trans[i][c] = index[Tc]

    @property
    def size(self):
        return len(self.trans)

    def accepts(self, s: str) -> bool:
        q = 0
        for c in s:
            q = self.trans[q][c]
        return self.accepting[q]


class Lang:
    """A regular language given by a list of alternative patterns (union)."""

    def __init__(self, patterns: List[str], mode: str = "match", name: str = ""):
        self.patterns = list(patterns)
        self.mode = mode
        self.name = name
        self.nfa = union_nfa([nfa_of(p, mode) for p in self.patterns]) if self.patterns else NFA()


def included(a: Lang, b: Lang, restrict: Optional[Lang] = None) -> Tuple[bool, Optional[str], dict]:
    """Is L(a) [intersected with L(restrict)] a subset of L(b)?  Returns (ok, shortest witness, stats)."""
    nfas = [a.nfa, b.nfa] + ([restrict.nfa] if restrict else [])
    alpha = representatives(nfas)
    da, db = DFA(a.nfa, alpha), DFA(b.nfa, alpha)
    dr = DFA(restrict.nfa, alpha) if restrict else None
    start = (0, 0, 0)
    seen = {start: None}
    todo = deque([start])
    stats = {"alphabet": len(alpha), "dfa_a": da.size, "dfa_b": db.size, "product_states": 0}
    while todo:
        st = todo.popleft()
        qa, qb, qr = st
        if da.accepting[qa] and not db.accepting[qb] and (dr is None or dr.accepting[qr]):
            # reconstruct
            w = []
            cur = st
            while seen[cur] is not None:
                prev, c = seen[cur]
                w.append(c)
                cur = prev
            stats["product_states"] = len(seen)
            return False, "".join(reversed(w)), stats
        for c in alpha:
            nx = (da.trans[qa][c], db.trans[qb][c], dr.trans[qr][c] if dr else 0)
            if nx not in seen:
                seen[nx] = (st, c)
                todo.append(nx)
    stats["product_states"] = len(seen)
    return True, None, stats


def nonempty(a: Lang) -> Optional[str]:
    alpha = representatives([a.nfa])
    d = DFA(a.nfa, alpha)
    seen = {0: None}
    todo = deque([0])
    while todo:
        q = todo.popleft()
        if d.accepting[q]:
            w = []
            cur = q
            while seen[cur] is not None:
                prev, c = seen[cur]
                w.append(c)
                cur = prev
            return "".join(reversed(w))
        for c in alpha:
            nx = d.trans[q][c]
            if nx not in seen:
                seen[nx] = (q, c)
                todo.append(nx)
    return None


STRIPPED = r"(\S(.|\n)*\S|\S)?"  # text as XML parsing hands it over: no leading/trailing whitespace


def stripped_lang() -> Lang:
    return Lang([STRIPPED], mode="fullmatch", name="stripped text")


# --------------------------------------------------------------------------- boolean combinations
def find_witness(langs: List[Lang], predicate) -> Tuple[Optional[str], dict]:
    """Shortest string whose acceptance vector (one bool per language) satisfies ``predicate``.
    Returns (witness or None, stats).  Used for: L(G) - L(Accepted) where Accepted is a boolean
    combination of atomic regular constraints."""
    alpha = representatives([l.nfa for l in langs])
    dfas = [DFA(l.nfa, alpha) for l in langs]
    start = tuple(0 for _ in dfas)
    seen = {start: None}
    todo = deque([start])
    while todo:
        st = todo.popleft()
        acc = tuple(d.accepting[q] for d, q in zip(dfas, st))
        if predicate(acc):
            w = []
            cur = st
            while seen[cur] is not None:
                prev, c = seen[cur]
                w.append(c)
                cur = prev
            return "".join(reversed(w)), {"alphabet": len(alpha), "dfa_sizes": [d.size for d in dfas], "product_states": len(seen)}
        for c in alpha:
            nx = tuple(d.trans[q][c] for d, q in zip(dfas, st))
            if nx not in seen:
                seen[nx] = (st, c)
                todo.append(nx)
                if len(seen) > 500000:
                    raise Undecided("product automaton too large")
    return None, {"alphabet": len(alpha), "dfa_sizes": [d.size for d in dfas], "product_states": len(seen)}


def group_lang(pattern: str, index: int) -> Lang:
    """Language of capture group ``index`` of ``pattern`` (the sub-pattern taken on its own)."""
    parsed = P.parse(pattern)

    def find(items):
        for op, arg in items:
            if op is C.SUBPATTERN:
                if arg[0] == index:
                    return arg[3]
                r = find(arg[3])
                if r is not None:
                    return r
            elif op is C.BRANCH:
                for alt in arg[1]:
                    r = find(alt)
                    if r is not None:
                        return r
            elif op in (C.MAX_REPEAT, C.MIN_REPEAT):
                r = find(arg[2])
                if r is not None:
                    return r
        return None

    sub = find(parsed)
    if sub is None:
        raise Undecided(f"group {index} not found in {pattern!r}")
    lang = Lang([], mode="fullmatch", name=f"group {index} of {pattern}")
    nfa = NFA()
    end, _ = _build(nfa, sub, nfa.start, False, False)
    nfa.accept.add(end)
    lang.nfa = nfa
    lang.patterns = [f"<group {index} of {pattern}>"]
    return lang


# Python's own numeric literal syntaxes as accepted by int()/float() on str (finite values only)
PY_INT = r"[ \t\n\r\f\v]*[+-]?\d+(_\d+)*[ \t\n\r\f\v]*"
PY_FLOAT = r"[ \t\n\r\f\v]*[+-]?(\d+(_\d+)*\.?(\d+(_\d+)*)?|\.\d+(_\d+)*)([eE][+-]?\d+(_\d+)*)?[ \t\n\r\f\v]*"


# ------------------------------------------------------------------ exponential backtracking (ambiguous iteration)
def _iteration_ambiguity(body_items) -> Optional[str]:
    """For an unbounded repeat (B)+ : is there a word with two different factorisations into B-words?  If so w^n has
    2^n factorisations and a backtracking matcher tries them all when what follows fails.  Decided exactly on the DFA of
    B: two runs of 'continue the current B-word' / 'start a new B-word' choices that differ somewhere and both end at a
    word boundary.  -> a shortest ambiguous word, or None."""
    nfa = NFA()
    end, se = _build(nfa, body_items, nfa.start, False, False)
    nfa.accept.add(end)
    alpha = representatives([nfa])
    d = DFA(nfa, alpha)
    dead = {q for q in range(d.size) if not _can_accept(d, q)}

    def moves(q, c):
        out = [("cont", d.trans[q][c])]
        if d.accepting[q] and q != 0:
            out.append(("new", d.trans[0][c]))
        return [(k, t) for k, t in out if t not in dead]

    start = (0, 0, False)
    seen = {start: None}
    todo = deque([start])
    while todo:
        st = todo.popleft()
        p, q, div = st
        if div and d.accepting[p] and d.accepting[q]:
            w = []
            cur = st
            while seen[cur] is not None:
                cur, c = seen[cur]
                w.append(c)
            return "".join(reversed(w))
        for c in alpha:
            for k1, t1 in moves(p, c):
                for k2, t2 in moves(q, c):
                    nx = (t1, t2, div or k1 != k2)
                    if nx not in seen:
                        seen[nx] = (st, c)
                        todo.append(nx)
                        if len(seen) > 200000:
                            raise Undecided("ambiguity product too large")
    return None


def _can_accept(d: "DFA", q0: int) -> bool:
    seen = {q0}
    todo = [q0]
    while todo:
        q = todo.pop()
        if d.accepting[q]:
            return True
        for t in d.trans[q].values():
            if t not in seen:
                seen.add(t)
                todo.append(t)
    return False


def exponential_repeats(pattern: str) -> List[Tuple[str, str]]:
    """Unbounded repeats of the pattern whose iteration is ambiguous and that are followed by something that can fail
    (anything at all, '$' included): [(description of the repeat, ambiguous word)].  Bounded repeats (max <= 8) are
    ignored; larger bounded repeats are treated as unbounded."""
    try:
        parsed = P.parse(pattern)
    except re.error as e:
        raise Undecided(f"regex does not parse: {e}")
    out: List[Tuple[str, str]] = []

    def walk(items, followed: bool):
        items = list(items)
        for idx, (op, arg) in enumerate(items):
            fol = followed or idx < len(items) - 1
            if op is C.SUBPATTERN:
                walk(arg[3], fol)
            elif op is C.BRANCH:
                for alt in arg[1]:
                    walk(alt, fol)
            elif op in (C.MAX_REPEAT, C.MIN_REPEAT):
                lo, hi, sub = arg
                unbounded = hi is C.MAXREPEAT or hi > 8
                walk(sub, fol or unbounded)
                if unbounded and fol and _has_choice(sub):
                    w = _iteration_ambiguity(sub)
                    if w is not None:
                        out.append((f"repeat #{len(out) + 1} ({'{' + str(lo) + ',}'})", w))

    walk(parsed, False)
    return out


def _has_choice(items) -> bool:
    """Only a body that itself contains a repeat, an option or an alternation can be iterated ambiguously."""
    for op, arg in items:
        if op in (C.MAX_REPEAT, C.MIN_REPEAT, C.BRANCH):
            return True
        if op is C.SUBPATTERN and _has_choice(arg[3]):
            return True
    return False
