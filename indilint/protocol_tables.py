"""Oracle tables transcribed from the INDI 1.7 white paper and the property statements.

Each table is compared with what the *source* says on every run; none is a frozen copy of
the source.  One line of provenance per table.
"""

KINDS = ("Text", "Number", "Switch", "Light", "BLOB")
WRITABLE_KINDS = ("Text", "Number", "Switch", "BLOB")  # INDI 1.7: lights are read-only, no newLightVector

# A1 direction (INDI 1.7 "Commands from Device to Client" / "from Client to Device"; property C04)
DIRECTION = {"getProperties": (True, True)}  # tag -> (from_client, from_device)
for _k in WRITABLE_KINDS:
    DIRECTION[f"new{_k}Vector"] = (True, False)
for _k in KINDS:
    DIRECTION[f"def{_k}Vector"] = (False, True)
    DIRECTION[f"set{_k}Vector"] = (False, True)
DIRECTION.update({
    "enableBLOB": (True, False),
    "pingReply": (True, False),
    "delProperty": (False, True),
    "message": (False, True),
    "pingRequest": (False, True),
})
# classes the protocol does not know as top-level elements: must never be client-originated
ADVISORY_TOPLEVEL = {"oneLight"}

# A2 child kinds (INDI 1.7 DTD)
CHILD_KIND = {}
for _k in KINDS:
    CHILD_KIND[f"def{_k}Vector"] = f"def{_k}"
    CHILD_KIND[f"set{_k}Vector"] = f"one{_k}"
for _k in WRITABLE_KINDS:
    CHILD_KIND[f"new{_k}Vector"] = f"one{_k}"

# A3 required attributes (INDI 1.7 DTD, restricted to what the library models). The library may
# require more, never less.
REQUIRED = {
    "getProperties": ["version"],
    "enableBLOB": ["device", "value"],
    "delProperty": ["device"],
    "pingRequest": ["uid"],
    "pingReply": ["uid"],
    "message": [],
}
for _k in KINDS:
    REQUIRED[f"def{_k}Vector"] = ["device", "name", "state"] + ([] if _k == "Light" else ["perm"]) + (["rule"] if _k == "Switch" else [])
    REQUIRED[f"set{_k}Vector"] = ["device", "name"]
for _k in WRITABLE_KINDS:
    REQUIRED[f"new{_k}Vector"] = ["device", "name"]
REQUIRED_PART = {
    "defText": ["name"], "defSwitch": ["name"], "defLight": ["name"], "defBLOB": ["name"],
    "defNumber": ["name", "format", "min", "max", "step"],
    "oneText": ["name"], "oneSwitch": ["name"], "oneLight": ["name"], "oneNumber": ["name"],
    "oneBLOB": ["name", "size", "format"],
}

# A4 which constrained field uses which vocabulary class of indi/message/const.py (property C13)
FIELD_VOCAB = {
    # (tag-prefix or tag, attribute) -> vocabulary class name
    ("def*Vector", "state"): "State",
    ("set*Vector", "state"): "State",
    ("def*Vector", "perm"): "Permissions",   # all but lights
    ("defSwitchVector", "rule"): "SwitchRule",
    ("enableBLOB", "value"): "BLOBEnable",
    ("defSwitch", "value"): "SwitchState",
    ("oneSwitch", "value"): "SwitchState",
    ("defLight", "value"): "State",
    ("oneLight", "value"): "State",
}
NUMBER_FIELDS = [("defNumber", "value"), ("oneNumber", "value")]
VOCAB_MEMBERS = {  # INDI 1.7 DTD enumerations; compared with const.py on every run
    "State": {"Idle", "Ok", "Busy", "Alert"},
    "Permissions": {"ro", "wo", "rw"},
    "SwitchRule": {"OneOfMany", "AtMostOne", "AnyOfMany"},
    "SwitchState": {"On", "Off"},
    "BLOBEnable": {"Never", "Also", "Only"},
}

# A5 delivery policy (property C05): policy -> (deliver non-BLOB, deliver BLOB)
DELIVERY = {None: (True, False), "Never": (True, False), "Also": (True, True), "Only": (False, True)}

# A6 switch rule effects (property C09): (rule, written) -> (others cleared, result)
#   result: "On", "Off", "On-iff-no-other-On"
SWITCH_EFFECT = {
    ("OneOfMany", "On"): (True, "On"),
    ("AtMostOne", "On"): (True, "On"),
    ("AnyOfMany", "On"): (False, "On"),
    ("OneOfMany", "Off"): (False, "On-iff-no-other-On"),
    ("AtMostOne", "Off"): (False, "Off"),
    ("AnyOfMany", "Off"): (False, "Off"),
}

# A7 number grammars (property C10 / C13): regexes over the engine's own regex dialect (reglang)
NUM_REQUIRED_GRAMMAR = [  # what INDI allows a peer to send: integer, decimal, sexagesimal with : ; blank
    r"-?\d+",
    r"-?\d+\.\d+",
    r"-?\d+[:; ]\d\d(\.\d+)?",
    r"-?\d+[:; ]\d\d[:; ]\d\d(\.\d+)?",
]
NUM_PERMISSIVE_REFERENCE = r"[+-]?(\d+(\.\d*)?|\.\d+)([:; ]\d+(\.\d*)?){0,2}"
PRINTF_FORMAT_GRAMMAR = r"%[-+ 0#]*\d*(\.\d+)?[df]"
SEXAGESIMAL_FRACTIONS = (3, 5, 6, 8, 9)
