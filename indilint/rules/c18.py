"""C18 - every way a connection can end leaves the router clean and the others served."""
from __future__ import annotations

import ast

from ..absint import Cls, Const, Fn, Foreign, Interp, Obj, Term, explore, is_call, run_method, show, subterms
from ..model import Undecided, walk_no_nested
from .common import receive_loops
from .routermodel import World, router_cls, run_router

EXPLANATION = (
    "Acquire/release pairing on all exits, by path enumeration with exceptional edges. C18.REG: each server-side connection handler's "
    "constructor registers itself with the router; handlers are constructed only by the transport's connection owner. C18.PAIR: the "
    "function that owns a connection (TCP: the per-connection coroutine returned by ConnectionHandler.handler; TTY: ConnectionHandler.handle, "
    "reached from TTY.start) is enumerated with the awaited receive loop made to raise: on every path - orderly end of the loop or an "
    "exception out of it - close() is called on that connection and the function returns normally; the TCP owner also removes the "
    "connection from the class-wide list. C18.CLOSE: every close() unregisters the connection from the router on every path (TCP also "
    "closes the writer). C18.UNREG: unregister_client is abstractly evaluated: removes the client from the client list and the policy "
    "table, is idempotent (close may run twice) and touches nobody else; register_client starts a reconnecting peer from an empty policy "
    "map (shared with C05.FORGET/RESET). C18.ISOLATE: the router-facing delivery entry of each server transport is a plain function "
    "without await or blocking I/O and cannot raise into the router's loop over the remaining clients other than through message "
    "serialisation; the receive loop ends only on an empty read (C02.LOOP)."
)
NOT_DECIDED = "enumeration of fault kinds x step index; writes still queued for a closed writer."
ASSUMPTIONS = ["asyncio delivers connection errors as exceptions out of the awaited read", "a bare 'except:' / 'except Exception' / finally covers every exception the loop can raise (CancelledError is a BaseException: covered by bare except and finally only)"]
TRUSTED = ["CPython ast", "indilint abstract interpreter"]


def server_handlers(p):
    out = []
    for modname in ("indi.transport.server.tcp", "indi.transport.server.tty"):
        m = p.module(modname)
        for ci in m.classes.values():
            if any(b.qualname == "indi.routing.client.Client" for b in ci.mro):
                out.append(ci)
    return out


def rule_reg(ctx):
    p = ctx.p
    hs = server_handlers(p)
    ctx.floor("C18.REG", "server connection handler classes", len(hs), 2)
    for ci in hs:
        init = ci.methods.get("__init__")
        if init is None:
            ctx.violated("C18.REG", ci.short, "no constructor: the connection is never registered", ci=ci, text="no-init")
            continue
        paths = run_method(p, init)
        ok = True
        for pa in paths:
            reg = pa.calls(method="register_client")
            router_truthy = not any((not e.data["truth"]) and "router" in show(e.data["cond"]) for e in pa.assumes())
            if pa.outcome != "return":
                ok = False
            if router_truthy and (len(reg) != 1 or not reg[0].data["args"] or show(reg[0].data["args"][0]) != "self"):
                ok = False
        ctx.check(ok, "C18.REG", init.short, "register_client(self) exactly once when a router is given", "the constructor does not register the connection with the router exactly once", fi=init, text="register")
    # who may construct
    for ci in hs:
        sites = []
        for fi in p.functions:
            for n in walk_no_nested(fi.node):
                if isinstance(n, ast.Call):
                    tgt = p.resolve_class(fi.module, n.func) if isinstance(n.func, (ast.Name, ast.Attribute)) else None
                    if tgt is ci or (isinstance(n.func, ast.Name) and n.func.id == "cls" and ((fi.parent is not None and fi.parent.cls is ci) or fi.cls is ci)):
                        sites.append(fi)
        ok = bool(sites) and all(s.module is ci.module for s in sites)
        ctx.check(ok, "C18.REG", f"{ci.short} constructors", f"constructed only in {sorted({s.short for s in sites})}", f"{ci.name} is constructed in {sorted({s.short for s in sites if s.module is not ci.module})}: a registration without an owner that closes it", ci=ci, text="constructors")


_LOOP_NAMES = {"wait_for_messages"}


def _loop_names(p):
    """Names of the methods that run a server connection's receive loop (role query, see common.receive_loops)."""
    names = {L[0].name for L in receive_loops(p) if L.owner is not None and L.owner.module.name.startswith("indi.transport.server")}
    _LOOP_NAMES.clear()
    _LOOP_NAMES.update(names or {"wait_for_messages"})
    return _LOOP_NAMES


def _raise_on_wait(ev):
    if ev.kind == "call" and any(is_call(ev.data["term"], method=n) for n in _LOOP_NAMES):
        return True  # unknown exception kind (ConnectionResetError, CancelledError, ...)
    if ev.kind == "call" and ev.data.get("awaited") and ev.data.get("foreign"):
        # anything awaited on the connection's streams (drain, wait_closed, ...) fails with the connection error once the
        # peer is gone - exactly on the connections that are being cleaned up
        return True
    return None


def rule_pair(ctx):
    p = ctx.p
    # TCP: handler_func closure
    tcp = p.cls("indi.transport.server.tcp.ConnectionHandler")
    h = tcp.find_method("handler")
    if h is None:
        raise Undecided("TCP ConnectionHandler.handler not found")
    hf = h

    def run(it: Interp):
        # handler(router) hands asyncio the per-connection coroutine function: a closure, or a partial of a method
        fn = it.run_function(Fn(h, Cls(tcp)), [Term("param", "router")], {})
        if isinstance(fn, Fn):
            return it.run_function(fn, [Term("param", "reader"), Term("param", "writer")], {})
        if isinstance(fn, Term) and fn.op == "partial" and isinstance(fn.args[0], Fn):
            return it.run_function(fn.args[0], list(fn.args[1]) + [Term("param", "reader"), Term("param", "writer")], {k: v for k, v in fn.args[2]})
        raise Undecided("handler() does not return a coroutine function of the repository")

    loopn = _loop_names(p)

    def own_step(fi, node):
        # what the owner delegates to the connection object itself (a session method of the handler or of a base class
        # it shares with the other transport) is part of the owner; the receive loop and close() stay observable
        return fi.cls is not None and fi.cls in tcp.mro and fi.cls.module.name.startswith("indi.transport") and fi.name not in loopn and fi.name not in ("close", "__init__")

    paths = explore(p, run, {"call_may_raise": _raise_on_wait, "inline": own_step})
    ctx.paths_enumerated += len(paths)
    bad = False
    raised_paths = 0
    for pa in paths:
        news = [e for e in pa.events if e.kind == "call" and e.data.get("new") or (e.kind == "call" and show(e.data["callee"]) == "ConnectionHandler" )]
        conn = None
        for e in pa.events:
            if e.kind == "call" and isinstance(e.data["callee"], Cls) and e.data["callee"].ci is tcp:
                conn = e.data["term"]
        implicit = [e for e in pa.events if e.kind == "raise" and e.data.get("implicit")]
        if implicit:
            raised_paths += 1
        closes = [e for e in pa.calls(method="close") if isinstance(e.data["callee"], Fn) and e.data["callee"].self_val is conn]
        waits = [e for n_ in loopn for e in pa.calls(method=n_)]
        which = "the receive loop raises" if implicit else "the receive loop ends"
        if conn is None:
            ctx.undecided("C18.PAIR", hf.short, "connection construction not found", fi=hf)
            bad = True
            continue
        if pa.outcome != "return":
            ctx.violated("C18.PAIR", hf.short, f"when {which}, the exception propagates out of the connection owner before close()", fi=hf, text=f"escape:{'raise' if implicit else 'end'}")
            bad = True
            continue
        if len(closes) < 1 or (waits and closes[0].idx < waits[0].idx):
            ctx.violated("C18.PAIR", hf.short, f"when {which}, the connection is not closed (router keeps delivering to it, its BLOB settings stay)", fi=hf, text=f"no-close:{'raise' if implicit else 'end'}")
            bad = True
        rm = [e for e in pa.calls(method="remove") if e.data["args"] and e.data["args"][0] is conn]
        ap = [e for e in pa.calls(method="append") if e.data["args"] and e.data["args"][0] is conn]
        if ap and len(rm) != 1:
            ctx.violated("C18.PAIR", hf.short, f"when {which}, the connection stays in the class-wide connection list", fi=hf, text=f"list:{'raise' if implicit else 'end'}")
            bad = True
    if raised_paths == 0:
        ctx.undecided("C18.PAIR", hf.short, "no exceptional edge out of the receive loop explored", fi=hf)
    elif not bad:
        ctx.holds("C18.PAIR", hf.short, f"{len(paths)} paths ({raised_paths} with an exception out of the receive loop): close() and list removal on all of them", fi=hf)
    # TTY: handle
    tty = p.cls("indi.transport.server.tty.ConnectionHandler")
    hd = tty.find_method("handle")
    if hd is None:
        raise Undecided("TTY ConnectionHandler.handle not found")
    paths = run_method(p, hd, self_val=Term("param", "self", hint=tty), opts={"call_may_raise": _raise_on_wait})
    ctx.paths_enumerated += len(paths)
    bad = False
    rp = 0
    for pa in paths:
        implicit = [e for e in pa.events if e.kind == "raise" and e.data.get("implicit")]
        rp += 1 if implicit else 0
        closes = [e for e in pa.calls(method="close") if isinstance(e.data["callee"], Fn) and show(e.data["callee"].self_val) == "self"]
        which = "the receive loop raises" if implicit else "the receive loop ends"
        if pa.outcome != "return" or len(closes) < 1:
            ctx.violated("C18.PAIR", hd.short, f"when {which}, the TTY connection is not closed / the exception escapes", fi=hd, text=f"tty:{'raise' if implicit else 'end'}")
            bad = True
    if rp == 0:
        ctx.undecided("C18.PAIR", hd.short, "no exceptional edge explored", fi=hd)
    elif not bad:
        ctx.holds("C18.PAIR", hd.short, f"{len(paths)} paths: close() on all of them", fi=hd)
    st = p.cls("indi.transport.server.tty.TTY").find_method("start")
    paths = run_method(p, st)
    ok = all(any(e.kind == "await" and is_call(e.data["value"], method="handle") or (e.kind == "call" and is_call(e.data["term"], method="handle") and e.data.get("awaited")) for e in pa.events) for pa in paths)
    ctx.check(ok, "C18.PAIR", st.short, "the constructed handler's handle() is awaited", "TTY.start constructs a connection handler without awaiting its handle() (nobody closes it)", fi=st, text="tty-start")
    # TCP.client_connected awaits the per-connection coroutine
    cc = p.cls("indi.transport.server.tcp.TCP").find_method("client_connected")
    paths = run_method(p, cc)
    ok = all(any(e.kind == "await" for e in pa.events) and any(is_call(e.data["term"], method="handler") for e in pa.events if e.kind == "call") for pa in paths)
    ctx.check(ok, "C18.PAIR", cc.short, "per-connection coroutine obtained from ConnectionHandler.handler and awaited", "TCP.client_connected does not await the per-connection owner", fi=cc, text="client-connected")


def rule_close(ctx):
    p = ctx.p
    for ci in server_handlers(p):
        f = ci.methods.get("close")
        if f is None:
            ctx.violated("C18.CLOSE", ci.short, "no close(): the connection can never be unregistered", ci=ci, text="no-close")
            continue
        paths = run_method(p, f)
        ok = True
        for pa in paths:
            un = pa.calls(method="unregister_client")
            router_truthy = not any((not e.data["truth"]) and "router" in show(e.data["cond"]) for e in pa.assumes())
            if pa.outcome != "return":
                ok = False
            if router_truthy and (len(un) != 1 or not un[0].data["args"] or show(un[0].data["args"][0]) != "self"):
                ok = False
            conds = [e for e in pa.assumes() if "router" not in show(e.data["cond"])]
            if conds:
                ok = False
        ctx.check(ok, "C18.CLOSE", f.short, "unregister_client(self) on every path", "close() does not unregister the connection from the router on every path", fi=f, text="unregister")
        # whatever close() makes the unregistration depend on must be fixed at construction: a method that overwrites it
        # (e.g. 'detaching' a failing peer by clearing the router reference) leaves the connection registered for ever
        guards = set()
        for pa in paths:
            for e in pa.assumes():
                for t in subterms(e.data["cond"]):
                    if isinstance(t, Term) and t.op == "attr" and show(t.args[0]) == "self":
                        guards.add(t.args[1])
        writers = []
        for k in ci.mro:
            if not k.module.name.startswith("indi."):
                continue
            for m_ in list(k.methods.values()) + list(k.setters.values()):
                if m_.name == "__init__":
                    continue
                for n_ in ast.walk(m_.node):
                    if isinstance(n_, ast.Attribute) and isinstance(n_.ctx, (ast.Store, ast.Del)) and n_.attr in guards and isinstance(n_.value, ast.Name) and n_.value.id == "self":
                        writers.append((m_, n_.attr))
        ctx.check(not writers, "C18.CLOSE", f.short + " guard", f"close() depends on {sorted(guards) or 'nothing'}, assigned only at construction", f"close() unregisters only while {sorted(guards)} hold(s), but {[(m_.short, a_) for m_, a_ in writers][:2]} overwrite(s) it after construction: once that ran, the ended connection stays registered and keeps its BLOB settings", fi=writers[0][0] if writers else f, text="guard-overwritten")
        if "tcp" in ci.module.name:
            okw = all(any(is_call(e.data["term"], method="close") and "writer" in show(e.data["term"]) for e in pa.events if e.kind == "call") for pa in paths)
            ctx.check(okw, "C18.CLOSE", f.short + " writer", "the stream writer is closed", "close() does not close the stream writer", fi=f, text="writer")


def rule_unreg(ctx):
    p = ctx.p
    f = router_cls(p).find_method("unregister_client")
    bad = False
    # close() can run twice (handler_func and TCP.start's finally): second call must be a no-op
    for who in (0, 1):
        def wf():
            return World(p, 3, 1, {0: {"A": "Also"}, 1: {"B": "Only"}, 2: {}}, registered=[0, 1, 2])

        _, p1 = run_router(p, wf, "unregister_client", lambda w: ([w.clients[who]], {}))
        for pa in p1:
            if pa.outcome != "return":
                ctx.violated("C18.UNREG", f.short, "unregister_client raises for a registered client", fi=f, text="raise-registered")
                bad = True
                continue
            w = pa.world
            rest = [show(x) for x in w.table("clients").items]
            if f"client{who}" in rest or f"client{who}" in w.policy_snapshot() or len(rest) != 2 or len(w.policy_snapshot()) != 2:
                ctx.violated("C18.UNREG", f.short, f"after unregistering client{who}: clients={rest}, policies={sorted(w.policy_snapshot())} - the router still knows the connection (or forgot another one)", fi=f, text="not-forgotten")
                bad = True
    def wf2():
        return World(p, 2, 1, {0: {"A": "Also"}}, registered=[0])

    _, p2 = run_router(p, wf2, "unregister_client", lambda w: ([w.clients[1]], {}))
    for pa in p2:
        if pa.outcome != "return" or [show(x) for x in pa.world.table("clients").items] != ["client0"] or pa.world.policy_snapshot() != {"client0": {"'A'": "'Also'"}}:
            ctx.violated("C18.UNREG", f.short, "unregistering a client that is not (or no longer) registered raises or disturbs the others: close() may run twice", fi=f, text="not-idempotent")
            bad = True
    if not bad:
        ctx.holds("C18.UNREG", f.short, "client and its BLOB settings forgotten; no-op for an unknown client; others untouched", fi=f)
    g = router_cls(p).find_method("register_client")

    def wf3():
        w = World(p, 2, 1, {0: {"A": "Also"}}, registered=[0])
        return w

    _, p3 = run_router(p, wf3, "register_client", lambda w: ([w.clients[1]], {}))
    ok = all(pa.outcome == "return" and pa.world.policy_snapshot().get("client1") == {} and [show(x) for x in pa.world.table("clients").items] == ["client0", "client1"] for pa in p3)
    ctx.check(ok, "C18.UNREG", g.short, "a (re)connecting peer starts with an empty policy map", "register_client does not start the peer from default settings", fi=g, text="reconnect")


def rule_isolate(ctx):
    p = ctx.p
    for ci in server_handlers(p):
        f = ci.methods.get("message_from_device")
        if f is None:
            ctx.violated("C18.ISOLATE", ci.short, "no message_from_device: delivery raises 'Not implemented' into the router's client loop", ci=ci, text="abstract")
            continue
        bad = []
        if f.is_async:
            bad.append("is a coroutine (the router does not await it)")
        for n in walk_no_nested(f.node):
            if isinstance(n, ast.Await):
                bad.append("awaits")
            if isinstance(n, ast.Call) and isinstance(n.func, ast.Attribute) and n.func.attr in ("write", "drain", "flush", "sleep", "sendall", "send") and not (isinstance(n.func.value, ast.Name) and n.func.value.id == "self" and n.func.attr == "send"):
                bad.append(f"calls {n.func.attr}() synchronously")
            if isinstance(n, ast.Raise):
                bad.append("raises")
        paths = run_method(p, f)
        # one send task per message - or none on a path that tears the connection down instead (close() on itself: a peer
        # that is known to be gone is not written to any more)
        def closes_itself(pa):
            return any(isinstance(e.data["callee"], Fn) and e.data["callee"].fi.name == "close" and show(e.data["callee"].self_val) == "self" for e in pa.calls(method="close"))
        tasks = [len(pa.calls(method="create_task")) for pa in paths if not (len(pa.calls(method="create_task")) == 0 and closes_itself(pa))]
        if any(t != 1 for t in tasks) or not tasks:
            bad.append(f"creates {tasks} send tasks per message")
        ctx.check(not bad, "C18.ISOLATE", f.short, "plain function: serialise, create one task, return", f"delivery entry {', '.join(bad)}: one connection can abort or stall delivery to the others", fi=f, text=f"isolate:{bad[:1]}")
    # TCP.start closes every connection when the server stops
    st = p.cls("indi.transport.server.tcp.TCP").find_method("start")
    src = ast.unparse(st.node)
    fin = [n for n in ast.walk(st.node) if isinstance(n, ast.Try) and n.finalbody]
    ok = bool(fin) and "close()" in ast.unparse(ast.Module(body=fin[0].finalbody, type_ignores=[])) and "connections" in ast.unparse(ast.Module(body=fin[0].finalbody, type_ignores=[]))
    ctx.check(ok, "C18.ISOLATE", st.short, "server shutdown closes all connections in a finally block", "TCP.start does not close the open connections when the server stops", fi=st, text="shutdown")


# 'its BLOB settings are discarded' / 'a peer that reconnects starts from default settings' are decided by the router rules
# what a dead connection leaves unfinished must not reach the others: one receive buffer per connection
IMPORTS = [('C05', 'C05.FORGET'), ('C05', 'C05.DEFAULT'), ('C02', 'C02.OWN'), ('C19', 'C19.NONBLOCK')]  # C19.NONBLOCK: a failed or slow peer's delivery entry neither blocks nor raises into the fan-out to the others

RULES = [
    ("C18.REG", rule_reg, "connection handlers register on construction; constructed only by their transport"),
    ("C18.PAIR", rule_pair, "every exit of the connection owner (incl. exception out of the receive loop) passes close()"),
    ("C18.CLOSE", rule_close, "close() unregisters on every path (TCP: closes the writer)"),
    ("C18.UNREG", rule_unreg, "unregister forgets client and settings, idempotently; re-registration starts from defaults"),
    ("C18.ISOLATE", rule_isolate, "router-facing delivery entries are non-blocking plain functions; shutdown closes everything"),
]
