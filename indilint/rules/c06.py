"""C06 - a client's write changes exactly the addressed element, to the value sent."""
from __future__ import annotations

from ..absint import Frame, Builtin, Cls, Const, Dct, Fn, Interp, Lst, Obj, Term, Tup, explore, is_call, mentions, run_method, show, subterms
from ..model import Undecided
from .common import lower_first
from .driverworld import IE, IV
from .clientworld import build_mirror, client_opts, make_client, msg, part
from .common import public_get

EXPLANATION = (
    "C06.KEY: the driver's dispatch is abstractly interpreted on two drivers constructed in one interpreter state from an analysis-only "
    'definition (DEVA with one property of each kind whose dictionary keys differ from the wire names, DEVB with a same-named property) for '
    'new*Vector messages with every combination of (property name existing / unknown / only on the other driver, message kind matching / '
    'mismatching, children naming existing / unknown / repeated elements): exactly the elements named by the children of a message whose kind '
    'matches the addressed property of the addressed driver receive set_value_from_message(child) - once each, in order, with their own child - '
    'and no other element, property or call occurs; unknown names raise nothing. C06.SUBMIT: client Vector.submit is interpreted on a mirror that '
    'the real client code produced from definitions (two properties, two devices; pending values assigned through the public setter): one message '
    "of the vector's new_message_class addressed with the vector's own device and name (labels differ from names), exactly the pending elements' "
    'parts, pending values cleared (read through has_new_value), handed to the connection once. C06.CTOR: for each concrete client element class '
    "the part built by to_new_message on such a mirrored element is checked against the bound part class's effective constructor signature "
    "(required parameters supplied, keywords reach named parameters) and carries the element's own name and its own pending value (BLOB: base64 "
    "text, size and format of that value, not a sibling's). C06.COERCE: wherever a part attribute that is text on the parsed path (size) meets a "
    'number it passes through int()/float(); the two BLOB consumers agree. C06.CONV: each driver-side set_value_from_message, evaluated on a '
    "constructed element, hands set_value exactly the kind's conversion of the child's text (numbers: str_to_num with the element's own declared "
    'format; BLOB: from_base64(text, format)).'
)
NOT_DECIDED = "that converted values equal the sent ones for all values (C10 covers the number grammar, C08 the BLOB codec pairing)."
ASSUMPTIONS = ["values arrive through the parser as text (str) attributes", "switch rule side effects are decided by C09"]
TRUSTED = ["CPython ast", "indilint abstract interpreter"]

MSG = "indi.message"


def rule_key(ctx):
    p = ctx.p
    drv_cls = p.cls("indi.device.driver.Driver")
    f = drv_cls.find_method("message_from_client")
    vec_base = p.cls(f"{IV}.Vector")
    fnm = vec_base.find_method("from_new_message")
    news = {k: p.cls(f"{MSG}.news.New{k}Vector") for k in ("Text", "Number", "Switch", "BLOB")}
    parts = {k: p.cls(f"{MSG}.one_parts.One{k}") for k in ("Text", "Number", "Switch", "BLOB")}
    from .driverworld import build_drivers
    kind_of = {"V1": "Text", "V2": "Number", "V22": "Light", "V3": "Switch", "V4": "BLOB", "V5": "Text"}  # V5 is disabled: a write still reaches its elements (only the publication depends on enabled)
    cases = []
    for target in ("V1", "V2", "V22", "V3", "V4", "V5", "NOPE", "W9"):
        for mk in ("Text", "Number", "Switch", "BLOB"):
            for children in (["A"], ["B", "A"], ["A", "ZZ", "B"], [], ["A", "A"]):
                cases.append((target, mk, children))
    bad = False
    n = 0
    for target, mk, children in cases:
        n += 1

        def run(it: Interp):
            # a second instance of the addressed driver's class, created later, runs under another name: whatever the class
            # or its definitions share between instances must not make a write land on the sibling
            drivers = build_drivers(it, p, names=(("DevA", "DEVA"), ("DevB", "DEVB"), ("DevA", "DEVA2")))
            it.drivers = drivers
            kids = [Obj(parts[mk], {"name": Const(c), "value": Obj(None, label=f"<text:{i}>"), "__closed__": Const(True)}, label=f"child{i}:{c}") for i, c in enumerate(children)]
            it.kids = kids
            msg = Obj(news[mk], {"device": Const("DEVA"), "name": Const(target), "children": Lst(kids), "timestamp": Const(None), "__closed__": Const(True)}, label="newVector")
            return it.run_function(Fn(f, drivers["DEVA"]), [msg], {})

        # the driver package decides the dispatch with whatever helpers / polymorphic hooks it likes; what is observed is
        # which element receives which child (set_value_from_message), events and publications stay opaque
        paths = explore(p, run, {"inline": lambda fi, node: fi is fnm or (fi.module.name.startswith("indi.device.") and fi.name not in ("set_value_from_message", "raise_event", "send_message", "attach_event_handlers")), "call_may_raise": None})
        ctx.paths_enumerated += len(paths)
        row = f"new{mk}Vector device=DEVA name={target} children={children}"
        for pa in paths:
            if pa.outcome != "return":
                ctx.violated("C06.KEY", f.short, f"[{row}] raises {show(pa.value) if pa.value is not None else ''}", fi=f, text=f"raises:{'known' if target in kind_of else 'unknown'}:{'match' if kind_of.get(target) == mk else 'mismatch'}", witness=row)
                bad = True
                continue
            applied = []
            for e in pa.calls(method="set_value_from_message"):
                callee = e.data["callee"]
                recv = show(callee.self_val) if isinstance(callee, Fn) else "?"
                arg = e.data["args"][0] if e.data["args"] else None
                applied.append((recv, show(arg) if arg is not None else None))
            other = [e for e in pa.events if e.kind == "call" and not e.data.get("inlined") and not is_call(e.data["term"], method="set_value_from_message") and not is_call(e.data["term"], method="from_new_message") and not is_call(e.data["term"], method="get") and not (isinstance(e.data["callee"], Term) and e.data["callee"].op == "global") and "logger" not in show(e.data["term"]) and "logging." not in show(e.data["term"]) and "exception" not in show(e.data["term"])]
            stores = [e for e in pa.events if e.kind == "store" and e.data.get("attr") is not None]
            valid = {"V22": ("A",)}.get(target, ("A", "B"))
            if kind_of.get(target) == mk:
                expect = [(f"el:DEVA.{target}.{c}", f"child{i}:{c}") for i, c in enumerate(children) if c in valid]
            else:
                expect = []
            if applied != expect:
                ctx.violated("C06.KEY", f.short, f"[{row}] applies {applied}, expected {expect} (exactly the named elements of the addressed property of the addressed driver, only when the kinds match; a second driver DEVB with properties V1/W9 and a second instance DEVA2 of the same class exist)", fi=f, text=f"applied:{'known' if target in kind_of else 'unknown'}:{'match' if kind_of.get(target) == mk else 'mismatch'}:{len(applied)}:{len(expect)}", witness=row)
                bad = True
            if stores:
                ctx.violated("C06.KEY", f.short, f"[{row}] stores {[repr(s) for s in stores][:2]} during dispatch", fi=f, text="dispatch-stores", witness=row)
                bad = True
            if other:
                ctx.violated("C06.KEY", f.short, f"[{row}] makes other calls during dispatch: {[show(e.data['term'])[:50] for e in other][:2]}", fi=f, text=f"other-calls:{show(other[0].data['term'])[:30]}", witness=row)
                bad = True
    ctx.counters["C06.KEY:cases"] = n
    if not bad:
        ctx.holds("C06.KEY", f.short, f"{n} dispatch cases: only the named elements of the addressed, kind-matching property are written, in order", fi=f)
    ctx.exhaustive_domains.append("8 targets x 4 message kinds x 5 child lists on a constructed two-driver world")


def rule_submit(ctx):
    p = ctx.p
    cv = p.cls("indi.client.vectors.Vector")
    f = cv.find_method("submit")
    n = 0
    for kind in ("Number", "Switch", "Text", "BLOB"):
        vcls = p.cls(f"indi.client.vectors.{kind}Vector")
        ecls = p.cls(f"indi.client.elements.{kind}")
        # besides opaque pending values, the smallest member of each value domain: zero, the empty text, an empty BLOB
        # (a pending value is pending whatever its truth value; both switch states are non-empty texts)
        falsy = {"Number": [("0", lambda it: Const(0)), ("0.0", lambda it: Const(0.0))], "Text": [("''", lambda it: Const(""))], "Switch": [],
                 "BLOB": [("empty BLOB", lambda it: it.apply(Cls(p.cls("indi.device.values.BLOB")), [Const(b""), Const(".bin")], {}, [], None, Frame(None, p.cls("indi.device.values.BLOB").module, {}), False))]}[kind]
        cases = [(pend_, None, None) for pend_ in ((True, False), (False, True), (True, True), (False, False))] + [((True, False), lab_, mk_) for lab_, mk_ in falsy] + [((True, True), lab_, mk_) for lab_, mk_ in falsy]
        for pending, flabel, fmk in cases:
            n += 1

            def run(it: Interp, pending=pending, fmk=fmk):
                # the mirror is produced by the real client from two definitions (a second property V2 and a second
                # device E exist so that a wrongly addressed submit has something to hit)
                cl, vecs, els_ = build_mirror(it, p, kind)
                vec = vecs[("DEV", "V1")]
                els = [els_[("DEV", "V1", nm)] for nm in ("A", "B")]
                for e, nm, pend in zip(els, ("A", "B"), pending):
                    e.label = f"cel:{nm}"
                    if pend:
                        nv = Obj(None, {"binary_base64": Obj(None, label=f"<b64:{nm}>"), "format": Obj(None, label=f"<fmt:{nm}>"), "size": Obj(None, label=f"<size:{nm}>")}, label=f"<new:{nm}>")
                        if fmk is not None and nm == "A":
                            saved_ = dict(it.opts)
                            it.opts["instantiate"] = lambda ci_: True
                            it.opts["inline"] = lambda fi_, node_: True
                            try:
                                nv = fmk(it)
                            finally:
                                it.opts.clear()
                                it.opts.update(saved_)
                        it.run_function(Fn(e.cls.find_setter("value"), e), [nv], {})
                del it.events[:]
                it.els = els
                r = it.run_function(Fn(f, vec), [], {})
                it.left = [nm for e, nm in zip(els, ("A", "B")) if not (isinstance(public_get(it, e, "has_new_value"), Const) and public_get(it, e, "has_new_value").v is False)]
                return r

            paths = explore(p, run, client_opts(p))
            ctx.paths_enumerated += len(paths)
            inst = f"{f.short}[{kind}Vector]"
            row = f"pending A={pending[0] if flabel is None else flabel} B={pending[1]}"
            for pa in paths:
                if pa.outcome != "return":
                    ctx.violated("C06.SUBMIT", inst, f"submit raises for [{row}]: {show(pa.value) if pa.value is not None else ''}", fi=f, text=f"raises:{kind}", witness=row)
                    continue
                sends = [e for e in pa.calls(method="send_message") if isinstance(e.data["callee"], Fn) and isinstance(e.data["callee"].self_val, Obj) and e.data["callee"].self_val.label == "client"]
                if len(sends) != 1:
                    ctx.violated("C06.SUBMIT", inst, f"{len(sends)} messages are handed to the client's connection by one submit", fi=f, text=f"sends:{len(sends)}", witness=row)
                    continue
                m = sends[0].data["args"][0]
                want = p.class_constant(vcls, "new_message_class")
                if not (isinstance(m, Term) and m.op == "call" and isinstance(m.args[0], Cls) and m.args[0].ci is want):
                    ctx.violated("C06.SUBMIT", inst, f"the submitted message is {show(m)[:60]}, not a {getattr(want, 'name', want)}", fi=f, text="class")
                    continue
                kw = dict((k, x) for k, x in m.args[2])
                if show(kw.get("device", Const(0))) != "'DEV'" or show(kw.get("name", Const(0))) != "'V1'":
                    ctx.violated("C06.SUBMIT", inst, f"the message is addressed to {show(kw.get('device', Const(None)))}/{show(kw.get('name', Const(None)))} instead of the vector's own device and name", fi=f, text="address")
                ch = kw.get("children")
                names = []
                okparts = True
                if isinstance(ch, (Lst, Tup)):
                    for x in ch.items:
                        if isinstance(x, Term) and x.op == "call" and isinstance(x.args[0], Cls):
                            pk = dict((k, v) for k, v in x.args[2])
                            names.append(show(pk.get("name", Const(None))).strip("'"))
                            pv = pk.get("value")
                            nm = names[-1]
                            if flabel is not None and nm == "A":
                                pass  # a constant of the domain: that the part exists is what is decided here
                            elif pv is None or not mentions(pv, lambda t: isinstance(t, Obj) and t.label in (f"<new:{nm}>", f"<b64:{nm}>")):
                                okparts = False
                        else:
                            names.append("?")
                expect = [nm for nm, pend in zip(("A", "B"), pending) if pend]
                if names != expect or not okparts:
                    ctx.violated("C06.SUBMIT", inst, f"the message carries parts {names} (values from the pending assignments: {okparts}), expected exactly the pending elements {expect}", fi=f, text=f"children:{names}:{expect}", witness=row)
                left = pa.interp.left
                if left:
                    ctx.violated("C06.SUBMIT", inst, f"pending values of {left} are not cleared by submit (they would be sent again)", fi=f, text="not-cleared", witness=row)
    before = len([r for r in ctx.results if r.rule == "C06.SUBMIT" and r.verdict == "VIOLATED"])
    if not before:
        ctx.holds("C06.SUBMIT", f.short, f"{n} cases (4 kinds x pending subsets, opaque and smallest-of-domain values 0 / 0.0 / '' / empty BLOB): one message, own address, exactly the pending parts, pending cleared", fi=f)


def rule_ctor(ctx):
    p = ctx.p
    n = 0
    for kind in ("Number", "Switch", "Text", "Light", "BLOB"):
        ecls = p.cls(f"indi.client.elements.{kind}")
        f = ecls.find_method("to_new_message")
        inst = f"{f.short}[{kind}]"
        target = p.class_constant(ecls, "new_message_class")
        if not hasattr(target, "mro"):
            ctx.undecided("C06.CTOR", inst, "new_message_class not bound to a class", fi=f)
            continue
        n += 1
        def run(it: Interp):
            cl, vecs, els_ = build_mirror(it, p, kind, layout=(("DEV", "V1"),))
            el = els_[("DEV", "V1", "B")]
            nv = Obj(None, {"binary_base64": Obj(None, label="<b64>"), "format": Obj(None, label="<fmt>"), "size": Obj(None, label="<size>")}, label="<new>")
            it.run_function(Fn(el.cls.find_setter("value"), el), [nv], {})
            other = els_[("DEV", "V1", "A")]
            it.run_function(Fn(other.cls.find_setter("value"), other), [Obj(None, {"binary_base64": Obj(None, label="<b64:other>"), "format": Obj(None, label="<fmt:other>"), "size": Obj(None, label="<size:other>")}, label="<new:other>")], {})
            del it.events[:]
            return it.run_function(Fn(f, el), [], {})

        paths = explore(p, run, {"inline": lambda fi, node: False})
        ok = True
        for pa in paths:
            v = pa.value
            if pa.outcome != "return" or not (isinstance(v, Term) and v.op == "call" and isinstance(v.args[0], Cls) and v.args[0].ci is target):
                ctx.violated("C06.CTOR", inst, f"to_new_message does not build a {target.name}", fi=f, text=f"{kind}:class")
                ok = False
                continue
            sig = p.init_chain_signature(target)
            given = {k for k, _ in v.args[2] if k}
            for r in sig.required():
                if r not in given:
                    ctx.violated("C06.CTOR", inst, f"{target.name}(...) is built without the required parameter '{r}': submit() raises TypeError for every {kind} write", fi=f, text=f"{target.name}:missing:{r}", witness=f"{target.name}({', '.join(sorted(given))})")
                    ok = False
            for k in given:
                if k not in sig.named():
                    ctx.violated("C06.CTOR", inst, f"keyword '{k}' is swallowed by **junk of {target.name}", fi=f, text=f"{target.name}:junk:{k}")
                    ok = False
            kw = dict((k, x) for k, x in v.args[2])
            if show(kw.get("name", Const(None))) != "'B'":
                ctx.violated("C06.CTOR", inst, f"the part is named {show(kw.get('name', Const(None)))}, the element is 'B'", fi=f, text=f"{kind}:name")
                ok = False
            want = {"value": "<new>"} if kind != "BLOB" else {"value": "<b64>", "size": "<size>", "format": "<fmt>"}
            for k, lab in want.items():
                x = kw.get(k)
                if not (isinstance(x, Obj) and x.label == lab):
                    what = "the pending assignment" if kind != "BLOB" else f"the pending value's {({'value': 'binary_base64', 'size': 'size', 'format': 'format'})[k]}"
                    ctx.violated("C06.CTOR", inst, f"the part's {k}= is {show(x)[:40] if x is not None else 'missing'}, expected {what}", fi=f, text=f"{kind}:{k}")
                    ok = False
        if ok:
            ctx.holds("C06.CTOR", inst, f"{target.name}({', '.join(sorted(given))}) matches the part's constructor", fi=f)
    ctx.floor("C06.CTOR", "client element classes", n, 5)


def _blob_consumers(p):
    """(function, concrete class) - the method may be inherited (template method with an overridden hook), so the
    analysis runs it on an instance of the concrete BLOB class."""
    out = []
    for q in (f"{IE}.BLOB", "indi.client.elements.BLOB"):
        ci = p.cls(q)
        out.append((ci.find_method("set_value_from_message"), ci))
    return out


def rule_coerce(ctx):
    p = ctx.p
    fs = _blob_consumers(p)
    summaries = []
    for f, bcls in fs:
        paths = run_method(p, f, self_val=Term("param", "self", hint=bcls), opts={"assert_forks": False, "inline": lambda fi, node: fi.cls is not None and fi.cls in bcls.mro and fi.name.endswith("from_message")})
        ctx.paths_enumerated += len(paths)
        ok = True
        size_checked = False
        msz = f.params()[1] + ".size"  # the message parameter, whatever it is called
        for pa in paths:
            conds = [e.data["cond"] for e in pa.events if e.kind == "assert"] + [e.data["cond"] for e in pa.assumes()]
            for c in conds:
                for t in subterms(c):
                    if isinstance(t, Term) and t.op == "cmp":
                        for side, other in ((t.args[1], t.args[2]), (t.args[2], t.args[1])):
                            if show(side) == msz:
                                ctx.violated("C06.COERCE", f.short, f"the declared size (text on every wire-parsed message) is compared uncoerced: {show(t)[:80]}", fi=f, text="size-uncoerced", witness='<oneBLOB size="3" ...> : "3" == 3 is False')
                                ok = False
                            if show(side) in (f"int({msz})", f"float({msz})") and show(other).endswith(".size"):
                                size_checked = True
        if not size_checked and ok:
            ctx.violated("C06.COERCE", f.short, "the declared BLOB size is not compared with the decoded length", fi=f, text="size-unchecked")
            ok = False
        summaries.append(size_checked)
        if ok:
            ctx.holds("C06.COERCE", f.short, "declared size coerced with int() before comparison with the decoded length", fi=f)
    ctx.floor("C06.COERCE", "BLOB consumers", len(fs), 2)


def rule_conv(ctx):
    """The driver-side element hands set_value exactly its kind's conversion of the child's text (numbers parsed with the
    element's own declared format).  Evaluated on elements of the constructed driver."""
    from .driverworld import _reachable_objs, build_drivers
    p = ctx.p
    where = {"Number": ("V2", "B"), "BLOB": ("V4", "A"), "Text": ("V1", "B"), "Switch": ("V3", "A"), "Light": ("V22", "A")}
    for kind, (vn, en) in where.items():
        ecls = p.cls(f"{IE}.{kind}")
        f = ecls.find_method("set_value_from_message")

        def run(it: Interp):
            drivers = build_drivers(it, p)
            el = {o.label: o for o in _reachable_objs(drivers["DEVA"])}.get(f"el:DEVA.{vn}.{en}")
            if el is None:
                raise Undecided(f"constructed driver has no element {vn}.{en}")
            it.el = el
            m = Obj(p.cls(f"indi.message.one_parts.One{kind}"), {"name": Const(en), "value": Obj(None, label="<text>"), "format": Obj(None, label="<format>"), "size": Obj(None, label="<size>"), "__closed__": Const(True)}, label="child")
            return it.run_function(Fn(f, el), [m], {})

        paths = explore(p, run, {"inline": lambda fi, node: fi.kind == "getter" and fi.name in ("name", "vector", "device")})
        ctx.paths_enumerated += len(paths)
        good = True
        got = None
        for pa in paths:
            if pa.outcome != "return":
                continue
            sv = pa.calls(method="set_value")
            a0 = sv[0].data["args"][0] if len(sv) == 1 and sv[0].data["args"] else None
            recv = sv[0].data["callee"].self_val if len(sv) == 1 and isinstance(sv[0].data["callee"], Fn) else None
            if kind == "Number":
                okc = isinstance(a0, Term) and is_call(a0, func="str_to_num") and len(a0.args[1]) == 2 and isinstance(a0.args[1][0], Obj) and a0.args[1][0].label == "<text>" and isinstance(a0.args[1][1], Const) and a0.args[1][1].v == "%5.2f"
            elif kind == "BLOB":
                okc = isinstance(a0, Term) and is_call(a0, method="from_base64") and [getattr(x, "label", None) for x in a0.args[1]] == ["<text>", "<format>"]
            else:
                okc = isinstance(a0, Obj) and a0.label == "<text>"
            if not okc or recv is not pa.interp.el:
                good = False
                got = show(a0)[:70] if a0 is not None else f"{len(sv)} set_value calls"
        ctx.check(good, "C06.CONV", f"{f.short}[{kind}]", "set_value(<kind's conversion of msg.value>) on the element itself", f"the {kind} element hands {got} to set_value instead of its kind's conversion of the child's text (numbers: str_to_num(text, own format '%5.2f'); BLOB: from_base64(text, format))", fi=f, text=f"conv:{kind}")


# 'subject only to the switch rule', addressing of the right device, and number text valid for any format is parsed
# ... and the client's own view follows the resulting update (C15.MIRROR)
IMPORTS = [('C05', 'C05.KEY'), ('C02', 'C02.OWN'), ('C09', 'C09.STEP'), ('C04', 'C04.DEV'), ('C10', 'C10.PARSE'), ('C02', 'C02.DECODE'), ('C02', 'C02.LOOP'), ('C02', 'C02.CONSUME'), ('C15', 'C15.MIRROR'), ('C10', 'C10.SIGN')]

EXPLANATION = EXPLANATION + ' C06.SUBMIT covers pending values that are opaque and pending values that are the smallest member of their domain (0, 0.0, the empty text, an empty BLOB built by its constructor): a pending value is submitted whatever its truth value.'

EXPLANATION = EXPLANATION + " C06.KEY's world also holds a second instance of the addressed driver's class, created later under another name: a write must land on the addressed instance."

RULES = [
    ("C06.KEY", rule_key, "dispatch: exactly the named elements of the addressed, kind-matching property; nothing else"),
    ("C06.SUBMIT", rule_submit, "client submit: one message, own address, exactly the pending parts, pending cleared"),
    ("C06.CTOR", rule_ctor, "client to_new_message agrees with the part constructor for every element kind"),
    ("C06.COERCE", rule_coerce, "wire-text size is coerced before numeric comparison in both BLOB consumers"),
    ("C06.CONV", rule_conv, "driver set_value_from_message passes the kind's conversion to set_value"),
]
