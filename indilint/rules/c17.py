"""C17 - waiting for an event returns the first match or times out, whatever the timing."""
from __future__ import annotations

import ast
import itertools

from ..absint import Cls, Const, Dct, Fn, Foreign, Frame, Interp, Lst, Obj, Term, explore, is_call, run_method, show
from ..model import Undecided, walk_no_nested

EXPLANATION = (
    "Decides the shape obligations of BaseClient.waitforevent and its three closures on their enumerated paths. C17.COND: the temporary "
    "callback is evaluated for every condition kind (expect / initial / check) x event kind (value / state / definition update) x "
    "(operand equal / different, check true / false): it releases exactly when the condition holds. C17.FLAG (completion-flag single "
    "assignment): in both closures that complete the wait (callback, timeout check) every store to the result lies on a path that "
    "found the flag unset - trigger_event is synchronous while the waiter only resumes in a later loop iteration, so without the guard a "
    "second matching event (or a timeout after a match) overwrites the outcome. C17.RELEASE: on every path after the wait the temporary "
    "callback is removed with the uuid returned by this call's onevent before returning/raising, and it was registered (with the caller's "
    "filters and the closure) before waiting. C17.EXCL: raise iff result.timeout, else return result.event; result.timeout is stored only "
    "by the timeout check. C17.POLL: the polling coroutine first sleeps polling_delay, then repeats (flag unset -> send the getProperties "
    "built from device/vector -> sleep polling_interval) and stops as soon as the flag is set; its task exists iff polling_enabled. "
    "C17.TIMEOUT: the timeout task exists iff a positive timeout was given; it sleeps exactly timeout."
)
NOT_DECIDED = "behaviour on the virtual-time grid (which of timeout and event wins at a given instant) - scheduling; cancellation of the waiter (no try/finally: advisory)."
ASSUMPTIONS = ["trigger_event runs callbacks synchronously; asyncio.Event.set()/is_set() are atomic with respect to coroutines"]
TRUSTED = ["CPython ast", "indilint abstract interpreter"]


def _wfe(p):
    bc = p.cls("indi.client.client.BaseClient")
    f = bc.find_method("waitforevent")
    if f is None:
        raise Undecided("waitforevent not found")
    for nm in ("cb", "poll", "timeout_check"):
        if nm not in f.nested:
            raise Undecided(f"closure {nm} not found in waitforevent (renamed?)")
    return bc, f


def _closure(p, f, **env):
    return Frame(f, f.module, dict(env))


def _result_obj(p):
    return Obj(p.cls("indi.client.client._EventWaitResult"), {"event": Const(None), "timeout": Const(False)}, label="result")


def rule_cond(ctx):
    p = ctx.p
    bc, f = _wfe(p)
    cb = f.nested["cb"]
    evc = {k: p.cls(f"indi.client.events.{k}") for k in ("ValueUpdate", "StateUpdate", "DefinitionUpdate")}
    rows = 0
    bad = False
    for cond in ("expect", "initial", "check"):
        for ek in evc:
            for equal in (True, False):
                rows += 1

                def run(it: Interp):
                    ev = Obj(evc[ek], {}, label="event")
                    if ek == "ValueUpdate":
                        ev.attrs.update({"new_value": Const("x" if equal else "y"), "old_value": Const("o")})
                    if ek == "StateUpdate":
                        ev.attrs.update({"new_state": Const("x" if equal else "y"), "old_state": Const("o")})
                    lock = Obj(None, label="<lock>")
                    res = _result_obj(p)
                    it.res, it.ev = res, ev
                    env = {"lock": lock, "result": res, "expect": Const("x") if cond == "expect" else Const(None), "initial": Const("x") if cond == "initial" else Const(None), "check": Obj(None, label="<check>") if cond == "check" else Const(None)}
                    return it.run_function(Fn(cb, None, closure=_closure(p, f, **env)), [ev], {})

                paths = explore(p, run, {"inline": lambda fi, node: False})
                ctx.paths_enumerated += len(paths)
                for pa in paths:
                    if pa.outcome != "return":
                        ctx.violated("C17.COND", cb.short, f"the temporary callback raises for condition={cond} event={ek}", fi=cb, text=f"raise:{cond}:{ek}")
                        bad = True
                        continue
                    flag_set = any(e.data["truth"] for e in pa.assumes() if "is_set()" in show(e.data["cond"]))
                    check_res = [e.data["truth"] for e in pa.assumes() if show(e.data["cond"]).startswith("<check>(")]
                    if cond == "check":
                        exp = bool(check_res and check_res[0])
                    elif ek == "DefinitionUpdate":
                        exp = False
                    elif cond == "expect":
                        exp = equal
                    else:
                        exp = not equal
                    released = pa.interp.res.attrs["event"] is pa.interp.ev
                    sets = [e for e in pa.events if e.kind == "call" and show(e.data["term"]).startswith("<lock>.set(")]
                    row = f"condition={cond} event={ek} operand {'equal' if equal else 'different'}" + (f" check->{check_res}" if cond == "check" else "")
                    if flag_set:
                        if released:
                            ctx.violated("C17.FLAG", cb.short, f"a matching event overwrites the result although the wait has already completed [{row}]: two matching events dispatched before the waiter resumes make the wait return the later one", fi=cb, text="overwrite-after-completion", witness="two matching setTextVector in one TCP chunk")
                            bad = True
                        continue
                    if released != exp or (exp and len(sets) != 1) or (not exp and sets):
                        ctx.violated("C17.COND", cb.short, f"[{row}]: released={released} (flag set {len(sets)} times), expected released={exp}", fi=cb, text=f"cond:{cond}:{ek}:{equal}", witness=row)
                        bad = True
                    if exp and not any("is_set()" in show(e.data["cond"]) for e in pa.assumes()):
                        ctx.violated("C17.FLAG", cb.short, "the callback stores the result without testing whether the wait has already completed: a second matching event delivered before the waiter resumes replaces the first", fi=cb, text="no-flag-test", witness="two matching setTextVector in one TCP chunk")
                        bad = True
    ctx.counters["C17.COND:rows"] = rows
    if not bad:
        ctx.holds("C17.COND", cb.short, f"{rows} rows: releases exactly when the condition holds", fi=cb)
        ctx.holds("C17.FLAG", cb.short, "result stored only while the completion flag is unset", fi=cb)


def rule_flag_timeout(ctx):
    p = ctx.p
    bc, f = _wfe(p)
    tc = f.nested["timeout_check"]

    def run(it: Interp):
        lock = Obj(None, label="<lock>")
        res = _result_obj(p)
        it.res = res
        return it.run_function(Fn(tc, None, closure=_closure(p, f, lock=lock, result=res, timeout=Term("param", "timeout"))), [], {})

    paths = explore(p, run, {"inline": lambda fi, node: False})
    ctx.paths_enumerated += len(paths)
    bad = False
    for pa in paths:
        flag_tests = [e for e in pa.assumes() if "is_set()" in show(e.data["cond"])]
        fired = isinstance(pa.interp.res.attrs["timeout"], Const) and pa.interp.res.attrs["timeout"].v is True
        sleeps = [e for e in pa.events if e.kind == "await" and "sleep(timeout)" in show(e.data["value"])]
        sets = [e for e in pa.events if e.kind == "call" and show(e.data["term"]).startswith("<lock>.set(")]
        if len(sleeps) != 1:
            ctx.violated("C17.TIMEOUT", tc.short, "the timeout closure does not sleep exactly the timeout once", fi=tc, text="sleep")
            bad = True
        if not flag_tests:
            ctx.violated("C17.FLAG", tc.short, "the timeout fires without testing whether the wait has already completed: a wait that received its event still fails with a timeout", fi=tc, text="timeout-no-flag-test")
            bad = True
            continue
        unset = not flag_tests[0].data["truth"]
        if fired != unset or (unset and len(sets) != 1) or (not unset and sets):
            ctx.violated("C17.FLAG", tc.short, f"flag {'unset' if unset else 'set'} at the timeout instant: timeout recorded={fired}, flag set {len(sets)} times", fi=tc, text=f"timeout-effect:{unset}")
            bad = True
        if sleeps and flag_tests and flag_tests[0].idx < sleeps[0].idx:
            ctx.violated("C17.TIMEOUT", tc.short, "the completion flag is sampled before the sleep", fi=tc, text="early-sample")
            bad = True
    if not bad:
        ctx.holds("C17.FLAG", tc.short, "timeout recorded (and flag set) only if the flag is still unset after sleeping timeout", fi=tc)
    # who stores result.timeout
    writers = []
    for fi in p.functions:
        for n in walk_no_nested(fi.node):
            if isinstance(n, ast.Assign):
                for t in n.targets:
                    if isinstance(t, ast.Attribute) and t.attr == "timeout" and isinstance(t.value, ast.Name) and t.value.id == "result":
                        writers.append(fi)
    ctx.check([w.name for w in writers] == ["timeout_check"], "C17.EXCL", "result.timeout writers", "stored only by timeout_check", f"result.timeout is stored by {[w.short for w in writers]}", fi=f, text="timeout-writers")


def rule_main(ctx):
    p = ctx.p
    bc, f = _wfe(p)
    paths = []
    for tmo in (None, 5, 0.5):
        for pen in (True, False):
            kw = {k: Term("param", k) for k in ("device", "vector", "element", "event_type", "expect", "initial", "check", "polling_delay", "polling_interval")}
            kw["timeout"] = Const(tmo)
            kw["polling_enabled"] = Const(pen)
            ps = run_method(p, f, self_val=Term("param", "self", hint=bc), args=[], kwargs=kw)
            for pa in ps:
                pa.cfg = (tmo, pen)
            paths.extend(ps)
    ctx.paths_enumerated += len(paths)
    bad = False
    n = 0
    for pa in paths:
        tmo, pen = pa.cfg
        waits = [e for e in pa.events if e.kind == "await" and "wait()" in show(e.data["value"])]
        if not waits:
            continue
        n += 1
        w = waits[0]
        on = pa.calls(method="onevent")
        rm = pa.calls(method="rmonevent")
        if len(on) != 1 or on[0].idx > w.idx:
            ctx.violated("C17.RELEASE", f.short, "the temporary callback is not registered exactly once before waiting", fi=f, text="register")
            bad = True
            continue
        kw = on[0].data["kwargs"]
        okf = all(show(kw.get(k, Const(None))) == k for k in ("device", "vector", "element", "event_type")) and isinstance(kw.get("callback"), Fn) and kw["callback"].fi.name == "cb"
        if not okf:
            ctx.violated("C17.RELEASE", f.short, f"the temporary callback is not registered with the caller's filters and the release closure: {[(k, show(v)) for k, v in kw.items()]}", fi=f, text="register-filters")
            bad = True
        good_rm = [e for e in rm if e.idx > w.idx and (e.data["kwargs"].get("uuid") is on[0].data["term"] or (e.data["args"] and e.data["args"][0] is on[0].data["term"]))]
        if len(good_rm) != 1 or len(rm) != 1:
            ctx.violated("C17.RELEASE", f.short, "after the wait the temporary callback is not removed (exactly once) with the uuid returned by this call's onevent: it stays registered", fi=f, text="release")
            bad = True
        # exclusivity
        tests = [e for e in pa.assumes() if show(e.data["cond"]).endswith(".timeout") and e.idx > w.idx]
        if not tests:
            ctx.violated("C17.EXCL", f.short, "the outcome does not depend on result.timeout", fi=f, text="no-timeout-test")
            bad = True
            continue
        if tests[0].data["truth"]:
            if pa.outcome != "raise":
                ctx.violated("C17.EXCL", f.short, "a timed-out wait does not raise", fi=f, text="timeout-no-raise")
                bad = True
        else:
            if pa.outcome != "return" or not show(pa.value).endswith(".event"):
                ctx.violated("C17.EXCL", f.short, f"a completed wait returns {show(pa.value)[:40] if pa.value is not None else None} instead of the recorded event", fi=f, text="return-value")
                bad = True
        if good_rm and any(e.kind == "raise" and e.idx < good_rm[0].idx and e.idx > w.idx for e in pa.events):
            ctx.violated("C17.RELEASE", f.short, "the wait raises before the temporary callback is removed", fi=f, text="raise-before-release")
            bad = True
        # tasks
        tasks = pa.calls(method="create_task")
        poll_tasks = [e for e in tasks if e.data["args"] and isinstance(e.data["args"][0], Term) and isinstance(e.data["args"][0].args[0], Fn) and e.data["args"][0].args[0].fi.name == "poll"]
        to_tasks = [e for e in tasks if e.data["args"] and isinstance(e.data["args"][0], Term) and isinstance(e.data["args"][0].args[0], Fn) and e.data["args"][0].args[0].fi.name == "timeout_check"]
        if (len(poll_tasks) == 1) != pen or len(poll_tasks) > 1:
            ctx.violated("C17.POLL", f.short, f"polling_enabled={pen} but {len(poll_tasks)} polling tasks are created", fi=f, text=f"poll-task:{pen}:{len(poll_tasks)}")
            bad = True
        want_to = tmo is not None
        if (len(to_tasks) == 1) != want_to or len(to_tasks) > 1:
            ctx.violated("C17.TIMEOUT", f.short, f"timeout={tmo!r} but {len(to_tasks)} timeout tasks are created", fi=f, text=f"timeout-task:{want_to}:{len(to_tasks)}")
            bad = True
        if any(e.idx > w.idx for e in tasks):
            ctx.violated("C17.TIMEOUT", f.short, "a task is created after the wait", fi=f, text="task-after-wait")
            bad = True
    if n == 0:
        ctx.undecided("C17.RELEASE", f.short, "no path through 'await lock.wait()' explored", fi=f)
    elif not bad:
        ctx.holds("C17.RELEASE", f.short, f"{n} paths: registered before the wait, removed by uuid after it, before raise/return", fi=f)
        ctx.holds("C17.EXCL", f.short, "raise iff result.timeout, else return result.event", fi=f)
        ctx.holds("C17.TIMEOUT", f.short, "timeout task iff a (positive) timeout was given; polling task iff polling_enabled (timeout in {None, 5, 0.5} x polling in {T,F})", fi=f)


def rule_poll(ctx):
    p = ctx.p
    bc, f = _wfe(p)
    poll = f.nested["poll"]
    bad = False
    for dev, vec in itertools.product((None, "D"), (None, "V")):
        def run(it: Interp):
            client = Obj(bc, {}, label="client")
            lock = Obj(None, label="<lock>")
            env = {"self": client, "lock": lock, "device": Const(dev), "vector": Const(vec), "polling_delay": Term("param", "polling_delay"), "polling_interval": Term("param", "polling_interval")}
            return it.run_function(Fn(poll, None, closure=_closure(p, f, **env)), [], {})

        paths = explore(p, run, {"inline": lambda fi, node: False, "max_while": 2})
        ctx.paths_enumerated += len(paths)
        for pa in paths:
            seq = []
            for e in pa.events:
                if e.kind == "await" and "sleep(" in show(e.data["value"]):
                    seq.append("sleep:" + show(e.data["value"]).split("sleep(")[1].rstrip(")"))
                elif e.kind == "call" and is_call(e.data["term"], method="send_message"):
                    a = e.data["args"][0] if e.data["args"] else None
                    kw = dict((k, show(v)) for k, v in a.args[2]) if isinstance(a, Term) and a.op == "call" and isinstance(a.args[0], Cls) and a.args[0].ci.name == "GetProperties" else None
                    seq.append(("send", kw))
                elif e.kind == "assume" and "is_set()" in show(e.data["cond"]):
                    seq.append("set" if e.data["truth"] else "unset")
            if not seq or seq[0] != "sleep:polling_delay":
                ctx.violated("C17.POLL", poll.short, f"the polling coroutine does not start by sleeping polling_delay: {seq[:3]}", fi=poll, text="delay-first")
                bad = True
                continue
            i = 1
            okseq = True
            while i < len(seq):
                if seq[i] == "set":
                    okseq = okseq and i == len(seq) - 1
                    break
                if seq[i] != "unset" or i + 2 >= len(seq) + 1:
                    okseq = False
                    break
                if i + 1 < len(seq):
                    s = seq[i + 1]
                    if not (isinstance(s, tuple) and s[0] == "send"):
                        okseq = False
                        break
                    kw = s[1]
                    want = {"version": repr("1.7")}
                    if dev:
                        want["device"] = repr(dev)
                    if vec:
                        want["name"] = repr(vec)
                    if kw is None or {k: v for k, v in kw.items() if k != "version"} != {k: v for k, v in want.items() if k != "version"} or "version" not in kw:
                        ctx.violated("C17.POLL", poll.short, f"the poll request is getProperties({kw}), expected device={dev!r} name={vec!r}", fi=poll, text=f"request:{dev}:{vec}")
                        bad = True
                if i + 2 < len(seq) and seq[i + 2] != "sleep:polling_interval":
                    okseq = False
                    break
                i += 3
            if not okseq and pa.outcome != "truncated":
                ctx.violated("C17.POLL", poll.short, f"the polling sequence is {seq}, expected delay, then repeated (flag unset, send, sleep interval) until the flag is set", fi=poll, text="sequence")
                bad = True
            if pa.outcome == "truncated" and not okseq:
                # a truncated (loop-bound) path must still be a prefix of the pattern
                pref = all((seq[j] == "unset") if (j - 1) % 3 == 0 else ((isinstance(seq[j], tuple)) if (j - 1) % 3 == 1 else seq[j] == "sleep:polling_interval") for j in range(1, len(seq)))
                if not pref:
                    ctx.violated("C17.POLL", poll.short, f"the polling sequence {seq} is not a prefix of (flag unset, send, sleep interval)*", fi=poll, text="sequence-prefix")
                    bad = True
    if not bad:
        ctx.holds("C17.POLL", poll.short, "sleep(polling_delay); while flag unset: send getProperties(device, name); sleep(polling_interval)", fi=poll)


# a wait is released by a callback in the client's registry: a raising callback registered earlier must not keep the event from it
IMPORTS = [('C16', 'C16.CONTAIN'), ('C16', 'C16.FILTER'), ('C16', 'C16.RM')]

RULES = [
    ("C17.COND", rule_cond, "release condition table; result stored only while the completion flag is unset (callback)"),
    ("C17.FLAG", rule_flag_timeout, "timeout recorded only while the flag is unset; sole writer of result.timeout"),
    ("C17.RELEASE", rule_main, "temporary callback registered before and removed after the wait; raise iff timeout; task creation guards"),
    ("C17.POLL", rule_poll, "polling coroutine: delay first, then (unset, send, sleep interval)* until set"),
]
