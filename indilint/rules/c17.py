"""C17 - waiting for an event returns the first match or times out, whatever the timing."""
from __future__ import annotations

import itertools

from ..absint import Cls, Const, Dct, Fn, Foreign, Frame, Interp, Lst, Obj, Term, explore, is_call, show
from ..model import Undecided
from .clientworld import client_opts, make_client

EXPLANATION = (
    "BaseClient.waitforevent is evaluated as a whole, by the abstract interpreter, on scripted scenarios - nothing in the rules depends on "
    "how the function is written (closure names, local names, helper classes). The client is produced by its real constructor; the asyncio "
    "primitives are modelled: asyncio.Event() is a flag object (set / is_set / wait), create_task records the coroutine call as a pending "
    "task, asyncio.sleep records its duration and returns. When the waiter blocks in Event.wait() the scenario's script runs: an event is "
    "delivered through the client's real trigger_event (so the registered filter and callback are the real ones), or a pending task (the "
    "timeout) is run to completion; then the waiter resumes if the flag is set. C17.COND: for every condition kind (expect / initial / "
    "check) x event kind (value / state / definition update) x operand (equal / different) the wait is released exactly when the condition "
    "holds, and returns that event. C17.FLAG: first match wins - a second matching event, or a timeout firing after a match, does not "
    "change the outcome; a match after the timeout does not turn the timeout into a success. C17.EXCL: every completed scenario either "
    "returns an event or raises the timeout, never both, and with nothing happening the waiter stays blocked. C17.RELEASE: the callback "
    "is registered with the caller's filters while waiting (events for another device or property do not release the wait) and no "
    "callback is left registered after any completed scenario. C17.TIMEOUT: a timeout task exists iff a positive timeout was given and it "
    "sleeps exactly the timeout before acting. C17.POLL: a polling task exists iff polling is enabled; run with a scripted completion flag "
    "it sleeps polling_delay first, then repeats (send getProperties built from the device / vector filters, sleep polling_interval) "
    "while the flag is unset and stops as soon as it is set."
)
NOT_DECIDED = "behaviour on the virtual-time grid (which of timeout and event wins at a given instant) - scheduling; cancellation of the waiter (no try/finally: advisory)."
ASSUMPTIONS = ["trigger_event runs callbacks synchronously; asyncio.Event.set()/is_set() are atomic with respect to coroutines", "tasks other than the waiter run only while the waiter is suspended (single-threaded event loop)"]
TRUSTED = ["CPython ast", "indilint abstract interpreter"]


class _Blocked(Exception):
    """The waiter is suspended in Event.wait() and nothing in the script sets the flag."""


def _wfe(p):
    bc = p.cls("indi.client.client.BaseClient")
    f = bc.find_method("waitforevent")
    if f is None:
        raise Undecided("waitforevent not found")
    return bc, f


def _event(p, kind, value="x", device="D", vector="V", element="E", label=None):
    ci = p.cls(f"indi.client.events.{kind}")

    def named(n, what):
        return Obj(None, {"name": Const(n), "__closed__": Const(True)}, label=f"<{what}:{n}>") if n is not None else Const(None)

    a = {"device": named(device, "device"), "vector": named(vector, "vector"), "element": named(element, "element") if kind == "ValueUpdate" else Const(None), "__closed__": Const(True)}
    if kind == "ValueUpdate":
        a.update({"new_value": Const(value), "old_value": Const("o")})
    if kind == "StateUpdate":
        a.update({"new_state": Const(value), "old_state": Const("o")})
    return Obj(ci, a, label=label or f"event:{kind}:{value}")


def simulate(p, kwargs, script, poll_flags=None, second=None, event_flags=None):
    """Abstractly run client.waitforevent(**kwargs).  'script' = actions performed when the waiter blocks:
    ('event', Obj) deliver through trigger_event; ('task', i) run the i-th pending task to completion.
    -> list of result dicts (one per explored path)."""
    bc, f = _wfe(p)
    trig = bc.find_method("trigger_event")
    results = []

    def run(it: Interp):
        it.tasks, it.sleeps, it.sent, it.trace = [], [], [], []
        it.in_task = None
        client = make_client(p, it=it)
        it.client = client
        flags = []

        def fm(it_, callee, args, kw):
            if isinstance(callee, Foreign):
                d = callee.dotted
                if d == "asyncio.Event":
                    o = Obj(None, {"flag": Const(False)}, label=f"<asyncio.Event#{len(flags)}>")
                    flags.append(o)
                    return o
                if d == "asyncio.sleep":
                    it_.sleeps.append((it_.in_task, args[0] if args else None))
                    return Const(None)
                if d.endswith("iscoroutinefunction"):
                    return Const(False)
                if d == "asyncio.get_running_loop" or d == "asyncio.get_event_loop":
                    return Obj(None, {}, label="<loop>")
                if d in ("asyncio.create_task", "asyncio.ensure_future"):
                    it_.tasks.append(args[0])
                    return Obj(None, {}, label=f"<task#{len(it_.tasks) - 1}>")
                if d == "uuid.uuid4":
                    n_ = it_.__dict__.setdefault("_uuid", [0])
                    n_[0] += 1
                    return Obj(None, label=f"<uuid{n_[0]}>")
                return None
            if isinstance(callee, Term) and callee.op == "attr" and isinstance(callee.args[0], Obj):
                o, m = callee.args[0], callee.args[1]
                if o.label == "<loop>" and m == "create_task":
                    it_.tasks.append(args[0])
                    return Obj(None, {}, label=f"<task#{len(it_.tasks) - 1}>")
                if o.label.startswith("<asyncio.Event"):
                    if m == "set":
                        o.attrs["flag"] = Const(True)
                        it_.trace.append(("set", it_.in_task))
                        return Const(None)
                    if m == "clear":
                        o.attrs["flag"] = Const(False)
                        return Const(None)
                    if m == "is_set":
                        if it_.in_task is not None and event_flags is not None and flags.index(o) in event_flags:
                            # what a task reads from the completion flag of the wait with this index, read after read
                            seq = event_flags[flags.index(o)]
                            k = it_.__dict__.setdefault("_ef", {}).setdefault(flags.index(o), [0])
                            v = seq[min(k[0], len(seq) - 1)]
                            k[0] += 1
                            it_.trace.append(("is_set", flags.index(o), v))
                            return Const(v)
                        if it_.in_task is not None and poll_flags is not None and it_.in_task == poll_flags[0]:
                            seq = poll_flags[1]
                            k = it_.__dict__.setdefault("_pf", [0])
                            v = seq[min(k[0], len(seq) - 1)]
                            k[0] += 1
                            it_.trace.append(("is_set", v))
                            return Const(v)
                        return o.attrs["flag"]
                    if m == "wait":
                        if o.attrs["flag"].v is not True:
                            for act in script:
                                if act[0] == "event":
                                    it_.run_function(Fn(trig, client), [act[1]], {})
                                elif act[0] == "task" and act[1] < len(it_.tasks):
                                    run_task(it_, act[1])
                        if o.attrs["flag"].v is not True:
                            raise _Blocked()
                        return Const(None)
            if isinstance(callee, Term) and callee.op == "param" and callee.args[0] == "checkfn":
                # the scenario's check callable accepts exactly the events that carry 'x'
                return Const(bool(args and isinstance(args[0], Obj) and args[0].label.endswith(":x")))
            return None

        def run_task(it_, i):
            t = it_.tasks[i]
            if not (isinstance(t, Term) and t.op == "call" and isinstance(t.args[0], Fn)):
                raise Undecided(f"task #{i} is not a call of a coroutine function of the repository: {show(t)[:60]}")
            prev, it_.in_task = it_.in_task, i
            try:
                it_.run_function(t.args[0], list(t.args[1]), dict((k, v) for k, v in t.args[2] if k), None)
            finally:
                it_.in_task = prev

        it.run_task = run_task
        it.opts["foreign_model"] = fm
        try:
            v = it.run_function(Fn(f, client), [], dict(kwargs))
            it.result = ("return", v)
        except _Blocked:
            it.result = ("blocked", None)
        if second is not None:
            # a second wait started while the first is still blocked (another task of the application), then every
            # background task that exists is run
            it.tasks_first = len(it.tasks)
            try:
                v = it.run_function(Fn(f, client), [], dict(second))
                it.result2 = ("return", v)
            except _Blocked:
                it.result2 = ("blocked", None)
            for i in range(len(it.tasks)):
                run_task(it, i)
        return Const(None)

    o = client_opts(p)
    base = o["inline"]
    o["inline"] = lambda fi, node: base(fi, node) or fi.parent is not None
    o["max_depth"] = 14
    o["max_while"] = 8
    o["assert_forks"] = True  # a failing assert is an AssertionError for the caller, not a comment
    paths = explore(p, run, o)
    for pa in paths:
        it = pa.interp
        res = getattr(it, "result", None)
        if pa.outcome == "raise":
            res = ("raise", pa.value)
        sends = [e for e in pa.calls(method="send_message") if isinstance(e.data["callee"], Fn) and isinstance(e.data["callee"].self_val, Obj) and e.data["callee"].self_val.label == "client"]
        results.append({"outcome": res[0] if res else "?", "value": res[1] if res else None, "callbacks": list(it.client.attrs["callbacks"].items) if isinstance(it.client.attrs.get("callbacks"), Lst) else None,
                        "tasks": list(it.tasks), "sleeps": list(it.sleeps), "sends": sends, "trace": list(it.trace), "interp": it, "path": pa})
    return results


def _one(ctx, rule, f, results, what):
    if len(results) != 1:
        ctx.undecided(rule, f.short, f"{what}: {len(results)} paths (a condition was not decided by constant evaluation)", fi=f)
        return None
    return results[0]


def _is_timeout(r):
    # the only exception a well-formed call can end with is the timeout failure
    return r["outcome"] == "raise"


def rule_cond(ctx):
    p = ctx.p
    bc, f = _wfe(p)
    rows = 0
    bad = False
    check = Term("param", "checkfn", pytype="function")
    # the reference value may be any value a property can take, falsy ones included (waiting for a countdown to reach 0,
    # for a text to become empty): (reference, an equal event value, a different event value)
    operands = [("x", "x", "y"), (0, 0, 1), (0.0, 0.0, 2.5), ("", "", "y"), (False, False, True)]
    for cond, ek, equal, (ref, same, other) in [(c_, e_, q_, o_) for c_ in ("expect", "initial", "check") for e_ in ("ValueUpdate", "StateUpdate", "DefinitionUpdate") for q_ in (True, False) for o_ in (operands if c_ != "check" and e_ == "ValueUpdate" else operands[:1])]:
        if True:
            if True:
                rows += 1
                ev = _event(p, ek, same if equal else other)
                kw = {"expect": Const(ref)} if cond == "expect" else ({"initial": Const(ref)} if cond == "initial" else {"check": check})
                kw["polling_enabled"] = Const(False)
                r = _one(ctx, "C17.COND", f, simulate(p, kw, [("event", ev)]), f"{cond}={ref!r}/{ek}/{equal}")
                if r is None:
                    bad = True
                    continue
                if cond == "check":
                    exp = equal  # the check callable of the scenario accepts exactly the events carrying 'x'
                elif ek == "DefinitionUpdate":
                    exp = False
                elif cond == "expect":
                    exp = equal
                else:
                    exp = not equal
                row = f"condition={cond}" + (f"={ref!r}" if cond != "check" else "") + f" event={ek} carrying {(same if equal else other)!r} ({'equal' if equal else 'different'})"
                released = r["outcome"] == "return"
                if r["outcome"] == "raise":
                    ctx.violated("C17.COND", f.short, f"[{row}] the wait raises {show(r['value'])[:50]}", fi=f, text=f"raise:{cond}:{ek}", witness=row)
                    bad = True
                elif released != exp:
                    ctx.violated("C17.COND", f.short, f"[{row}]: released={released}, expected released={exp}", fi=f, text=f"cond:{cond}:{ek}:{equal}", witness=row)
                    bad = True
                elif released and r["value"] is not ev:
                    ctx.violated("C17.COND", f.short, f"[{row}]: the wait returns {show(r['value'])[:40]} instead of the event that satisfied the condition", fi=f, text=f"cond-value:{cond}:{ek}", witness=row)
                    bad = True
    ctx.counters["C17.COND:rows"] = rows
    if not bad:
        ctx.holds("C17.COND", f.short, f"{rows} rows: released exactly when the condition holds, returning that event", fi=f)


def rule_flag(ctx):
    """First completion wins."""
    p = ctx.p
    bc, f = _wfe(p)
    e1, e2, e0 = _event(p, "ValueUpdate", "x", label="event:first:x"), _event(p, "ValueUpdate", "x", label="event:second:x"), _event(p, "ValueUpdate", "y", label="event:nomatch:y")
    base = {"expect": Const("x"), "polling_enabled": Const(False)}
    cases = [
        ("two matching events before the waiter resumes", dict(base), [("event", e1), ("event", e2)], ("return", e1)),
        ("a non-matching event, then two matching ones", dict(base), [("event", e0), ("event", e1), ("event", e2)], ("return", e1)),
        ("a match, then the timeout fires before the waiter resumes", dict(base, timeout=Const(5)), [("event", e1), ("task", 0)], ("return", e1)),
        ("the timeout fires, then a match arrives before the waiter resumes", dict(base, timeout=Const(5)), [("task", 0), ("event", e1)], ("timeout", None)),
        ("the timeout fires twice", dict(base, timeout=Const(5)), [("task", 0), ("task", 0)], ("timeout", None)),
    ]
    bad = False
    for label, kw, script, (want, wv) in cases:
        r = _one(ctx, "C17.FLAG", f, simulate(p, kw, script), label)
        if r is None:
            bad = True
            continue
        got = "timeout" if _is_timeout(r) else r["outcome"]
        if got != want or (want == "return" and r["value"] is not wv):
            ctx.violated("C17.FLAG", f.short, f"[{label}] the wait ends with {got} {show(r['value'])[:40] if r['value'] is not None else ''}, expected {want} {show(wv) if wv is not None else ''}: the first completion must win (a later event or timeout overwrites the outcome)", fi=f, text=f"flag:{label}", witness=label)
            bad = True
    if not bad:
        ctx.holds("C17.FLAG", f.short, f"{len(cases)} scenarios: the first completion (event or timeout) wins", fi=f)


def rule_main(ctx):
    """Exclusive outcomes, registration with the caller's filters, removal afterwards, task creation."""
    p = ctx.p
    bc, f = _wfe(p)
    ex = _event(p, "ValueUpdate", "x")
    other_dev = _event(p, "ValueUpdate", "x", device="OTHER", label="event:otherdevice:x")
    other_vec = _event(p, "ValueUpdate", "x", vector="OTHER", label="event:othervector:x")
    other_el = _event(p, "ValueUpdate", "x", element="OTHER", label="event:otherelement:x")
    flt = {"device": Const("D"), "vector": Const("V"), "element": Const("E")}
    bad_excl = bad_rel = bad_to = bad_poll = False
    n = 0
    for tmo in (None, 5, 0.5, 0):
        for pen in (True, False):
            kw = dict(flt, expect=Const("x"), polling_enabled=Const(pen), polling_delay=Const(2), polling_interval=Const(3))
            if tmo is not None:
                kw["timeout"] = Const(tmo)
            want_to = tmo is not None and tmo > 0
            # nothing happens: the waiter stays blocked, its callback registered, tasks as configured
            r = _one(ctx, "C17.EXCL", f, simulate(p, kw, []), f"timeout={tmo} polling={pen} nothing happens")
            if r is None:
                bad_excl = True
                continue
            n += 1
            if r["outcome"] != "blocked":
                ctx.violated("C17.EXCL", f.short, f"with no event and no timeout firing the wait ends ({r['outcome']}) instead of waiting [timeout={tmo} polling={pen}]", fi=f, text=f"neither:{tmo}:{pen}")
                bad_excl = True
                continue
            ntask = len(r["tasks"])
            if ntask != int(pen) + int(want_to):
                which = "C17.POLL" if (ntask - int(want_to)) != int(pen) and not want_to else "C17.TIMEOUT"
                ctx.violated(which, f.short, f"timeout={tmo!r} polling_enabled={pen}: {ntask} helper tasks are created, expected {int(pen)} polling + {int(want_to)} timeout", fi=f, text=f"tasks:{tmo}:{pen}:{ntask}")
                bad_to = True
                continue
            if len(r["callbacks"] or []) != 1:
                ctx.violated("C17.RELEASE", f.short, f"while waiting {len(r['callbacks'] or [])} callbacks are registered, expected exactly the wait's own", fi=f, text="register")
                bad_rel = True
            # events for another device / property / element do not release; the matching one does and cleans up
            for label, script, want in (("events for other devices, properties and elements only", [("event", other_dev), ("event", other_vec), ("event", other_el)], "blocked"),
                                        ("foreign events, then the awaited one", [("event", other_dev), ("event", ex)], "return")):
                r2 = _one(ctx, "C17.RELEASE", f, simulate(p, kw, script), label)
                if r2 is None:
                    bad_rel = True
                    continue
                if r2["outcome"] != want or (want == "return" and r2["value"] is not ex):
                    ctx.violated("C17.RELEASE", f.short, f"[{label}; timeout={tmo} polling={pen}] the wait ends with {r2['outcome']} {show(r2['value'])[:40] if r2['value'] is not None else ''}, expected {want}: the wait is not registered with the caller's device / vector / element filters", fi=f, text=f"filters:{want}")
                    bad_rel = True
                if want == "return" and r2["callbacks"]:
                    ctx.violated("C17.RELEASE", f.short, f"after the wait completed {len(r2['callbacks'])} callback(s) are still registered: the temporary callback leaks and keeps firing", fi=f, text="leak:return")
                    bad_rel = True
            if want_to:
                ti = int(pen)  # tasks are created in program order: the scenario finds the timeout task as the one that is not the poller
                for cand in range(ntask):
                    r3s = simulate(p, kw, [("task", cand)], poll_flags=(0, [True]) if pen else None)
                    if len(r3s) == 1 and _is_timeout(r3s[0]):
                        ti = cand
                r3 = _one(ctx, "C17.TIMEOUT", f, simulate(p, kw, [("task", ti)], poll_flags=(1 - ti, [True]) if pen else None), "the timeout fires")
                if r3 is None:
                    bad_to = True
                    continue
                if not _is_timeout(r3):
                    ctx.violated("C17.TIMEOUT", f.short, f"when the timeout task runs and nothing else happened the wait ends with {r3['outcome']} {show(r3['value'])[:40] if r3['value'] is not None else ''} instead of failing with a timeout [timeout={tmo} polling={pen}]", fi=f, text=f"timeout-no-raise:{tmo}")
                    bad_to = True
                else:
                    sl = [show(d) for who, d in r3["sleeps"] if who == ti]
                    if sl != [repr(tmo)]:
                        ctx.violated("C17.TIMEOUT", f.short, f"the timeout task sleeps {sl}, expected exactly [{tmo!r}] before acting", fi=f, text="sleep")
                        bad_to = True
                    if r3["callbacks"]:
                        ctx.violated("C17.RELEASE", f.short, "after a timeout the temporary callback is still registered", fi=f, text="leak:timeout")
                        bad_rel = True
    if not bad_excl:
        ctx.holds("C17.EXCL", f.short, f"{n} configurations: blocked while nothing happens; an event returns, a timeout raises, never both", fi=f)
    if not bad_rel:
        ctx.holds("C17.RELEASE", f.short, "registered with the caller's filters while waiting; nothing left registered after completion", fi=f)
    if not bad_to:
        ctx.holds("C17.TIMEOUT", f.short, "timeout task iff a positive timeout was given; it sleeps exactly the timeout (timeout in {None, 5, 0.5, 0} x polling in {T,F})", fi=f)


def rule_poll(ctx):
    p = ctx.p
    bc, f = _wfe(p)
    bad = False
    n = 0
    for dev, vec in (("D", "V"), ("D", None), (None, None)):
        for flags in ([True], [False, True], [False, False, False, True]):
            kw = {"expect": Const("x"), "polling_enabled": Const(True), "polling_delay": Const(2), "polling_interval": Const(3)}
            if dev is not None:
                kw["device"] = Const(dev)
            if vec is not None:
                kw["vector"] = Const(vec)
            rs = simulate(p, kw, [("task", 0)], poll_flags=(0, flags))
            r = _one(ctx, "C17.POLL", f, rs, f"polling device={dev} vector={vec} flags={flags}")
            if r is None:
                bad = True
                continue
            n += 1
            if len(r["tasks"]) != 1:
                ctx.violated("C17.POLL", f.short, f"polling enabled without timeout creates {len(r['tasks'])} tasks", fi=f, text="poll-task")
                bad = True
                continue
            want_iter = len(flags) - 1
            sl = [show(d) for who, d in r["sleeps"] if who == 0]
            want_sl = ["2"] + ["3"] * want_iter
            sends = r["sends"]
            if sl != want_sl or len(sends) != want_iter:
                ctx.violated("C17.POLL", f.short, f"with the completion flag reading {flags} the polling task sleeps {sl} and sends {len(sends)} requests, expected sleeps {want_sl} (delay first, then the interval after every request) and {want_iter} requests: it must stop as soon as the wait has completed", fi=f, text=f"sequence:{len(flags)}", witness=str(flags))
                bad = True
                continue
            for e in sends:
                m = e.data["args"][0] if e.data["args"] else None
                okm = isinstance(m, Term) and m.op == "call" and isinstance(m.args[0], Cls) and m.args[0].ci.name == "GetProperties"
                kwm = dict(m.args[2]) if okm else {}
                gd, gn = kwm.get("device", Const(None)), kwm.get("name", Const(None))
                if not okm or show(gd) != repr(dev) or show(gn) != repr(vec) or "version" not in kwm:
                    ctx.violated("C17.POLL", f.short, f"the poll request is {show(m)[:80] if m is not None else None}, expected getProperties(version, device={dev!r}, name={vec!r})", fi=f, text=f"request:{dev}:{vec}")
                    bad = True
    # two waits on the same property at the same time (two tasks of the application), each with polling: when the first
    # has completed and the second is still pending, the second's request must keep being re-sent at ITS delay/interval
    for dev, vec in (("D", "V"), ("D", None), (None, None)):
        kw1 = {"expect": Const("x"), "polling_enabled": Const(True), "polling_delay": Const(2), "polling_interval": Const(3)}
        kw2 = {"expect": Const("y"), "polling_enabled": Const(True), "polling_delay": Const(5), "polling_interval": Const(7)}
        for kw in (kw1, kw2):
            if dev is not None:
                kw["device"] = Const(dev)
            if vec is not None:
                kw["vector"] = Const(vec)
        rs = simulate(p, kw1, [], second=kw2, event_flags={0: [True], 1: [False, False, True]})
        r = _one(ctx, "C17.POLL", f, rs, f"two concurrent waits device={dev} vector={vec}")
        if r is None:
            bad = True
            continue
        n += 1
        it_ = r["interp"]
        if r["outcome"] != "blocked" or getattr(it_, "result2", ("?",))[0] != "blocked":
            ctx.violated("C17.POLL", f.short, f"two concurrent waits on device={dev} vector={vec}: a wait does not block while nothing happens ({r['outcome']}, {getattr(it_, 'result2', None)})", fi=f, text=f"concurrent-block:{dev}:{vec}")
            bad = True
            continue
        sl = sorted(show(d) for who, d in r["sleeps"])
        nsend = len(r["sends"])
        if nsend != 2 or sl != sorted(["2", "5", "7", "7"]):
            ctx.violated("C17.POLL", f.short, f"two waits on the same property (device={dev}, vector={vec}) at the same time, the first already completed, the second still pending for two polling turns: {nsend} re-requests are sent and the pollers sleep {sl}; expected 2 re-requests for the pending wait at its own delay 5 and interval 7 (and only the delay 2 of the completed one): a pending wait is left without its poller", fi=f, text=f"concurrent:{dev}:{vec}", witness="waitforevent(expect='x', delay 2, interval 3) and waitforevent(expect='y', delay 5, interval 7) on one property")
            bad = True
    ctx.counters["C17.POLL:scenarios"] = n
    if not bad:
        ctx.holds("C17.POLL", f.short, f"{n} scenarios: sleep(polling_delay); while the wait is pending: send getProperties(device, name); sleep(polling_interval)", fi=f)


# a raising callback of another waiter/listener must not keep the event from this waiter; filters are the registry's
IMPORTS = [('C16', 'C16.CONTAIN'), ('C16', 'C16.FILTER'), ('C16', 'C16.RM'), ('C16', 'C16.DURING')]

EXPLANATION = EXPLANATION + " C17.POLL also runs two waits on the same property at the same time (different delays and intervals), the first completed and the second pending for two polling turns: exactly the second's two re-requests at its own delay and interval must be sent (a pending wait always has its own poller)."

RULES = [
    ("C17.COND", rule_cond, "released exactly when the condition holds (3 kinds x 3 event kinds x equal/different), returning that event"),
    ("C17.FLAG", rule_flag, "first completion wins: later events / timeouts do not change the outcome"),
    ("C17.EXCL", rule_main, "blocked while nothing happens; event -> return, timeout -> raise; registration with the caller's filters; nothing left registered; tasks as configured"),
    ("C17.POLL", rule_poll, "polling: delay, then (request, interval) while pending; stops when completed; request built from the filters"),
]
