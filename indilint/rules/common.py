"""Helpers shared by the rule modules: message hierarchy, abstract construction, role queries."""
from __future__ import annotations

import ast
from typing import Dict, List, Optional, Tuple

from ..absint import (
    Cls, Const, Dct, Fn, Interp, Lst, Obj, Term, Tup, Value, explore, is_call, mentions, run_method, show, subterms,
)
from ..model import AnalysisError, ClassInfo, FunctionInfo, Program, Undecided, stmt_text, walk_no_nested


def lower_first(name: str) -> str:
    return name[:1].lower() + name[1:]


def msg_base(p: Program) -> ClassInfo:
    return p.cls("indi.message.base.IndiMessage")


def part_base(p: Program) -> ClassInfo:
    return p.cls("indi.message.base.IndiMessagePart")


def is_registered(ci: ClassInfo) -> bool:
    return any(d.endswith("register_message") for d in ci.decorators)


def flag(p: Program, ci: ClassInfo, name: str) -> Optional[bool]:
    v = p.class_constant(ci, name)
    return v if isinstance(v, bool) else None


def instantiated_classes(p: Program) -> Dict[str, List[Tuple[FunctionInfo, ast.Call]]]:
    """Classes of the message/part hierarchies that are constructed or bound as a
    ``*_class`` attribute somewhere under indi/ (call sites and class-constant bindings)."""
    out: Dict[str, list] = {}
    targets = {c.qualname for c in msg_base(p).all_subclasses()} | {c.qualname for c in part_base(p).all_subclasses()}
    for fi in p.functions:
        for n in walk_no_nested(fi.node):
            if isinstance(n, ast.Call):
                ci = p.resolve_class(fi.module, n.func) if isinstance(n.func, (ast.Name, ast.Attribute)) else None
                if ci is not None and ci.qualname in targets:
                    out.setdefault(ci.qualname, []).append((fi, n))
    for ci in p.classes.values():
        for k, e in ci.class_attrs.items():
            if k.endswith("_class") and isinstance(e, (ast.Name, ast.Attribute)):
                tgt = p.resolve_class(ci.module, e)
                if tgt is not None and tgt.qualname in targets:
                    out.setdefault(tgt.qualname, []).append((None, e))
    return out


def concrete_message_classes(p: Program) -> List[ClassInfo]:
    """Registered classes plus every class of the hierarchy that is instantiated under indi/."""
    inst = instantiated_classes(p)
    out = []
    for c in msg_base(p).all_subclasses():
        if is_registered(c) or c.qualname in inst:
            out.append(c)
    return out


def concrete_part_classes(p: Program) -> List[ClassInfo]:
    """The element classes the parser can hand out: every class of the part hierarchy whose tag is one of the
    protocol's element tags (def<Kind> / one<Kind>) - whether or not something derives from it -, every leaf, and
    every class that is instantiated or bound as a *_class attribute under indi/."""
    from ..protocol_tables import KINDS
    tags = {f"{pre}{k}" for pre in ("def", "one") for k in KINDS}
    inst = instantiated_classes(p)
    out = []
    for c in part_base(p).all_subclasses():
        if not c.subclasses or (c.name[:1].lower() + c.name[1:]) in tags or c.qualname in inst:
            out.append(c)
    return out


def sym(name: str) -> Obj:
    """A non-None symbolic input (abstract object that only knows its own name)."""
    return Obj(None, label=f"<{name}>")


def is_sym(v, name=None) -> bool:
    return isinstance(v, Obj) and v.cls is None and v.label.startswith("<") and (name is None or v.label == f"<{name}>")


def inline_in(*classes_or_prefixes):
    """Inline policy: inline functions whose qualified name starts with one of the prefixes."""
    prefixes = tuple(classes_or_prefixes)

    def pol(fi: FunctionInfo, node):
        return fi.qualname.startswith(prefixes)

    return pol


def abstract_construct(p: Program, ci: ClassInfo, kwargs: Dict[str, Value], inline_prefixes=("indi.message.",), label=None, extra_opts=None):
    """Abstractly run ``ci(**kwargs)``: returns list of (path, obj) - obj.attrs is the abstract
    instance state after the ``__init__`` chain.  ``checks.*`` calls stay symbolic unless their
    prefix is inlined."""
    init = ci.find_method("__init__")
    results = []

    def run(it: Interp):
        o = Obj(ci, {"__closed__": Const(True)}, label=label or f"new:{ci.name}")
        it.created = o
        if init is not None:
            it.run_function(Fn(init, o), [], dict(kwargs))
        return o

    def pol(fi, node):
        if fi.qualname.startswith("indi.message.checks."):
            return "indi.message.checks." in inline_prefixes
        return fi.qualname.startswith(tuple(inline_prefixes))

    opts = {"inline": pol, "max_depth": 8}
    if extra_opts:
        opts.update(extra_opts)
    paths = explore(p, run, opts)
    for pa in paths:
        results.append((pa, pa.value if pa.outcome == "return" else getattr(pa.interp, "created", None)))
    return results


def full_kwargs(p: Program, ci: ClassInfo) -> Dict[str, Value]:
    sig = p.init_chain_signature(ci)
    return {n: sym(n) for n in sig.named()}


def own_statements(fi: FunctionInfo):
    return list(walk_no_nested(fi.node))


def find_calls(fi: FunctionInfo, attr: str = None, name: str = None) -> List[ast.Call]:
    out = []
    for n in walk_no_nested(fi.node):
        if isinstance(n, ast.Call):
            if attr is not None and isinstance(n.func, ast.Attribute) and n.func.attr == attr:
                out.append(n)
            elif name is not None and isinstance(n.func, ast.Name) and n.func.id == name:
                out.append(n)
    return out


class Loop(tuple):
    """(function, while node) of one receive loop as one concrete class runs it; ``owner`` is that class (None for a
    module-level function), ``short`` names the loop by its owner (where the body is defined does not matter) and
    ``self_val`` is the symbolic receiver to explore it with (methods it calls resolve on the owner)."""

    def __new__(cls, fi, wh, owner):
        o = super().__new__(cls, (fi, wh))
        o.owner = owner
        return o

    @property
    def short(self):
        fi = self[0]
        return f"{self.owner.short}.{fi.name}" if self.owner is not None else fi.short

    @property
    def self_val(self):
        from ..absint import Term
        fi = self[0]
        if self.owner is None:
            return None
        a = fi.node.args
        names = [x.arg for x in a.posonlyargs + a.args]
        return Term("param", names[0] if names else "self", hint=self.owner)


def _is_abstract(ci) -> bool:
    """A class that cannot be instantiated: one of the names its MRO declares abstract is still abstract when resolved."""
    for c in ci.mro:
        for n, m in c.methods.items():
            if any(d.split(".")[-1] == "abstractmethod" for d in getattr(m, "decorators", [])):
                r = ci.find_method(n)
                if r is None or any(d.split(".")[-1] == "abstractmethod" for d in getattr(r, "decorators", [])):
                    return True
    return False


def _loop_in(fi, resolve):
    for n in walk_no_nested(fi.node):
        if isinstance(n, ast.While):
            for m in ast.walk(n):
                if isinstance(m, ast.Await) and isinstance(m.value, ast.Call) and isinstance(m.value.func, ast.Attribute):
                    a = m.value.func.attr
                    if a in ("read", "readline", "readexactly", "readuntil"):
                        return n
                    # one-line wrapper on self (tty: self._read() -> await self.stdin.readline())
                    if resolve is not None and isinstance(m.value.func.value, ast.Name) and m.value.func.value.id == "self":
                        w = resolve(a)
                        if w is not None and w.is_async and any(isinstance(x, ast.Attribute) and x.attr in ("read", "readline", "readexactly", "readuntil") for x in ast.walk(w.node)):
                            return n
    return None


def receive_loops(p: Program) -> List[Loop]:
    """Role query: an ``async def`` that a concrete class under indi/transport runs (its own or inherited) with
    ``await <x>.read(...)`` / ``readline()`` (directly or through a wrapper method of the class) inside a ``while``.
    One entry per (concrete class, method): a loop written once in a shared base class counts for every class that
    runs it, with the hooks it calls resolved on that class."""
    out = []
    seen = set()
    for ci in p.classes.values():
        if not ci.module.name.startswith("indi.transport") or _is_abstract(ci):
            continue
        names = []
        for c in ci.mro:
            for n in c.methods:
                if n not in names:
                    names.append(n)
        for n in names:
            fi = ci.find_method(n)
            if fi is None or not fi.is_async:
                continue
            wh = _loop_in(fi, ci.find_method)
            if wh is not None and (ci.qualname, n) not in seen:
                seen.add((ci.qualname, n))
                out.append(Loop(fi, wh, ci))
    for fi in p.functions:
        if fi.cls is None and fi.module.name.startswith("indi.transport") and fi.is_async:
            wh = _loop_in(fi, None)
            if wh is not None:
                out.append(Loop(fi, wh, None))
    return out


def path_text(pa, limit=14) -> List[str]:
    return [repr(e) for e in pa.events if e.kind not in ("getprop", "loop-iter", "loop-back", "loop-enter")][:limit]


def backing_field(p: Program, ci, prop: str) -> str:
    """Name of the instance attribute a public read-only view returns: the first 'self.<attr>' mentioned in the
    return expression of property <prop> of class ci (e.g. Element.value -> the field that holds the value).
    Rules address private state through this, never through a literal private name."""
    if isinstance(ci, str):
        ci = p.cls(ci)
    g = ci.find_getter(prop)
    if g is None:
        raise Undecided(f"{ci.name} has no property '{prop}'")
    for st in walk_no_nested(g.node):
        if isinstance(st, ast.Return) and st.value is not None:
            for n in ast.walk(st.value):
                if isinstance(n, ast.Attribute) and isinstance(n.value, ast.Name) and n.value.id == "self":
                    return n.attr
    raise Undecided(f"property {ci.name}.{prop} does not return an attribute of self")


def public_get(it, obj, attr, frame=None):
    """Value of a public property/attribute of an abstract object, read by interpreting the getter."""
    from ..absint import Frame
    fr = frame or Frame(None, obj.cls.module, {})
    saved = dict(it.opts)
    base = it.opts.get("inline", lambda fi, node: False)
    it.opts["inline"] = lambda fi, node: fi.kind == "getter" or base(fi, node)
    n = len(it.events)
    try:
        return it.get_attr(obj, attr, None, fr)
    finally:
        del it.events[n:]
        it.opts.clear()
        it.opts.update(saved)
