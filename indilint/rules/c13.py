"""C13 - the parser accepts only protocol-conformant messages."""
from __future__ import annotations

from ..absint import Builtin, Cls, Const, Dct, Fn, Foreign, Interp, Lst, Obj, Term, Tup, explore, is_call, mentions, run_method, show
from ..model import ClassInfo, Undecided
from .. import protocol_tables as T
from ..reglang import Lang, included, stripped_lang
from .common import (
    abstract_construct, concrete_message_classes, concrete_part_classes, full_kwargs, is_registered, is_sym,
    lower_first, msg_base, part_base, sym,
)

EXPLANATION = (
    "Static check that every constrained field of every message/part class passes a guard whose accepted set is exactly the protocol "
    "vocabulary. C13.GUARD: each constructor chain is abstractly interpreted; the stored attribute of every constrained field (protocol "
    "table: state, perm, rule, enableBLOB value, switch/light value, number value) must be checks.dictionary(<param>, <the right "
    "vocabulary class>) or checks.number(<param>). C13.VOCAB: checks.dictionary is abstractly evaluated for every vocabulary class on "
    "the class namespace as CPython builds it (declared members plus __module__, __doc__, descriptors) with probe values: every declared "
    "member must be accepted; None, the module path, the docstring, wrong-case and foreign strings must raise; declared members must equal "
    "the INDI vocabulary. C13.RAISE: each guard returns its argument or raises, on every path. C13.REQUIRED: protocol-required attributes "
    "are parameters without default in the effective signature. C13.CHILD: children pass checks.children against the child class the "
    "protocol prescribes. C13.NUM: L(number validator) restricted to stripped text is included in the INDI number syntax (DFA inclusion). "
    "C13.UNKNOWN: both from_xml implementations raise for a tag that matches no class."
)
NOT_DECIDED = "random XML beyond the modelled constructors (e.g. attribute values that are valid vocabulary members but semantically wrong)."
ASSUMPTIONS = [
    "from_xml passes XML attributes as keyword arguments, so a missing required parameter is a TypeError (decided by C03.READ)",
    "CPython class namespaces contain __module__, __doc__, __dict__ and __weakref__ entries besides the declared members",
]
TRUSTED = ["CPython ast", "re._parser", "indilint abstract interpreter and reglang DFA inclusion"]

INLINE = (
    "indi.message.base.", "indi.message.defs.", "indi.message.sets.", "indi.message.news.", "indi.message.def_parts.",
    "indi.message.one_parts.", "indi.message.get_properties.", "indi.message.enable_blob.", "indi.message.del_property.",
    "indi.message.pings.", "indi.message.one_light.",
)


def _const_cls(p, name) -> ClassInfo:
    return p.cls(f"indi.message.const.{name}")


def _match_tagspec(spec: str, tag: str) -> bool:
    if "*" in spec:
        pre, post = spec.split("*")
        return tag.startswith(pre) and tag.endswith(post) and len(tag) > len(pre) + len(post)
    return spec == tag


def _constructed(ctx, ci):
    res = abstract_construct(ctx.p, ci, full_kwargs(ctx.p, ci), inline_prefixes=INLINE)
    ctx.paths_enumerated += len(res)
    for pa, o in res:
        if pa.outcome == "return":
            return o
    raise Undecided(f"cannot construct {ci.name}")


def _constructed_all(ctx, ci, fields=()):
    """The object on every returning path of the constructor chain (a guard applied on some paths only is no guard)."""
    kw = full_kwargs(ctx.p, ci)
    for k in fields:
        if k in kw:
            # the constrained inputs are arbitrary: absent (None), empty or any text - their truthiness is open
            kw[k] = Obj(None, {"__truth_unknown__": Const(True)}, label=f"<{k}>")
    res = abstract_construct(ctx.p, ci, kw, inline_prefixes=INLINE)
    ctx.paths_enumerated += len(res)
    out = [o for pa, o in res if pa.outcome == "return"]
    if not out:
        raise Undecided(f"cannot construct {ci.name}")
    return out


def _guard_of(v):
    """(function qualname, first arg, second arg) of a checks.* call term, else None."""
    if isinstance(v, Term) and v.op == "call" and isinstance(v.args[0], Fn) and v.args[0].fi.module.name == "indi.message.checks":
        fi = v.args[0].fi
        names = [x.arg for x in fi.node.args.posonlyargs + fi.node.args.args]
        a = list(v.args[1])
        kw = dict(v.args[2]) if len(v.args) > 2 else {}
        # bound as the call binds them: positionally, then by parameter name
        bound = [a[i] if i < len(a) else kw.get(names[i]) if i < len(names) else None for i in range(2)]
        return fi.name, bound[0], bound[1]
    return None


def rule_guard(ctx):
    p = ctx.p
    classes = [c for c in concrete_message_classes(p)] + concrete_part_classes(p)
    n = 0
    for ci in classes:
        tag = lower_first(ci.name)
        is_part = part_base(p) in ci.mro
        wanted = {}
        for (spec, field), vocab in T.FIELD_VOCAB.items():
            spec_is_part = not spec.endswith("Vector") and spec != "enableBLOB"
            if spec_is_part != is_part:
                continue  # the top-level oneLight message class shares its tag with the part
            if _match_tagspec(spec, tag):
                if field == "perm" and tag == "defLightVector":
                    continue
                wanted[field] = vocab
        for (ptag, field) in T.NUMBER_FIELDS:
            if ptag == tag and is_part:
                wanted[field] = "#number"
        if not wanted:
            continue
        try:
            objs = _constructed_all(ctx, ci, tuple(wanted))
        except Undecided as u:
            ctx.undecided("C13.GUARD", ci.short, str(u), ci=ci)
            continue
        for field, vocab in sorted(wanted.items()):
            n += 1
            inst = f"{ci.short}.{field}"
            # the path that stores the field least guarded decides (unchecked beats missing beats guarded)
            vs = [o.attrs.get(field) for o in objs]
            unguarded = [x for x in vs if x is not None and _guard_of(x) is None]
            v = unguarded[0] if unguarded else (None if any(x is None for x in vs) else vs[0])
            if v is None:
                ctx.violated("C13.GUARD", inst, f"constrained field '{field}' is not stored by the constructor", ci=ci, text=f"{ci.name}.{field}:missing")
                continue
            g = _guard_of(v)
            if g is None:
                ctx.violated("C13.GUARD", inst, f"'{field}' is stored unchecked ({show(v)[:60]})" + (f" on {len(unguarded)} of {len(vs)} constructor paths: the inputs that take such a path (e.g. an absent or empty value) are accepted without the vocabulary test" if len(unguarded) < len(vs) else ": any text is accepted"), ci=ci, text=f"{ci.name}.{field}:unchecked", witness=f'<{tag} {field}="bogus">' if field != "value" else f"<{tag}>bogus</{tag}>")
                continue
            fn, a0, a1 = g
            if not is_sym(a0, field):
                ctx.violated("C13.GUARD", inst, f"the guard checks {show(a0)} instead of the '{field}' parameter", ci=ci, text=f"{ci.name}.{field}:wrong-arg")
                continue
            if vocab == "#number":
                ctx.check(fn == "number", "C13.GUARD", inst, "checks.number(value)", f"number value is guarded by checks.{fn}, not checks.number", ci=ci, text=f"{ci.name}.{field}:guard")
            else:
                want = _const_cls(p, vocab)
                ok = fn == "dictionary" and isinstance(a1, Cls) and a1.ci is want
                ctx.check(ok, "C13.GUARD", inst, f"checks.dictionary({field}, {vocab})", f"'{field}' is checked against {show(a1) if a1 is not None else fn} instead of the {vocab} vocabulary", ci=ci, text=f"{ci.name}.{field}:vocab", witness=f"a member of {show(a1) if a1 is not None else '?'} that is not in {vocab}")
    ctx.floor("C13.GUARD", "constrained fields", n, 22)


def _dictionary_fn(p):
    return p.func("indi.message.checks.dictionary")


def _eval_dictionary(ctx, vocab_ci, probe):
    f = _dictionary_fn(ctx.p)

    def run(it: Interp):
        return it.run_function(Fn(f), [probe, Cls(vocab_ci)], {})

    # helper functions of the checks module (e.g. a cached vocabulary builder) are part of the guard
    paths = explore(ctx.p, run, {"inline": lambda fi, node: fi.module.name == "indi.message.checks" and fi is not f})
    ctx.paths_enumerated += len(paths)
    outcomes = {pa.outcome for pa in paths}
    if len(paths) != 1:
        return "undecided", paths
    return paths[0].outcome, paths


def rule_vocab(ctx):
    p = ctx.p
    n = 0
    for vname, proto_members in sorted(T.VOCAB_MEMBERS.items()):
        ci = _const_cls(p, vname)
        declared = {k: v for k, v in p.vocabulary(ci).items()}
        dset = {v for v in declared.values() if isinstance(v, str)}
        ctx.check(dset == set(proto_members), "C13.VOCAB", f"{ci.short} members", f"declared = protocol = {sorted(dset)}", f"declared members {sorted(dset)} differ from the INDI vocabulary {sorted(proto_members)}", ci=ci, text=f"{vname}:members")
        import ast as _ast
        doc = _ast.get_docstring(ci.node)
        probes = [(Const(m), True, f"member {m!r}") for m in sorted(dset)]
        probes += [
            (Const(None), False, "None (absent value)"),
            (Const(ci.module.name), False, f"module path {ci.module.name!r}"),
            (Const(ci.qualname), False, "qualified class name"),
            (Const("bogus"), False, "foreign string"),
            (Const(""), False, "empty string"),
            (Const(0), False, "integer 0"),
        ]
        if doc:
            probes.append((Const(doc), False, "the class docstring"))
        for m in sorted(dset):
            for wc in {m.lower(), m.upper()} - dset:
                probes.append((Const(wc), False, f"wrong-case {wc!r}"))
        for other, om in T.VOCAB_MEMBERS.items():
            for m in sorted(om - dset):
                probes.append((Const(m), False, f"member of {other} {m!r}"))
        bad = False
        for probe, should_accept, what in probes:
            n += 1
            outcome, paths = _eval_dictionary(ctx, ci, probe)
            if outcome == "undecided":
                ctx.undecided("C13.VOCAB", f"{_dictionary_fn(p).short}[{vname}]", f"membership of {what} not decided by constant evaluation", fi=_dictionary_fn(p))
                bad = True
                continue
            accepted = outcome == "return"
            if accepted != should_accept:
                bad = True
                if accepted:
                    ctx.violated("C13.VOCAB", f"{_dictionary_fn(p).short}[{vname}]", f"{what} is accepted as a member of {vname}", fi=_dictionary_fn(p), text=f"{vname}:accepts:{what}", witness=probe.v)
                else:
                    ctx.violated("C13.VOCAB", f"{_dictionary_fn(p).short}[{vname}]", f"{what} is rejected", fi=_dictionary_fn(p), text=f"{vname}:rejects:{what}", witness=probe.v)
        if not bad:
            ctx.holds("C13.VOCAB", f"{_dictionary_fn(p).short}[{vname}]", f"accepted set = declared members ({len(probes)} probes)", fi=_dictionary_fn(p))
    ctx.floor("C13.VOCAB", "probe evaluations", n, 60)
    ctx.exhaustive_domains.append("every vocabulary class x (declared members + implicit namespace entries + foreign/wrong-case/other-vocabulary probes)")


def rule_raise(ctx):
    p = ctx.p
    # dictionary: symbolic value
    f = _dictionary_fn(p)
    for vname in sorted(T.VOCAB_MEMBERS):
        ci = _const_cls(p, vname)
        paths = run_method(p, f, args=[Term("param", "value"), Cls(ci)], opts={"inline": lambda fi, node: fi.module.name == "indi.message.checks" and fi is not f})
        ctx.paths_enumerated += len(paths)
        ok = len(paths) >= 2 and any(pa.outcome == "raise" for pa in paths) and any(pa.outcome == "return" for pa in paths)
        for pa in paths:
            if pa.outcome == "return" and show(pa.value) != "value":
                ok = False
        ctx.check(ok, "C13.RAISE", f"{f.short}[{vname}]", "returns its argument or raises", "checks.dictionary does not return its first argument unchanged / never raises", fi=f, text=f"dictionary:{vname}")
    # children: evaluated on concrete lists of parts (good = an instance of the required class or of a subclass)
    f = p.func("indi.message.checks.children")
    req = p.cls("indi.message.one_parts.OneText")
    other = p.cls("indi.message.one_parts.OneNumber")
    from ..absint import Lst as _Lst, Tup as _Tup, explore as _explore, Interp as _Interp

    def mk(ci_, i):
        return Obj(ci_, {"name": Const(f"n{i}"), "__closed__": Const(True)}, label=f"part{i}:{ci_.name}")

    cases = [("all of the required kind", ["g", "g", "g"], "same"), ("one child", ["g"], "same"), ("no children", [], "same"), ("absent (None)", None, "empty"),
             ("a foreign child last", ["g", "g", "b"], "raise"), ("a foreign child first", ["b", "g"], "raise"), ("a foreign child in the middle", ["g", "b", "g"], "raise"), ("only a foreign child", ["b"], "raise")]
    ok = True
    why = None
    for as_tuple in (False, True):
        for label, shape, want in cases:
            def run(it: _Interp):
                if shape is None:
                    it.arg = Const(None)
                else:
                    items = [mk(req if s_ == "g" else other, i) for i, s_ in enumerate(shape)]
                    it.arg = (_Tup if as_tuple else _Lst)(items)
                return it.run_function(Fn(f), [it.arg, Cls(req)], {})

            paths = _explore(p, run, {"inline": lambda fi, node: fi.module.name == "indi.message.checks"})
            ctx.paths_enumerated += len(paths)
            if len(paths) != 1:
                ok, why = False, f"[{label}] not decided by constant evaluation ({len(paths)} paths)"
                continue
            pa = paths[0]
            if want == "raise":
                good = pa.outcome == "raise"
            elif want == "same":
                good = pa.outcome == "return" and pa.value is pa.interp.arg
            else:
                good = pa.outcome == "return" and isinstance(pa.value, (_Lst, _Tup)) and not pa.value.items
            if not good:
                ok, why = False, f"[{label}; {'tuple' if as_tuple else 'list'}] checks.children {'returns ' + show(pa.value)[:40] if pa.outcome == 'return' else 'raises'}, expected {'a ValueError' if want == 'raise' else ('its argument unchanged' if want == 'same' else 'an empty sequence')}"
    ctx.check(ok, "C13.RAISE", f.short, f"{2 * len(cases)} concrete child lists: every child is type-tested; a foreign child raises wherever it stands; otherwise the argument is returned unchanged", f"checks.children lets a child of the wrong kind through (or does not return its argument): {why}", fi=f, text="children")
    # number: returns the argument when some pattern matches, raises otherwise
    f = p.func("indi.message.checks.number")
    paths = run_method(p, f, args=[Term("param", "value")])
    ctx.paths_enumerated += len(paths)
    ok = any(pa.outcome == "raise" for pa in paths)
    for pa in paths:
        if pa.outcome == "return":
            s = show(pa.value)
            if s not in ("value", "None"):
                ok = False
    ctx.check(ok, "C13.RAISE", f.short, "returns its argument (or None for None) or raises", "checks.number does not return its argument unchanged / never raises", fi=f, text="number")


def number_validator_lang(ctx) -> Lang:
    """The language accepted by checks.number, read from the re.match/fullmatch calls on its paths."""
    p = ctx.p
    f = p.func("indi.message.checks.number")
    paths = run_method(p, f, args=[Term("param", "value")])
    pats, mode = [], None
    for pa in paths:
        for e in pa.events:
            if e.kind == "call" and e.data.get("regex"):
                pat, m, subj = e.data["regex"]
                if show(subj) in ("str(value)", "value"):
                    if m == "search":
                        raise Undecided("re.search in the number validator")
                    if mode not in (None, m):
                        raise Undecided("mixed match modes")
                    mode = m
                    if pat not in pats:
                        pats.append(pat)
    if not pats:
        raise Undecided("no regex literal found in checks.number")
    # the raise must be guarded by 'no pattern matched' over exactly these calls
    return Lang(pats, mode=mode, name="checks.number"), pats


def rule_num(ctx):
    p = ctx.p
    f = p.func("indi.message.checks.number")
    V, pats = number_validator_lang(ctx)
    ctx.floor("C13.NUM", "validator regex literals", len(pats), 1)
    R = Lang([T.NUM_PERMISSIVE_REFERENCE], mode="fullmatch", name="INDI number syntax (permissive)")
    ok, wit, stats = included(V, R, restrict=stripped_lang())
    ctx.sample({"rule": "C13.NUM", "patterns": pats, "stats": stats, "witness": wit})
    ctx.check(ok, "C13.NUM", f.short, f"L(validator) restricted to stripped text is inside the INDI number syntax ({stats})", "the validator accepts text that is not an INDI number", fi=f, text=f"accepts:{wit!r}", witness=wit)
    for i, pat in enumerate(pats):
        okp, w, _ = included(Lang([pat], V.mode), R, restrict=stripped_lang())
        ctx.check(okp, "C13.NUM", f"{f.short}#regex{i}", pat, f"alternative {pat!r} accepts non-number text", fi=f, text=f"regex:{pat}", witness=w)


def rule_required(ctx):
    p = ctx.p
    n = 0
    for ci in concrete_message_classes(p):
        tag = lower_first(ci.name)
        req = T.REQUIRED.get(tag)
        if req is None:
            if tag in T.ADVISORY_TOPLEVEL:
                continue
            ctx.undecided("C13.REQUIRED", ci.short, f"<{tag}> is not in the protocol table", ci=ci)
            continue
        sig = p.init_chain_signature(ci)
        have = set(sig.required())
        named = sig.named()
        for a in req:
            n += 1
            if a not in named:
                ctx.violated("C13.REQUIRED", f"{ci.short}.{a}", f"protocol-required attribute '{a}' is not a constructor parameter of <{tag}>: its absence cannot be detected", ci=ci, text=f"{tag}.{a}:noparam")
            else:
                ctx.check(a in have, "C13.REQUIRED", f"{ci.short}.{a}", "required parameter", f"protocol-required attribute '{a}' of <{tag}> has a default: a message without it is accepted", ci=ci, text=f"{tag}.{a}:default", witness=f"<{tag}> without {a}=")
    for pc in concrete_part_classes(p):
        tag = lower_first(pc.name)
        req = T.REQUIRED_PART.get(tag)
        if req is None:
            ctx.undecided("C13.REQUIRED", pc.short, f"part <{tag}> is not in the protocol table", ci=pc)
            continue
        sig = p.init_chain_signature(pc)
        have = set(sig.required())
        for a in req:
            n += 1
            ctx.check(a in have, "C13.REQUIRED", f"{pc.short}.{a}", "required parameter", f"protocol-required attribute '{a}' of <{tag}> has a default or is no parameter", ci=pc, text=f"{tag}.{a}:default", witness=f"<{tag}> without {a}=")
    ctx.floor("C13.REQUIRED", "required attributes", n, 60)


def rule_child(ctx):
    p = ctx.p
    n = 0
    parts = {lower_first(c.name): c for c in concrete_part_classes(p)}
    for ci in concrete_message_classes(p):
        tag = lower_first(ci.name)
        want = T.CHILD_KIND.get(tag)
        if want is None:
            continue
        n += 1
        try:
            o = _constructed(ctx, ci)
        except Undecided as u:
            ctx.undecided("C13.CHILD", ci.short, str(u), ci=ci)
            continue
        v = o.attrs.get("children")
        g = _guard_of(v) if v is not None else None
        if g is None or g[0] != "children" or not is_sym(g[1], "children"):
            ctx.violated("C13.CHILD", ci.short, f"children are stored without checks.children ({show(v)[:60] if v is not None else 'not stored'})", ci=ci, text=f"{tag}:children-unchecked", witness=f"<{tag}> with a child of another kind")
            continue
        a1 = g[2]
        ok = isinstance(a1, Cls) and a1.ci is parts.get(want)
        ctx.check(ok, "C13.CHILD", ci.short, f"children checked against {want}", f"children of <{tag}> are checked against {show(a1) if a1 is not None else None}, the protocol requires <{want}>", ci=ci, text=f"{tag}:child-kind", witness=f"<{tag}><{lower_first(a1.ci.name) if isinstance(a1, Cls) else '?'}/></{tag}>")
    ctx.floor("C13.CHILD", "vector message classes", n, 14)
    # the kind test is an isinstance test: it tells the kinds apart only while no element class derives from another
    # (an element of the derived kind is an instance of the base kind and passes wherever the base kind is required)
    bad = False
    for wtag, w in sorted(parts.items()):
        for xtag, x in sorted(parts.items()):
            if x is not w and w in x.mro:
                users = sorted(t for t, k in T.CHILD_KIND.items() if k == wtag)
                ctx.violated("C13.CHILD", w.short, f"element class {x.name} derives from {w.name}: a <{xtag}> child passes the kind test of {users or 'every vector requiring ' + wtag} although the protocol requires <{wtag}> there", ci=x, text=f"kind-subsumed:{xtag}<{wtag}", witness=f"<{users[0] if users else '?'}><{xtag} .../></{users[0] if users else '?'}>")
                bad = True
    if not bad:
        ctx.holds("C13.CHILD", "element classes", f"no element class derives from another ({len(parts)} classes): isinstance tells the kinds apart")


def rule_unknown(ctx):
    from .c03 import check_unknown
    check_unknown(ctx, "C13.UNKNOWN")


EXPLANATION = EXPLANATION + ' C13.CHILD also requires that no element class derives from another: the kind test is an isinstance test, an element of a derived kind would pass wherever the base kind is required.'

RULES = [
    ("C13.GUARD", rule_guard, "every constrained field is stored through checks.dictionary(<field>, <right vocabulary>) / checks.number"),
    ("C13.VOCAB", rule_vocab, "the guard's accepted set equals the declared vocabulary (class-namespace model, probe evaluation); declared = INDI vocabulary"),
    ("C13.RAISE", rule_raise, "each guard returns its argument or raises; checks.children tests every child"),
    ("C13.NUM", rule_num, "L(number validator) on stripped text is included in the INDI number syntax"),
    ("C13.REQUIRED", rule_required, "protocol-required attributes are parameters without default"),
    ("C13.CHILD", rule_child, "children pass checks.children against the protocol's child kind"),
    ("C13.UNKNOWN", rule_unknown, "from_xml raises when no class matches the tag"),
]
