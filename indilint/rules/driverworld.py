"""Abstract driver-side objects (driver, group, vectors, elements) for constant evaluation."""
from __future__ import annotations

from ..absint import Cls, Const, Dct, Lst, Obj, Term
from ..model import Program

IE = "indi.device.properties.instance.elements"
IV = "indi.device.properties.instance.vectors"
KIND_VALUE = {"Number": Const(1.5), "Text": Const("txt"), "Switch": Const("Off"), "Light": Const("Ok"), "BLOB": Const(None)}


def make_vector(p: Program, kind: str, name="V1", enabled=True, group_enabled=True, elements=(("first", "A", True), ("second", "B", True)), device=None, rule="AnyOfMany"):
    vcls = p.cls(f"{IV}.{kind}Vector")
    ecls = p.cls(f"{IE}.{kind}")
    drv = device or Obj(p.cls("indi.device.driver.Driver"), {"_name": Const("DEV"), "_router": Const(None)}, label="driver")
    gdef = Obj(None, {"name": Const("GRP"), "enabled": Const(True)}, label="gdef")
    grp = Obj(p.cls("indi.device.properties.instance.group.Group"), {"_device": drv, "_definition": gdef, "_enabled": Const(group_enabled)}, label="group")
    vdef = Obj(None, {"name": Const(name), "label": Const(name), "perm": Const("rw"), "timeout": Const(0), "state": Const("Ok"), "rule": Const(rule)}, label=f"vdef:{name}")
    vec = Obj(vcls, {"_definition": vdef, "_group": grp, "_enabled": Const(enabled), "_state": Const("Ok")}, label=f"vec:{name}")
    els = []
    for key, wire, en in elements:
        edef = Obj(None, {"name": Const(wire), "label": Const(wire), "format": Const("%f"), "min": Const(0), "max": Const(0), "step": Const(0)}, label=f"edef:{wire}")
        e = Obj(ecls, {"_vector": vec, "_definition": edef, "_value": KIND_VALUE[kind], "_enabled": Const(en)}, label=f"el:{name}.{wire}")
        els.append((key, wire, e))
    vec.attrs["_elements"] = Dct([(Const(k), e) for k, w, e in els])
    vec.attrs["_elements_by_name"] = Dct([(Const(w), e) for k, w, e in els])
    return drv, grp, vec, [e for _, _, e in els]


def make_driver(p: Program, vectors):
    """vectors: list of (kind, name, enabled) -> driver Obj with _vectors table."""
    drv = Obj(p.cls("indi.device.driver.Driver"), {"_name": Const("DEV"), "_router": Obj(None, label="<router>")}, label="driver")
    table = Dct(label="driver._vectors")
    vecs = {}
    for kind, name, enabled in vectors:
        _, _, vec, els = make_vector(p, kind, name=name, enabled=enabled, device=drv)
        table.set(Const(name), vec)
        vecs[name] = (vec, els)
    drv.attrs["_vectors"] = table
    return drv, vecs
