"""Abstract driver-side objects (driver, group, vectors, elements) for constant evaluation."""
from __future__ import annotations

from ..absint import Cls, Const, Dct, Lst, Obj, Term, Tup, show
from ..model import Program

IE = "indi.device.properties.instance.elements"
IV = "indi.device.properties.instance.vectors"
KIND_VALUE = {"Number": Const(1.5), "Text": Const("txt"), "Switch": Const("Off"), "Light": Const("Ok"), "BLOB": Const(None)}


def make_vector(p: Program, kind: str, name="V1", enabled=True, group_enabled=True, elements=(("first", "A", True), ("second", "B", True)), device=None, rule="AnyOfMany"):
    vcls = p.cls(f"{IV}.{kind}Vector")
    ecls = p.cls(f"{IE}.{kind}")
    drv = device or Obj(p.cls("indi.device.driver.Driver"), {"_name": Const("DEV"), "_router": Const(None)}, label="driver")
    gdef = Obj(None, {"name": Const("GRP"), "enabled": Const(True)}, label="gdef")
    grp = Obj(p.cls("indi.device.properties.instance.group.Group"), {"_device": drv, "_definition": gdef, "_enabled": Const(group_enabled)}, label="group")
    vdef = Obj(None, {"name": Const(name), "label": Const(name), "perm": Const("rw"), "timeout": Const(0), "state": Const("Ok"), "rule": Const(rule)}, label=f"vdef:{name}")
    vec = Obj(vcls, {"_definition": vdef, "_group": grp, "_enabled": Const(enabled), "_state": Const("Ok")}, label=f"vec:{name}")
    els = []
    for key, wire, en in elements:
        edef = Obj(None, {"name": Const(wire), "label": Const(wire), "format": Const("%f"), "min": Const(0), "max": Const(0), "step": Const(0)}, label=f"edef:{wire}")
        e = Obj(ecls, {"_vector": vec, "_definition": edef, "_value": KIND_VALUE[kind], "_enabled": Const(en)}, label=f"el:{name}.{wire}")
        els.append((key, wire, e))
    vec.attrs["_elements"] = Dct([(Const(k), e) for k, w, e in els])
    vec.attrs["_elements_by_name"] = Dct([(Const(w), e) for k, w, e in els])
    return drv, grp, vec, [e for _, _, e in els]


def make_driver(p: Program, vectors):
    """vectors: list of (kind, name, enabled) -> driver Obj with _vectors table."""
    drv = Obj(p.cls("indi.device.driver.Driver"), {"_name": Const("DEV"), "_router": Obj(None, label="<router>")}, label="driver")
    table = Dct(label="driver._vectors")
    vecs = {}
    for kind, name, enabled in vectors:
        _, _, vec, els = make_vector(p, kind, name=name, enabled=enabled, device=drv)
        table.set(Const(name), vec)
        vecs[name] = (vec, els)
    drv.attrs["_vectors"] = table
    return drv, vecs


# ---------------------------------------------------------------------------------------------------------
# Drivers built by abstractly running the real machinery (definition constructors in a class body, the
# metaclass, Driver.__init__ and the instance constructors) on an analysis-only synthetic module.
SYN_DEVICES_SRC = '''
from indi.device import Driver, properties


class DevA(Driver):
    main = properties.Group(
        "MAIN",
        vectors=dict(
            text=properties.TextVector("V1", elements=dict(first=properties.Text("A"), second=properties.Text("B"))),
            number=properties.NumberVector("V2", elements=dict(first=properties.Number("A"), second=properties.Number("B", format="%5.2f"))),
            light=properties.LightVector("V22", elements=dict(first=properties.Light("A"))),
            switch=properties.SwitchVector(
                "V3", rule="AnyOfMany", elements=dict(first=properties.Switch("A"), second=properties.Switch("B"))
            ),
            blob=properties.BLOBVector("V4", elements=dict(first=properties.BLOB("A"), second=properties.BLOB("B"))),
            hidden=properties.TextVector("V5", enabled=False, elements=dict(first=properties.Text("A"), second=properties.Text("B"))),
        ),
    )


class DevB(Driver):
    aux = properties.Group(
        "AUX",
        vectors=dict(
            info=properties.TextVector("V1", elements=dict(first=properties.Text("Z"))),
            other=properties.NumberVector("W9", elements=dict(first=properties.Number("Z"))),
        ),
    )
'''
SYN_DEVICES_MOD = "indilint_synthetic.devices"


def _reachable_objs(root):
    seen, order, todo = set(), [], [root]
    while todo:
        x = todo.pop(0)
        if id(x) in seen:
            continue
        seen.add(id(x))
        if isinstance(x, Obj):
            order.append(x)
            todo.extend(x.attrs.values())
        elif isinstance(x, Dct):
            for k, v in x.pairs:
                todo.append(k)
                todo.append(v)
        elif isinstance(x, (Lst, Tup)):
            todo.extend(x.items)
    return order


def label_world(it, p, drivers, fr):
    """Readable labels (vec:<device>.<name>, el:<device>.<vector>.<name>) read through the public 'name' and
    'vector' properties of the constructed objects, so verdicts do not depend on private attribute names."""
    from ..model import Undecided
    vbase = p.cls(f"{IV}.Vector")
    ebase = p.cls(f"{IE}.Element")

    def public(o, attr):
        v = it.get_attr(o, attr, None, fr)
        return v

    for dname, d in drivers.items():
        for o in _reachable_objs(d):
            if o.cls is None:
                continue
            if vbase in o.cls.mro:
                n = public(o, "name")
                if not isinstance(n, Const):
                    raise Undecided(f"constructed vector has no constant public name ({show(n)})")
                o.label = f"vec:{dname}.{n.v}"
            elif ebase in o.cls.mro:
                n = public(o, "name")
                v = public(o, "vector")
                vn = public(v, "name") if isinstance(v, Obj) else None
                if not isinstance(n, Const) or not isinstance(vn, Const):
                    raise Undecided("constructed element has no constant public name / vector name")
                o.label = f"el:{dname}.{vn.v}.{n.v}"


def build_drivers(it, p, names=(("DevA", "DEVA"), ("DevB", "DEVB")), router=None, src=None, extra_classes=()):
    """-> {device name: driver Obj}.  Every object is produced by interpreting repository code."""
    import ast
    import hashlib
    from ..absint import Cls, Fn, Frame, Tup
    from ..model import Undecided

    modname = SYN_DEVICES_MOD if src is None else SYN_DEVICES_MOD + "_" + hashlib.md5(src.encode()).hexdigest()[:10]
    if modname not in p.modules:
        p.add_synthetic_module(modname, src if src is not None else SYN_DEVICES_SRC)
    mod = p.modules[modname]
    drv = p.cls("indi.device.driver.Driver")
    meta = p.cls("indi.device.driver.DriverMeta")
    gdef = p.cls("indi.device.properties.definition.group.Group")
    new = meta.methods.get("__new__")
    if new is None:
        raise Undecided("DriverMeta.__new__ not found")
    saved = dict(it.opts)
    base_inline = it.opts.get("inline", lambda fi, node: False)

    def pol(fi, node):
        m = fi.module.name
        if fi.name == "attach_event_handlers":
            return False
        return m.startswith("indi.device.") or m == modname or base_inline(fi, node)

    it.opts["inline"] = pol
    it.opts["instantiate"] = lambda ci: ci.module.name.startswith("indi.device.") or ci.module.name == modname
    it.opts["max_depth"] = 16
    it.opts["call_may_raise"] = None
    it.opts["assert_forks"] = False
    it.opts.pop("max_for", None)
    # the world is made of constants: a loop over something the interpreter does not know is "not decided", never a
    # basis for a verdict (an unmodelled library call would otherwise yield a world with parts silently missing)
    it.opts["concrete_only"] = True
    fr = Frame(None, mod, {})
    out = {}
    try:
        classes = [drv] + [p.cls(c if "." in c else f"{modname}.{c}") for c in extra_classes] + [p.cls(f"{modname}.{c}") for c, _ in names]
        for ci in classes:
            ns = Dct(label=f"{ci.name}.namespace")
            ns.set(Const("__module__"), Const(ci.module.name))
            ns.set(Const("__qualname__"), Const(ci.name))
            for k, e in ci.class_attrs.items():
                is_group = isinstance(e, ast.Call) and p.resolve_class(ci.module, e.func) is gdef
                if is_group:
                    ns.set(Const(k), it.eval(e, Frame(None, ci.module, {})))
                else:
                    ns.set(Const(k), Obj(None, label=f"<{ci.name}.{k}>"))
            for k in list(ci.methods) + list(ci.getters):
                ns.set(Const(k), Obj(None, label=f"<{ci.name}.{k}>"))
            before = {k.v: v for k, v in ns.pairs if isinstance(k, Const)}
            it.run_function(Fn(new), [Cls(meta), Const(ci.name), Tup([Cls(b) for b in ci.bases]), ns], {})
            # whatever the metaclass adds to the class namespace becomes a class-level object of that class
            added = [(k.v, v) for k, v in ns.pairs if isinstance(k, Const) and before.get(k.v) is not v]
            if not added:
                raise Undecided("DriverMeta.__new__ adds nothing to the class namespace (no group-definition table)")
            for k, v in added:
                it.heap[("cls:" + ci.qualname, k)] = v
        for cname, dname in names:
            ci = p.cls(f"{modname}.{cname}")
            d = it.apply(Cls(ci), [], {"name": Const(dname), "router": router if router is not None else Const(None)}, [], None, fr, False)
            if not isinstance(d, Obj):
                raise Undecided(f"construction of {cname} did not yield an abstract object")
            d.label = f"driver:{dname}"
            out[dname] = d
        label_world(it, p, out, fr)
        del it.events[:]
        return out
    finally:
        it.opts.clear()
        it.opts.update(saved)
        if saved.get("concrete_only") is not False:
            it.opts["concrete_only"] = True  # what is evaluated on the constructed world stays within constant evaluation
