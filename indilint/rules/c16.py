"""C16 - client change events are complete and exact."""
from __future__ import annotations

import ast
import itertools

from ..absint import Cls, Const, Dct, Fn, Foreign, Interp, Lst, Obj, Term, explore, is_call, run_method, show
from ..model import Undecided, walk_no_nested
from .common import public_get
from .clientworld import build_mirror, client_opts, delivered_events, event_summary, feed, make_callback, make_client, msg, part, snapshot

EXPLANATION = (
    'C16.FILTER: _CallbackConfig.accepts_event is evaluated exhaustively over filter (absent / equal / different) for device, vector and element '
    'x event kind (value / state / definition update: which fields the event carries) x event-type filter (4 classes): accepted iff every given '
    'filter equals a carried field and the event is an instance of the type. C16.RM: rmonevent is evaluated over all 2^6 combinations of its six '
    'criteria on a registry of four configurations: exactly the configurations matching every given criterion are removed, from a snapshot. '
    'C16.CONTAIN: trigger_event is interpreted with three accepting callbacks where each may raise: every callback is invoked exactly once with '
    'the event on every path and nothing escapes. C16.REGISTRY: the callbacks list is written only by onevent (append of the new configuration, '
    'returning its uuid), rmonevent (remove) and the constructor, is never rebound while trigger_event walks the live list, and trigger_event '
    'reads it at dispatch time. C16.IFF: abstract message streams (as in C15) are fed to a client with one catch-all callback: for every update '
    'step the delivered ValueUpdate/StateUpdate events are exactly the changes between the mirror before and after, each once, with old = '
    'previous mirror value and new = current value; a definition raises DefinitionUpdate. C16.ATOMIC: for every client element class, on every '
    'path of process_message that raises while decoding or validating an update (int()/float() of attacker text, b64decode, assertions) the '
    "element's public value is still the old one - the element is taken from a mirror the real client code built. C16.CHAIN: on re-definition of "
    "an existing property the events' old values must be the previous mirror values and unchanged values must raise nothing."
    ' C16.ATOMIC also covers the property state: on every raising path of an update (a child failing to decode) a state that has already been replaced must have been announced by a StateUpdate.'
    ' C16.CONTAIN[mixed]: with plain and coroutine callbacks registered alternately, the plain ones are called inside trigger_event and each scheduled task, run after trigger_event has returned (closures late-bound), invokes its own callback once with the event.'
)
NOT_DECIDED = "the chain property over all streams (it follows per step from IFF+CHAIN); callbacks registered or removed during dispatch."
ASSUMPTIONS = ["callbacks do not mutate the registry while trigger_event iterates it (outside the property's quantifier)"]
TRUSTED = ["CPython ast", "indilint abstract interpreter"]


def rule_filter(ctx):
    p = ctx.p
    cfgc = p.cls("indi.client.client._CallbackConfig")
    f = cfgc.find_method("accepts_event")
    ev_classes = {k: p.cls(f"indi.client.events.{k}") for k in ("BaseEvent", "ValueUpdate", "StateUpdate", "DefinitionUpdate")}
    names = {"device": "D", "vector": "V", "element": "E"}
    carried = {"ValueUpdate": ("device", "vector", "element"), "StateUpdate": ("device", "vector"), "DefinitionUpdate": ("device", "vector"), "BaseEvent": ()}
    rows = 0
    bad = False
    for ek in ("ValueUpdate", "StateUpdate", "DefinitionUpdate", "BaseEvent"):
        for et in ev_classes:
            for fd, fv, fe in itertools.product(("absent", "equal", "different"), repeat=3):
                rows += 1

                def run(it: Interp):
                    def fval(field, mode):
                        return Const(None) if mode == "absent" else Const(names[field] if mode == "equal" else "other")

                    cfg = Obj(cfgc, {"device": fval("device", fd), "vector": fval("vector", fv), "element": fval("element", fe), "event_type": Cls(ev_classes[et]), "callback": Obj(None, label="<fn>"), "uuid": Obj(None, label="<uuid>")}, label="cfg")
                    ev = Obj(ev_classes[ek], {}, label="event")
                    for field in ("device", "vector", "element"):
                        ev.attrs[field] = Obj(None, {"name": Const(names[field])}, label=f"<{field}>") if field in carried[ek] else Const(None)
                    return it.run_function(Fn(f, cfg), [ev], {})

                paths = explore(p, run, {"inline": lambda fi, node: False})
                ctx.paths_enumerated += len(paths)
                if len(paths) != 1 or paths[0].outcome != "return":
                    ctx.undecided("C16.FILTER", f.short, f"row not decided by constant evaluation ({len(paths)} paths)", fi=f)
                    bad = True
                    continue
                got = paths[0].interp.truth_of(paths[0].value)
                exp = ev_classes[et] in ev_classes[ek].mro
                for field, mode in (("device", fd), ("vector", fv), ("element", fe)):
                    if mode == "equal" and field not in carried[ek]:
                        exp = False
                    if mode == "different":
                        exp = False
                if got is None:
                    ctx.undecided("C16.FILTER", f.short, "result truthiness not decided", fi=f)
                    bad = True
                elif got != exp:
                    row = f"event={ek} type-filter={et} device={fd} vector={fv} element={fe}"
                    ctx.violated("C16.FILTER", f.short, f"[{row}] is {'accepted' if got else 'rejected'}, expected {'accepted' if exp else 'rejected'}", fi=f, text=f"row:{ek}:{et}:{fd}:{fv}:{fe}"[:60], witness=row)
                    bad = True
    ctx.counters["C16.FILTER:rows"] = rows
    if not bad:
        ctx.holds("C16.FILTER", f.short, f"{rows} rows agree with the filter oracle", fi=f)
    ctx.exhaustive_domains.append("3^3 filter modes x 4 event kinds x 4 type filters")


def rule_rm(ctx):
    p = ctx.p
    bc = p.cls("indi.client.client.BaseClient")
    f = bc.find_method("rmonevent")
    specs = [("cb0", "D", "V", "E", "ValueUpdate"), ("cb1", "D", None, None, "BaseEvent"), ("cb2", "X", "V", None, "StateUpdate"), ("cb3", "D", "V", "E", "ValueUpdate")]
    n = 0
    bad = False
    # the criteria are taken from cb0 and, in a second sweep, from cb3 - the *later* of two configurations with identical
    # filters (two concurrent waits for the same thing): removal by uuid must take exactly that one
    for tgt_idx, mask in [(t, m) for t in (0, 3) for m in itertools.product((False, True), repeat=6)]:
        n += 1
        holder = {}

        def run(it: Interp):
            cbs = [make_callback(p, d, v, e, et, label=l) for l, d, v, e, et in specs]
            # cb3 shares cb0's callback function (criteria by callback must remove both)
            cbs[3].attrs["callback"] = cbs[0].attrs["callback"]
            c = make_client(p, cbs, it=it)
            it.client, it.cbs = c, cbs
            tgt = cbs[tgt_idx]
            kw = {}
            keys = ("uuid", "device", "vector", "element", "event_type", "callback")
            for k, on in zip(keys, mask):
                if on:
                    kw[k] = tgt.attrs[k]
            return it.run_function(Fn(f, c), [], kw)

        paths = explore(p, run, client_opts(p))
        ctx.paths_enumerated += len(paths)
        for pa in paths:
            if pa.outcome != "return" or len(paths) != 1:
                ctx.undecided("C16.RM", f.short, f"criteria {mask}: not decided / raises", fi=f)
                bad = True
                continue
            left = [x.label for x in pa.interp.client.attrs["callbacks"].items]
            cbs = pa.interp.cbs
            tgt = cbs[tgt_idx]
            keys = ("uuid", "device", "vector", "element", "event_type", "callback")
            exp = []
            for cb in cbs:
                match = True
                for k, on in zip(keys, mask):
                    if on:
                        a, b = tgt.attrs[k], cb.attrs[k]
                        same = (a is b) or (isinstance(a, Const) and isinstance(b, Const) and a.v == b.v) or (isinstance(a, Cls) and isinstance(b, Cls) and a.ci is b.ci)
                        if not same:
                            match = False
                if not match:
                    exp.append(cb.label)
            if left != exp:
                ctx.violated("C16.RM", f.short, f"removal by criteria {dict(zip(keys, mask))} taken from {tgt.label} leaves {left}, expected {exp}", fi=f, text=f"rm:{tgt_idx}:{mask}", witness=str(dict(zip(keys, mask))))
                bad = True
    ctx.counters["C16.RM:criteria combinations"] = n
    if not bad:
        ctx.holds("C16.RM", f.short, f"{n} criteria combinations: exactly the matching configurations are removed", fi=f)
    # onevent appends a configuration built from its arguments and returns its uuid
    g = bc.find_method("onevent")
    # ids stay unique over the life of the client, not just among what is registered at one moment: A and B register,
    # A is removed by its id, C registers, B is removed by its id - C must stay (three staggered waits do exactly this)
    def run_stagger(it: Interp):
        c = make_client(p, [], it=it)
        it.client = c
        ids = {}
        for nm in ("A", "B"):
            ids[nm] = it.run_function(Fn(g, c), [], {"callback": Obj(None, label=f"<fn:{nm}>")})
        it.run_function(Fn(f, c), [], {"uuid": ids["A"]})
        ids["C"] = it.run_function(Fn(g, c), [], {"callback": Obj(None, label="<fn:C>")})
        it.run_function(Fn(f, c), [], {"uuid": ids["B"]})
        it.left = [show(x.attrs.get("callback")) for x in c.attrs["callbacks"].items if isinstance(x, Obj)]
        return Const(None)

    try:
        paths = explore(p, run_stagger, client_opts(p))
        if len(paths) != 1 or paths[0].outcome != "return":
            ctx.undecided("C16.RM", g.short + "[staggered]", f"register A, B; remove A; register C; remove B: not decided by constant evaluation ({len(paths)} paths)", fi=g)
        else:
            left = paths[0].interp.left
            ctx.check(left == ["<fn:C>"], "C16.RM", g.short + "[staggered]", "ids are unique over the life of the client", f"register A, B; remove A by its id; register C; remove B by its id: {left} stay registered, expected only C (an id handed out again while its first holder is still registered makes one removal take two registrations)", fi=g, text="stagger", witness="onevent A, onevent B, rmonevent(A), onevent C, rmonevent(B)")
    except Undecided as u:
        ctx.undecided("C16.RM", g.short + "[staggered]", str(u), fi=g)

    def run2(it: Interp):
        c = make_client(p, [make_callback(p, label="old")], it=it)
        it.client = c
        return it.run_function(Fn(g, c), [], {"callback": Obj(None, label="<fn:new>"), "device": Const("D"), "vector": Const("V"), "element": Const("E"), "event_type": Cls(p.cls("indi.client.events.ValueUpdate"))})

    paths = explore(p, run2, client_opts(p))
    ok = len(paths) == 1 and paths[0].outcome == "return"
    if ok:
        items = paths[0].interp.client.attrs["callbacks"].items
        ok = len(items) == 2 and items[0].label == "cfg:old" and isinstance(items[1], Obj)
        if ok:
            a = items[1].attrs
            ok = show(a.get("device")) == "'D'" and show(a.get("vector")) == "'V'" and show(a.get("element")) == "'E'" and show(a.get("callback")) == "<fn:new>" and isinstance(a.get("event_type"), Cls) and a["event_type"].ci.name == "ValueUpdate" and a.get("uuid") is paths[0].value
    ctx.check(ok, "C16.RM", g.short, "appends one configuration with the given filters and returns its uuid", "onevent does not append exactly one configuration carrying its arguments and return that configuration's uuid", fi=g, text="onevent")


def rule_contain(ctx):
    p = ctx.p
    bc = p.cls("indi.client.client.BaseClient")
    f = bc.find_method("trigger_event")

    def raiser(ev):
        c = ev.data.get("callee")
        if isinstance(c, Obj) and c.label.startswith("<fn:"):
            return "Exception"
        return None

    def run(it: Interp):
        cbs = [make_callback(p, label=f"cb{i}") for i in range(3)]
        c = make_client(p, cbs, it=it)
        ev = Obj(p.cls("indi.client.events.ValueUpdate"), {"device": Const(None), "vector": Const(None), "element": Const(None)}, label="event")
        it.ev = ev
        return it.run_function(Fn(f, c), [ev], {})

    paths = explore(p, run, client_opts(p, {"call_may_raise": raiser}))
    ctx.paths_enumerated += len(paths)
    bad = False
    for pa in paths:
        if pa.outcome != "return":
            ctx.violated("C16.CONTAIN", f.short, "an exception raised by one callback escapes trigger_event: the remaining callbacks are not invoked and message processing is aborted", fi=f, text="escape")
            bad = True
            continue
        got = [l for l, e, _ in delivered_events(pa)]
        if got != ["cb0", "cb1", "cb2"]:
            ctx.violated("C16.CONTAIN", f.short, f"with raising callbacks the invocation sequence is {got}, expected each of cb0, cb1, cb2 exactly once", fi=f, text=f"sequence:{got}")
            bad = True
        for l, e, _ in delivered_events(pa):
            if e is not pa.interp.ev:
                ctx.violated("C16.CONTAIN", f.short, "a callback is not handed the event itself", fi=f, text="arg")
                bad = True
    if len(paths) < 8:
        ctx.undecided("C16.CONTAIN", f.short, f"only {len(paths)} raise/no-raise combinations explored", fi=f)
    elif not bad:
        ctx.holds("C16.CONTAIN", f.short, f"{len(paths)} raise/no-raise combinations of three callbacks: each invoked once, nothing escapes", fi=f)
    # coroutine callbacks are scheduled, not called
    def run2(it: Interp):
        c = make_client(p, [make_callback(p, label="co")], it=it)
        ev = Obj(p.cls("indi.client.events.ValueUpdate"), {"device": Const(None), "vector": Const(None), "element": Const(None)}, label="event")
        return it.run_function(Fn(f, c), [ev], {})

    o = client_opts(p)
    base_fm = o["foreign_model"]
    o["foreign_model"] = lambda it, callee, a, k: Const(True) if isinstance(callee, Foreign) and callee.dotted.endswith("iscoroutinefunction") else base_fm(it, callee, a, k)
    paths = explore(p, run2, o)
    ok = all(pa.outcome == "return" and len(pa.calls(method="create_task")) == 1 for pa in paths)
    ctx.check(ok, "C16.CONTAIN", f.short + "[coroutine]", "a coroutine callback is scheduled as one task", "a coroutine callback is not scheduled as exactly one task", fi=f, text="coroutine")
    # ... and when the loop later runs the scheduled tasks, each of them invokes ITS callback with the event: the tasks are
    # run here after trigger_event has returned (whatever they close over has its final value by then)
    order = ["co1", "fn2", "co3", "fn4"]

    def run3(it: Interp):
        c = make_client(p, [make_callback(p, label=l) for l in order], it=it)
        ev = Obj(p.cls("indi.client.events.ValueUpdate"), {"device": Const(None), "vector": Const(None), "element": Const(None)}, label="event")
        it.ev = ev
        it.run_function(Fn(f, c), [ev], {})
        tasks = [e.data["args"][0] for e in it.events if e.kind == "call" and is_call(e.data["term"], method="create_task") and e.data["args"]]
        # calling a coroutine function only creates the coroutine: it counts when the task that wraps it runs
        it.direct = [l for l, e, cev in delivered_events(type("P", (), {"events": it.events})()) if not any(cev.data["term"] is t for t in tasks)]
        it.ntasks = len(tasks)
        it.later = []
        for t in tasks:
            if not (isinstance(t, Term) and t.op == "call"):
                raise Undecided("a scheduled task is not a call")
            callee = t.args[0]
            if isinstance(callee, Obj) and callee.label.startswith("<fn:"):
                it.later.append((callee.label[4:-1], bool(t.args[1]) and t.args[1][0] is ev))
            elif isinstance(callee, Fn):
                n0 = len(it.events)
                it.run_function(callee, list(t.args[1]), {k: v for k, v in t.args[2] if k is not None})
                for e in it.events[n0:]:
                    if e.kind == "call" and isinstance(e.data["callee"], Obj) and e.data["callee"].label.startswith("<fn:"):
                        it.later.append((e.data["callee"].label[4:-1], bool(e.data["args"]) and e.data["args"][0] is ev))
            else:
                raise Undecided(f"a scheduled task calls {show(callee)[:40]}")
        return Const(None)

    o = client_opts(p)
    base_fm = o["foreign_model"]
    o["foreign_model"] = lambda it, callee, a, k: Const(isinstance(a[0], Obj) and a[0].label.startswith("<fn:co")) if isinstance(callee, Foreign) and callee.dotted.endswith("iscoroutinefunction") and a else base_fm(it, callee, a, k)
    paths = explore(p, run3, o)
    ctx.paths_enumerated += len(paths)
    if len(paths) != 1 or paths[0].outcome != "return":
        ctx.undecided("C16.CONTAIN", f.short + "[mixed]", f"dispatch to plain and coroutine callbacks not decided by constant evaluation ({len(paths)} paths)", fi=f)
    else:
        it_ = paths[0].interp
        okm = it_.direct == ["fn2", "fn4"] and it_.later == [("co1", True), ("co3", True)]
        ctx.check(okm, "C16.CONTAIN", f.short + "[mixed]", "plain callbacks called at once, each coroutine callback invoked once with the event when its task runs", f"with callbacks registered in the order {order} (co* are coroutine functions) and all matching, trigger_event calls {it_.direct} directly and the {it_.ntasks} scheduled tasks, run afterwards, invoke {it_.later}; expected ['fn2', 'fn4'] directly and co1, co3 once each with the event", fi=f, text="mixed-dispatch", witness=f"callbacks {order}, one matching event")


def rule_registry(ctx):
    p = ctx.p
    n = 0
    allowed = {"__init__", "onevent", "rmonevent"}
    bad = False
    for fi in p.functions:
        if not fi.module.name.startswith("indi"):
            continue
        for node in walk_no_nested(fi.node):
            hit = None
            if isinstance(node, (ast.Assign, ast.AugAssign, ast.AnnAssign, ast.Delete)):
                tg = node.targets if isinstance(node, (ast.Assign, ast.Delete)) else [node.target]
                for t in tg:
                    b = t
                    while isinstance(b, ast.Subscript):
                        b = b.value
                    if isinstance(b, ast.Attribute) and b.attr == "callbacks":
                        hit = "store"
            if isinstance(node, ast.Call) and isinstance(node.func, ast.Attribute) and node.func.attr in ("append", "remove", "pop", "clear", "extend", "insert") and isinstance(node.func.value, ast.Attribute) and node.func.value.attr == "callbacks":
                hit = node.func.attr
            if hit:
                n += 1
                ok = fi.cls is not None and fi.cls.name == "BaseClient" and fi.name in allowed
                if not ok:
                    bad = True
                    ctx.violated("C16.REGISTRY", fi.short, f"writes the callback registry ({hit}) outside onevent/rmonevent", fi=fi, node=node)
    ctx.floor("C16.REGISTRY", "registry writes", n, 2)
    te = p.cls("indi.client.client.BaseClient").find_method("trigger_event")
    if not bad:
        ctx.holds("C16.REGISTRY", te.short, f"{n} writes of the callback registry, all in onevent/rmonevent/__init__", fi=te)


def rule_during(ctx):
    """Registration changes made by a callback while an event is being dispatched (the one-shot idiom: a callback that
    removes itself; a callback that removes or adds another).  Four callbacks cb0..cb3 all match; while cb<k> runs it
    removes cb<j> through the real rmonevent (every k, j), or registers a new one.  Required: a callback removed before
    its turn is not invoked any more, every other registered callback is invoked exactly once - nobody is skipped
    because the registry shrank under the dispatch loop - and the next event reaches exactly the remaining ones."""
    p = ctx.p
    bc = p.cls("indi.client.client.BaseClient")
    te = bc.find_method("trigger_event")
    rm = bc.find_method("rmonevent")
    N = 4
    bad = False
    n = 0
    for k in range(N):
        for j in range(N):
            n += 1

            def effect(it, callee, args, kwargs, ev, k=k, j=j):
                if isinstance(callee, Obj) and callee.label == f"<fn:cb{k}>" and not it.done:
                    it.done = True
                    nev = len(it.events)
                    it.run_function(Fn(rm, it.client), [], {"uuid": it.cfgs[j].attrs["uuid"]})
                    del it.events[nev:]
                    return Const(None)
                return None

            def run(it: Interp):
                cbs = [make_callback(p, label=f"cb{i}") for i in range(N)]
                it.done = False
                c_ = make_client(p, cbs, it=it)
                it.client, it.cfgs = c_, cbs
                ev = Obj(p.cls("indi.client.events.ValueUpdate"), {"device": Const(None), "vector": Const(None), "element": Const(None)}, label="event")
                it.run_function(Fn(te, c_), [ev], {})
                it.first = [l for l, e, _ in delivered_events(type("P", (), {"events": it.events})())]
                del it.events[:]
                it.run_function(Fn(te, c_), [ev], {})
                it.second = [l for l, e, _ in delivered_events(type("P", (), {"events": it.events})())]
                return Const(None)

            paths = explore(p, run, client_opts(p, {"call_effect": effect}))
            ctx.paths_enumerated += len(paths)
            if len(paths) != 1 or paths[0].outcome != "return":
                ctx.undecided("C16.DURING", te.short, f"dispatch with cb{k} removing cb{j} not decided by constant evaluation ({len(paths)} paths)", fi=te)
                bad = True
                continue
            it_ = paths[0].interp
            want1 = [f"cb{i}" for i in range(N) if not (i == j and j > k)]
            want2 = [f"cb{i}" for i in range(N) if i != j]
            if it_.first != want1 or it_.second != want2:
                who = "itself" if j == k else f"cb{j}"
                miss = [x for x in want1 if x not in it_.first]
                extra = [x for x in it_.first if x not in want1]
                why = (f"{miss} still registered and matching but not invoked (the registry shrank under the dispatch loop)" if miss else "") + (f" {extra} invoked after its removal" if extra else "")
                ctx.violated("C16.DURING", te.short, f"four matching callbacks cb0..cb3; while cb{k} runs it removes {who}: this event reaches {it_.first}, the next one {it_.second}; expected {want1} and {want2}: {why.strip()}", fi=te, text="removal-during-dispatch:" + ("skipped" if miss else "late" if extra else "next"), witness=f"cb{k} calls rmonevent(uuid of cb{j}) during dispatch")
                bad = True
                if miss or extra:
                    break
        if bad:
            break
    ctx.counters["C16.DURING:(running, removed) pairs"] = n
    if not bad:
        ctx.holds("C16.DURING", te.short, f"{n} (running callback, removed callback) pairs: nobody skipped, nobody invoked after removal, the next event reaches exactly the remaining callbacks", fi=te)


def _events_for(p, stream_factory):
    paths = feed(p, lambda it: make_client(p, [make_callback(p, label="all")], it=it), stream_factory)
    return paths


def _blob_fm(p):
    """client foreign model + base64 on constants (standard library on constants)."""
    from .c08 import _b64_model
    base = client_opts(p)["foreign_model"]

    def fm(it, callee, args, kw):
        r = _b64_model(it, callee, args, kw)
        return r if r is not None else base(it, callee, args, kw)

    return fm


def rule_iff(ctx):
    p = ctx.p
    f = p.cls("indi.client.elements.Element").find_method("process_message")
    bad = False
    n = 0
    for kind, (v0, v1) in (("Text", ("a", "b")), ("Number", ("1", "2")), ("Switch", ("On", "Off")), ("Light", ("Ok", "Busy"))):
        def defs():
            return [msg(p, f"Def{kind}Vector", "D", "V1", [part(p, f"Def{kind}", "A", v0), part(p, f"Def{kind}", "B", v0)], state="Ok")]

        cases = [
            ("unchanged update", [("A", v0)], "Ok", []),
            ("one element changes", [("A", v1)], "Ok", [("ValueUpdate", "D", "V1", "A", repr(v0), repr(v1))]),
            ("state changes only", [("A", v0)], "Busy", [("StateUpdate", "D", "V1", None, "'Ok'", "'Busy'")]),
            ("state and both elements change", [("A", v1), ("B", v1)], "Alert", [("StateUpdate", "D", "V1", None, "'Ok'", "'Alert'"), ("ValueUpdate", "D", "V1", "A", repr(v0), repr(v1)), ("ValueUpdate", "D", "V1", "B", repr(v0), repr(v1))]),
            ("same element twice in one update", [("A", v1), ("A", v0)], "Ok", [("ValueUpdate", "D", "V1", "A", repr(v0), repr(v1)), ("ValueUpdate", "D", "V1", "A", repr(v1), repr(v0))]),
        ]
        for title, children, state, expect in cases:
            n += 1
            paths = feed(p, lambda it: make_client(p, [make_callback(p, label="all")], it=it), lambda: defs() + [msg(p, f"Set{kind}Vector", "D", "V1", [part(p, f"One{kind}", nm, vv) for nm, vv in children], state=state)])
            ctx.paths_enumerated += len(paths)
            for pa in paths:
                if pa.outcome != "return":
                    continue  # C15.SURVIVE reports it
                evs = [event_summary(e) for _, e, _ in delivered_events(pa)]
                # drop the events of the initial definition (everything up to and including DefinitionUpdate)
                idx = max([i for i, e in enumerate(evs) if e[0] == "DefinitionUpdate"] + [-1])
                upd = evs[idx + 1:]
                if sorted(upd) != sorted(expect) or len(upd) != len(expect):
                    ctx.violated("C16.IFF", f.short, f"{kind}: '{title}' raises events {upd}, expected exactly {expect}", fi=f, text=f"iff:{title}", witness=f"{kind}: def(A={v0},B={v0},Ok) then set({children}, {state})")
                    bad = True
    # BLOB values are objects (payload + format): a new payload, or the same payload under another format, is a change
    import base64 as _b64
    def b64(x):
        return _b64.b64encode(x).decode("ascii")
    blob_cases = [("payload changes", (b"frame-1", ".fits"), (b"frame-2", ".fits")), ("only the format changes", (b"frame-1", ".fits"), (b"frame-1", ".fits.fz")), ("empty payload, format changes", (b"", ".a"), (b"", ".b")), ("same length, other bytes", (b"abc", ".x"), (b"abd", ".x"))]
    for title, (p0, f0), (p1, f1) in blob_cases:
        n += 1
        def blobpart(pl, fm):
            return part(p, "OneBLOB", "A", b64(pl), size=str(len(pl)), format=fm)
        paths = feed(p, lambda it: make_client(p, [make_callback(p, label="all")], it=it),
                     lambda: [msg(p, "DefBLOBVector", "D", "V1", [part(p, "DefBLOB", "A", None)], state="Ok"),
                              msg(p, "SetBLOBVector", "D", "V1", [blobpart(p0, f0)], state="Ok"),
                              msg(p, "SetBLOBVector", "D", "V1", [blobpart(p1, f1)], state="Ok")],
                     {"foreign_model": _blob_fm(p), "instantiate": lambda ci: ci.module.name.startswith("indi.client.") or ci.qualname == "indi.device.values.BLOB"})
        ctx.paths_enumerated += len(paths)
        if len(paths) != 1 or paths[0].outcome != "return":
            ctx.undecided("C16.IFF", f.short + "[BLOB]", f"BLOB: '{title}' not decided by constant evaluation ({len(paths)} paths, {paths[0].outcome if paths else None})", fi=f)
            bad = True
            continue
        evs_ = [e for _, e, _ in delivered_events(paths[0])]
        cut = max([i_ for i_, e in enumerate(evs_) if isinstance(e, Obj) and e.cls is not None and e.cls.name == "DefinitionUpdate"] + [-1])
        vu = [e for e in evs_[cut + 1:] if isinstance(e, Obj) and e.cls is not None and e.cls.name == "ValueUpdate"]
        def desc(v):
            if isinstance(v, Obj) and v.cls is not None and v.cls.name == "BLOB":
                return (show(v.attrs.get("binary")), show(v.attrs.get("format")))
            return show(v)
        chain = [(desc(e.attrs.get("old_value")), desc(e.attrs.get("new_value"))) for e in vu]
        want = [("None", (repr(p0), repr(f0))), ((repr(p0), repr(f0)), (repr(p1), repr(f1)))]
        if chain != want:
            ctx.violated("C16.IFF", f.short + "[BLOB]", f"BLOB: '{title}': two updates ({p0!r}, {f0!r}) then ({p1!r}, {f1!r}) raise the value events {chain}, expected {want}: the value changed without an event, so a listener keeps the stale {('format' if p0 == p1 else 'payload')}", fi=f, text=f"iff-blob:{title}", witness=f"setBLOBVector({p0!r}, {f0!r}); setBLOBVector({p1!r}, {f1!r})")
            bad = True
    ctx.counters["C16.IFF:update cases"] = n
    if not bad:
        ctx.holds("C16.IFF", f.short, f"{n} update cases x 4 kinds: events are exactly the changes, each once, with (old, new) = (previous, current)", fi=f)
    # first definition: DefinitionUpdate is raised, value/state events start the chain from None
    paths = feed(p, lambda it: make_client(p, [make_callback(p, label="all")], it=it), lambda: [msg(p, "DefTextVector", "D", "V1", [part(p, "DefText", "A", "a")], state="Ok")])
    for pa in paths:
        evs = [event_summary(e) for _, e, _ in delivered_events(pa)]
        ok = ("DefinitionUpdate", "D", "V1", None) in evs and ("ValueUpdate", "D", "V1", "A", "None", "'a'") in evs and ("StateUpdate", "D", "V1", None, "None", "'Ok'") in evs and len(evs) == 3
        ctx.check(ok, "C16.IFF", "indi/client/device.py::Device.process_message[first definition]", "DefinitionUpdate + chain start (None -> value/state)", f"a first definition raises {evs}", fi=p.cls("indi.client.device.Device").find_method("process_message"), text="first-def")


def rule_atomic(ctx):
    """Validate-then-store: if decoding or validating an update raises (truncated BLOB, size mismatch), the element's
    value must not have been replaced already - otherwise the value changes without any event and the chain breaks."""
    p = ctx.p
    from ..absint import Builtin
    ebase = p.cls("indi.client.elements.Element")
    n = 0

    def raiser(ev):
        callee = ev.data.get("callee")
        if isinstance(callee, Builtin) and callee.name in ("int", "float"):
            return "ValueError"
        if isinstance(callee, Foreign) and "b64decode" in callee.dotted:
            return "Error"
        return None

    for ci in ebase.subclasses:
        f = ci.find_method("process_message")
        sv = ci.find_method("set_value_from_message")
        n += 1
        kind = ci.name
        mcls = p.class_constant(ci, "set_message_class")

        def pol(fi, node):
            return fi.module.name in ("indi.client.elements", "indi.device.values")

        def run(it: Interp, ci=ci, mcls=mcls):
            # the element is produced by the real client code from a definition carrying the value 'old'
            cl, vecs, els = build_mirror(it, p, kind, layout=(("DEV", "V1"),), names=("A",), old=Const("old"))
            el = els[("DEV", "V1", "A")]
            it.el = el
            attrs = {"name": Const("A"), "value": Term("param", "text", pytype="str"), "__closed__": Const(True)}
            if kind == "BLOB":
                attrs["size"] = Term("param", "size", pytype="str")
                attrs["format"] = Term("param", "format", pytype="str")
            m = Obj(mcls, attrs, label="part")
            try:
                return it.run_function(Fn(f, el), [m], {})
            finally:
                it.kept = public_get(it, el, "value")

        paths = explore(p, run, {"inline": pol, "assert_forks": True, "call_may_raise": raiser, "instantiate": lambda c_: c_.qualname == "indi.device.values.BLOB", "max_depth": 8})
        ctx.paths_enumerated += len(paths)
        bad = False
        for pa in paths:
            if pa.outcome != "raise":
                continue
            v = pa.interp.kept
            if not (isinstance(v, Const) and v.v == "old"):
                ctx.violated("C16.ATOMIC", f"{sv.short}[{kind}]", f"when decoding/validating an update raises ({show(pa.value)[:40]}) the element's value has already been replaced by {show(v)[:40]}: the value changes without a ValueUpdate, so a listener holds a stale value and the next event's old value was never announced", fi=sv, text=f"store-before-validate:{kind}", witness="setBLOBVector whose size attribute disagrees with the payload")
                bad = True
        if not bad:
            ctx.holds("C16.ATOMIC", f"{sv.short}[{kind}]", "no store to the element's value on any raising path", fi=sv)
    ctx.floor("C16.ATOMIC", "client element classes", n, 5)
    # the same for the property's state: when applying a child raises, a state that has already been replaced must have
    # been announced (StateUpdate before the children), otherwise the state changes without any event
    vf = p.cls("indi.client.vectors.Vector").find_method("process_message")
    bad = False
    for kind in ("BLOB", "Number"):
        def child():
            attrs = {"size": Term("param", "size", pytype="str"), "format": Term("param", "format", pytype="str")} if kind == "BLOB" else {}
            return part(p, f"One{kind}", "A", Term("param", "text", pytype="str"), **attrs)

        paths = feed(p, lambda it: make_client(p, [make_callback(p, label="all")], it=it),
                     lambda: [msg(p, f"Def{kind}Vector", "D", "V1", [part(p, f"Def{kind}", "A", None if kind == "BLOB" else "1")], state="Ok"),
                              msg(p, f"Set{kind}Vector", "D", "V1", [child()], state="Busy")],
                     {"call_may_raise": raiser, "assert_forks": True})
        ctx.paths_enumerated += len(paths)
        for pa in paths:
            if pa.outcome != "raise":
                continue
            st = snapshot(pa.interp.client).get("D", {}).get("V1", {}).get("state")
            announced = [e for e in (event_summary(x) for _, x, _ in delivered_events(pa)) if e[0] == "StateUpdate" and e[5] == repr(st)]
            if st != "Ok" and not announced:
                ctx.violated("C16.ATOMIC", f"{vf.short}[{kind}]", f"when applying a child of an update raises ({show(pa.value)[:40]}) the property's state has already become {st!r} but no StateUpdate was raised: the state changes silently and the next StateUpdate's old state was never announced", fi=vf, text=f"state-before-children:{kind}", witness=f"set{kind}Vector state=Busy with a child that fails to decode")
                bad = True
    if not bad:
        ctx.holds("C16.ATOMIC", f"{vf.short}[state]", "on every raising path of an update a replaced state has been announced before", fi=vf)


def rule_chain(ctx):
    p = ctx.p
    dev = p.cls("indi.client.device.Device")
    f = dev.find_method("process_message")
    # findings are named by the public entry point the failing history enters through, wherever its body is defined
    entry = f"{dev.short}.process_message"
    d1 = lambda: msg(p, "DefTextVector", "D", "V1", [part(p, "DefText", "A", "a"), part(p, "DefText", "B", "a")], state="Ok")
    d2 = lambda: msg(p, "DefTextVector", "D", "V1", [part(p, "DefText", "A", "a"), part(p, "DefText", "B", "b")], state="Ok")
    paths = feed(p, lambda it: make_client(p, [make_callback(p, label="all")], it=it), lambda: [d1(), d2()])
    ctx.paths_enumerated += len(paths)
    bad = False
    for pa in paths:
        if pa.outcome != "return":
            continue
        evs = [event_summary(e) for _, e, _ in delivered_events(pa)]
        first_def = [i for i, e in enumerate(evs) if e[0] == "DefinitionUpdate"]
        second = evs[first_def[0] + 1:] if first_def else evs
        vs = [e for e in second if e[0] in ("ValueUpdate", "StateUpdate")]
        want = [("ValueUpdate", "D", "V1", "B", "'a'", "'b'")]
        if sorted(vs) != sorted(want):
            ctx.violated(
                "C16.CHAIN", entry,
                f"re-definition of an existing property raises {vs}; the chain requires exactly {want} (old = previous value, nothing for unchanged A and state)",
                fi=f, text="redefinition", witness="def(V1: A=a, B=a, Ok); def(V1: A=a, B=b, Ok)",
            )
            bad = True
    if not bad:
        ctx.holds("C16.CHAIN", entry, "re-definition continues the chain from the previous mirror values", fi=f)


# the last event's new value is the current value: the mirror itself must be right
IMPORTS = [('C15', 'C15.MIRROR')]

EXPLANATION = EXPLANATION + ' C16.RM also decides that registration ids are unique over the life of the client: register A, B; remove A by id; register C; remove B by id - only C stays.'

RULES = [
    ("C16.FILTER", rule_filter, "callback filter truth table (432 rows)"),
    ("C16.RM", rule_rm, "removal by every combination of criteria; onevent appends and returns the uuid"),
    ("C16.CONTAIN", rule_contain, "per-callback containment inside the dispatch loop"),
    ("C16.REGISTRY", rule_registry, "single registry written only by onevent/rmonevent, read at dispatch time"),
    ("C16.DURING", rule_during, "registration changes made by a callback during dispatch: nobody skipped, nobody invoked after removal"),
    ("C16.IFF", rule_iff, "update events are exactly the changes, (old,new) = (previous,current)"),
    ("C16.ATOMIC", rule_atomic, "an update that fails to decode/validate leaves the element's value untouched (no silent change)"),
    ("C16.CHAIN", rule_chain, "re-definition continues the event chain"),
]
