"""C08 - BLOB payloads arrive bit-exact in both directions and never stall a link."""
from __future__ import annotations

import ast

from ..absint import Builtin, Cls, Const, Dct, Fn, Foreign, Interp, Lst, Obj, Term, explore, is_call, mentions, run_method, show, subterms
from ..model import Undecided, walk_no_nested
from . import bufferrules as B
from .c05 import pred_table
from .driverworld import IE

EXPLANATION = (
    'C08.CODEC: the encoder and decoder of values.BLOB are the matching base64 pair (b64encode of .binary, b64decode into .binary), size is '
    "len(.binary); every producer of a oneBLOB passes its own value's binary_base64, size and format (driver update emitter evaluated on a "
    'constructed element beside a sibling with a different value; client upload via imported C06.CTOR); every consumer, evaluated on a '
    'constructed driver element / mirrored client element, decodes msg.value with from_base64(msg.value, msg.format) once, keeps exactly that '
    "object as the element's value and compares the declared size, coerced with int(), with the decoded length (both consumers agree). C08.NULL: "
    "an empty or absent payload (the parser yields value=None) never reaches b64decode as None: from_base64 is interpreted with None, '' and a "
    "symbolic text, with b64decode(None) made to raise. C08.PRED: the BLOB rows of the router's delivery truth table (setBLOBVector and "
    'defBLOBVector x policy x sender): clients that did not enable BLOBs receive no payload; Also/Only clients do. C08.CONFIG: the junk-recovery '
    "threshold is disabled exactly on the BLOB connection: the client connection handler's constructor stores None iff for_blobs; TCP.connect "
    'forwards for_blobs; Client.start passes for_blobs=True for the BLOB connection only; the default threshold is a positive integer. '
    "C08.PROGRESS: C11's ranking rule restricted to paths that assume the threshold disabled - a partial BLOB must make process() leave the loop, "
    'not spin.'
    ' C08.CODEC includes 0-byte and 1-byte payloads on the producer side (an empty BLOB is a value, not an unset element).'
    " C08.VALUE: values.BLOB is evaluated on five constant payloads through its real constructor and public views (size, base64 text, format, bytes), fresh and after the views were read once and the payload replaced by one of the same / another length; from_base64 inverts the base64 view, '' and None give the empty payload (base64 functions on constants are folded with the standard library)."
)
NOT_DECIDED = "byte equality for all payloads and sizes (that is base64's contract, listed as trusted base); transfer of multi-megabyte payloads through real sockets."
ASSUMPTIONS = ["base64.b64decode(base64.b64encode(b)) == b for every byte string b", "latin-1 encoding of base64 text is loss-free"]
TRUSTED = ["CPython ast", "indilint abstract interpreter"]


def _b64_model(it, callee, args, kw):
    """base64.<std/urlsafe>_b64{en,de}code on CONSTANT arguments, decided by the standard library (no repository code)."""
    if isinstance(callee, Foreign) and callee.dotted.startswith("base64.") and args and all(isinstance(a, Const) for a in list(args) + list(kw.values())) and isinstance(args[0].v, (bytes, str)):
        import base64 as _b
        import binascii
        fn = getattr(_b, callee.dotted.split(".", 1)[1], None)
        if fn is None:
            return None
        try:
            return Const(fn(*[a.v for a in args], **{k: v.v for k, v in kw.items()}))
        except (binascii.Error, ValueError, TypeError):
            from ..absint import _Raise
            raise _Raise(Term("exc", "Error"), getattr(it, "cur_stmt", None))
    return None


_PAYLOADS = [b"", b"x", b"\x00\xff\xfe\xfd", b"\xfb\xff\xfe", b"hello world " * 5]


def rule_value(ctx):
    """values.BLOB as a value object, evaluated on constant payloads through its real constructor and public views:
    size / base64 text / format / bytes describe the CURRENT payload - also after the views were read once and the payload
    was then replaced (a driver reusing one BLOB object per exposure); from_base64 inverts the base64 view."""
    import base64 as _b
    p = ctx.p
    vb = p.cls("indi.device.values.BLOB")
    from ..absint import Frame
    from .common import public_get
    fb = vb.find_method("from_base64")
    bad = False
    n = 0

    def views(it, o):
        return tuple(public_get(it, o, a) for a in ("size", "binary_base64", "format", "binary"))

    def want(payload, fmt):
        return (len(payload), _b.b64encode(payload).decode("ascii"), fmt, payload)

    def same(got, exp):
        return all(isinstance(g, Const) and g.v == e and type(g.v) is type(e) for g, e in zip(got, exp))

    for i, payload in enumerate(_PAYLOADS):
        nxt = _PAYLOADS[(i + 1) % len(_PAYLOADS)]
        nxt_same_len = bytes((b + 1) % 256 for b in payload)
        for label, second in (("fresh object", None), ("payload replaced by one of another length", nxt), ("payload replaced by one of the same length", nxt_same_len)):
            if second is not None and second == payload:
                continue
            n += 1

            def run(it: Interp, payload=payload, second=second):
                o = it.apply(Cls(vb), [Const(payload), Const(".fits")], {}, [], None, Frame(None, vb.module, {}), False)
                it.first = views(it, o)
                it.second = None
                if second is not None:
                    it.exec_block(ast.parse("o.binary = v").body, Frame(None, vb.module, {"o": o, "v": Const(second)}))
                    it.second = views(it, o)
                return Const(None)

            paths = explore(p, run, {"inline": lambda fi, node: fi.cls is vb, "instantiate": lambda ci: ci is vb, "foreign_model": _b64_model})
            ctx.paths_enumerated += len(paths)
            if len(paths) != 1 or paths[0].outcome != "return":
                ctx.undecided("C08.VALUE", vb.short, f"BLOB({payload!r}) [{label}] not decided by constant evaluation ({len(paths)} paths)", ci=vb)
                bad = True
                continue
            it_ = paths[0].interp
            if not same(it_.first, want(payload, ".fits")):
                ctx.violated("C08.VALUE", vb.short, f"BLOB({payload!r}, '.fits') shows (size, base64, format, bytes) = {tuple(show(x)[:40] for x in it_.first)}, expected {want(payload, '.fits')}", ci=vb, text="views:fresh", witness=repr(payload))
                bad = True
            elif second is not None and not same(it_.second, want(second, ".fits")):
                ctx.violated("C08.VALUE", vb.short, f"after its views were read and the payload of the same BLOB object was replaced by {second!r}, it shows (size, base64, format, bytes) = {tuple(show(x)[:40] for x in it_.second)}, expected {want(second, '.fits')}: a stale derived view travels with the new payload's size", ci=vb, text=f"views:stale:{'same-length' if len(second) == len(payload) else 'other-length'}", witness=f"{payload!r} then {second!r}")
                bad = True
    def spellings(payload):
        """Legal spellings of one payload: on one line, wrapped (the reference server breaks lines), wrapped and indented
        (pretty-printed XML), CRLF; None / '' for the empty payload."""
        t = _b.b64encode(payload).decode("ascii")
        out = [t]
        if len(t) > 8:
            out += ["\n".join(t[i:i + 8] for i in range(0, len(t), 8)), "\n" + "\n".join("    " + t[i:i + 8] for i in range(0, len(t), 8)) + "\n  ", "\r\n".join(t[i:i + 12] for i in range(0, len(t), 12)), t[:4] + "\t" + t[4:]]
        if not payload:
            out += [None, "\n  "]
        return out

    for payload in _PAYLOADS:
        for text in spellings(payload):
            n += 1

            def run2(it: Interp, text=text):
                o = it.run_function(Fn(fb, Cls(vb)), [Const(text), Const(".raw")], {})
                if not isinstance(o, Obj):
                    raise Undecided("from_base64 did not construct an object")
                it.first = views(it, o)
                return Const(None)

            paths = explore(p, run2, {"inline": lambda fi, node: fi.cls is vb, "instantiate": lambda ci: ci is vb, "foreign_model": _b64_model})
            ctx.paths_enumerated += len(paths)
            if len(paths) == 1 and paths[0].outcome == "raise":
                ctx.violated("C08.VALUE", fb.short, f"from_base64({text!r}, '.raw') raises {show(paths[0].value)[:40] if paths[0].value is not None else ''}: a legal spelling of the payload {payload!r} (base64 may be wrapped and indented) is rejected", fi=fb, text="from_base64:raises", witness=repr(text))
                bad = True
            elif len(paths) != 1 or paths[0].outcome != "return":
                ctx.undecided("C08.VALUE", fb.short, f"from_base64({text!r}) not decided by constant evaluation ({len(paths)} paths)", fi=fb)
                bad = True
            elif not same(paths[0].interp.first, want(payload, ".raw")):
                ctx.violated("C08.VALUE", fb.short, f"from_base64({text!r}, '.raw') shows {tuple(show(x)[:40] for x in paths[0].interp.first)}, expected {want(payload, '.raw')}", fi=fb, text="from_base64", witness=repr(text))
                bad = True
    ctx.counters["C08.VALUE:scenarios"] = n
    if not bad:
        ctx.holds("C08.VALUE", vb.short, f"{n} scenarios on {len(_PAYLOADS)} constant payloads: size/base64/format/bytes follow the current payload (fresh and after replacement); from_base64 inverts the base64 view", ci=vb)


def rule_codec(ctx):
    p = ctx.p
    vb = p.cls("indi.device.values.BLOB")
    # (values.BLOB itself - encode/decode pair, size, constructor - is decided semantically by C08.VALUE)
    # producer (driver side; the client-side producer is decided by the imported C06.CTOR)
    from .common import backing_field, public_get
    from .driverworld import _reachable_objs, build_drivers
    from .clientworld import build_mirror, client_opts
    ecls = p.cls(f"{IE}.BLOB")
    f_ = ecls.find_method("to_set_message")
    valf = backing_field(p, ecls, "value")

    def run_prod(it: Interp):
        drivers = build_drivers(it, p)
        by = {o.label: o for o in _reachable_objs(drivers["DEVA"])}
        el, other = by.get("el:DEVA.V4.A"), by.get("el:DEVA.V4.B")
        if el is None or other is None or valf not in el.attrs:
            raise Undecided("constructed driver has no BLOB elements V4.A / V4.B with a value field")
        for o, tag in ((el, ""), (other, ":other")):
            o.attrs[valf] = Obj(None, {"binary_base64": Obj(None, label=f"<b64{tag}>"), "size": Obj(None, label=f"<size{tag}>"), "format": Obj(None, label=f"<fmt{tag}>")}, label=f"<blob{tag}>")
        return it.run_function(Fn(f_, el), [], {})

    paths = explore(p, run_prod, {"inline": lambda fi, node: fi.kind == "getter" and fi.module.name.startswith("indi.device.properties")})
    ok = bool(paths)
    for pa in paths:
        v = pa.value
        kw = dict(v.args[2]) if pa.outcome == "return" and isinstance(v, Term) and v.op == "call" else {}
        if [getattr(kw.get(k), "label", None) for k in ("value", "size", "format")] != ["<b64>", "<size>", "<fmt>"]:
            ok = False
    ctx.check(ok, "C08.CODEC", f_.short, "oneBLOB(value=base64, size=len, format) of the element's own value object", "a BLOB producer does not send its value's base64 text together with that value's size and format", fi=f_, text=f"producer:{f_.cls.module.name}")
    # ... also for the degenerate payloads: real values.BLOB objects of length 0 and 1 with a non-empty format
    for payload in (b"", b"x"):
        def run_prod0(it: Interp, payload=payload):
            drivers = build_drivers(it, p)
            el = {o.label: o for o in _reachable_objs(drivers["DEVA"])}.get("el:DEVA.V4.A")
            from ..absint import Frame
            saved = dict(it.opts)
            it.opts["instantiate"] = lambda ci: ci is vb
            it.opts["inline"] = lambda fi, node: fi.cls is vb
            try:
                blob = it.apply(Cls(vb), [Const(payload), Const(".fits")], {}, [], None, Frame(None, vb.module, {}), False)
            finally:
                it.opts.clear()
                it.opts.update(saved)
            if not isinstance(blob, Obj):
                raise Undecided("values.BLOB(...) did not yield an abstract object")
            blob.label = "<blob0>"
            el.attrs[valf] = blob
            return it.run_function(Fn(f_, el), [], {})

        paths = explore(p, run_prod0, {"inline": lambda fi, node: (fi.kind == "getter" and fi.module.name.startswith("indi.device.properties")) or fi.cls is vb, "foreign_model": _b64_model})
        ok0 = len(paths) == 1 and paths[0].outcome == "return"
        got0 = None
        if ok0:
            v = paths[0].value
            kw = dict(v.args[2]) if isinstance(v, Term) and v.op == "call" else {}
            got0 = {k: show(kw.get(k)) for k in ("size", "format")}
            ok0 = got0 == {"size": repr(len(payload)), "format": "'.fits'"}
        ctx.check(ok0, "C08.CODEC", f"{f_.short}[{len(payload)}-byte payload]", "format and length of the value object are sent", f"a {len(payload)}-byte BLOB with format '.fits' is published as {got0}: format or length of the payload is lost", fi=f_, text=f"producer-degenerate:{len(payload)}", witness=f"BLOB({payload!r}, '.fits')")
    # consumers
    def child():
        return Obj(p.cls("indi.message.one_parts.OneBLOB"), {"name": Const("A"), "value": Obj(None, label="<text>"), "format": Obj(None, label="<format>"), "size": Obj(None, label="<size>"), "__closed__": Const(True)}, label="child")

    def is_decoded(t):
        return isinstance(t, Term) and is_call(t, method="from_base64") and [getattr(x, "label", None) for x in t.args[1]] == ["<text>", "<format>"]

    g = ecls.find_method("set_value_from_message")

    def run_cd(it: Interp):
        drivers = build_drivers(it, p)
        el = {o.label: o for o in _reachable_objs(drivers["DEVA"])}.get("el:DEVA.V4.A")
        it.el = el
        return it.run_function(Fn(g, el), [child()], {})

    paths = explore(p, run_cd, {"inline": lambda fi, node: False, "assert_forks": False})
    ok = bool(paths)
    for pa in paths:
        if pa.outcome != "return":
            continue
        dec_ = [e for e in pa.events if e.kind == "call" and is_call(e.data["term"], method="from_base64")]
        sink = [e for e in pa.calls(method="set_value") if e.data["args"] and dec_ and e.data["args"][0] is dec_[0].data["term"] and isinstance(e.data["callee"], Fn) and e.data["callee"].self_val is pa.interp.el]
        if len(dec_) != 1 or not is_decoded(dec_[0].data["term"]) or len(sink) != 1:
            ok = False
    ctx.check(ok, "C08.CODEC", g.short, "decodes msg.value/msg.format once and keeps exactly that object", "a BLOB consumer does not decode (msg.value, msg.format) exactly once and keep that object", fi=g, text=f"consumer:{g.cls.module.name}")
    h = p.cls("indi.client.elements.BLOB").find_method("set_value_from_message")

    def run_cc(it: Interp):
        cl, vecs, els = build_mirror(it, p, "BLOB", layout=(("DEV", "V1"),))
        el = els[("DEV", "V1", "A")]
        r = it.run_function(Fn(h, el), [child()], {})
        it.kept = public_get(it, el, "value")
        it.kept_other = public_get(it, els[("DEV", "V1", "B")], "value")
        return r

    paths = explore(p, run_cc, {"inline": lambda fi, node: False, "assert_forks": False})
    ok = bool(paths)
    for pa in paths:
        if pa.outcome != "return":
            continue
        dec_ = [e for e in pa.events if e.kind == "call" and is_call(e.data["term"], method="from_base64")]
        if len(dec_) != 1 or not is_decoded(dec_[0].data["term"]) or pa.interp.kept is not dec_[0].data["term"] or is_decoded(pa.interp.kept_other):
            ok = False
    ctx.check(ok, "C08.CODEC", h.short, "decodes msg.value/msg.format once and keeps exactly that object", "a BLOB consumer does not decode (msg.value, msg.format) exactly once and keep that object as the element's value", fi=h, text=f"consumer:{h.cls.module.name}")


def rule_null(ctx):
    p = ctx.p
    vb = p.cls("indi.device.values.BLOB")
    f = vb.find_method("from_base64")

    def raiser(ev):
        callee = ev.data.get("callee")
        if isinstance(callee, Foreign) and "b64decode" in callee.dotted:
            a = ev.data.get("args") or []
            if a and isinstance(a[0], Const) and a[0].v is None:
                return "TypeError"
        return None

    bad = False
    for label, val in (("absent payload (None)", Const(None)), ("empty payload", Const("")), ("some text", Term("param", "text", pytype="str"))):
        paths = run_method(p, f, self_val=Cls(vb), args=[val, Const(".bin")], opts={"call_may_raise": raiser})
        for pa in paths:
            if pa.outcome != "return":
                ctx.violated("C08.NULL", f.short, f"decoding an {label} raises {show(pa.value)[:40]}: receiving an empty BLOB kills the receiver", fi=f, text=f"null:{label}", witness='<oneBLOB name="b" size="0" format=".bin"/>')
                bad = True
            elif isinstance(val, Const):
                dec = [e for e in pa.events if e.kind == "call" and "b64decode" in show(e.data["term"])]
                if not dec or not (isinstance(dec[0].data["args"][0], Const) and dec[0].data["args"][0].v in ("", b"")):
                    ctx.violated("C08.NULL", f.short, f"an {label} is decoded from {show(dec[0].data['args'][0]) if dec else None} instead of the empty string", fi=f, text=f"nullarg:{label}")
                    bad = True
    if not bad:
        ctx.holds("C08.NULL", f.short, "None and '' decode to zero bytes; nothing raises", fi=f)


def rule_pred(ctx):
    pred_table(ctx, "C08.PRED", only_tags={"setBLOBVector", "defBLOBVector", "setNumberVector"})


def rule_config(ctx):
    p = ctx.p
    ch = p.cls("indi.transport.client.tcp.ConnectionHandler")
    init = ch.methods["__init__"]
    TH = "max_buffer_size_before_frontal_cleanup"
    Bc = B.buf_cls(p)

    def threshold_of(it, holder):
        """The threshold the buffer of a constructed object ends up with (read from the object, however it was set)."""
        return holder.attrs.get(TH) if isinstance(holder, Obj) else None

    def built(fb):
        """ConnectionHandler(reader, writer, callback, for_blobs=fb) by its real constructor; the buffer by its own."""
        out = []

        def run(it):
            from ..absint import Frame
            o = it.apply(Cls(ch), [Term("param", "reader"), Term("param", "writer"), Term("param", "callback")], {"for_blobs": Const(fb)}, [], None, Frame(None, ch.module, {}), False)
            bufs = [v for v in (o.attrs.values() if isinstance(o, Obj) else []) if isinstance(v, Obj) and v.cls is Bc]
            out.append(threshold_of(it, bufs[0]) if len(bufs) == 1 else "no-buffer")
            return Const(None)

        try:
            explore(p, run, {"inline": lambda fi, node: fi.cls in (ch, Bc) or fi.name in ("all_message_classes", "tag_name"), "instantiate": lambda ci: ci in (ch, Bc), "foreign_model": B.stringio_model})
        except Undecided as ex:
            return None, str(ex)
        return out, None

    for fb, expect_none in ((True, True), (False, False)):
        vals, why = built(fb)
        if vals is None:
            ctx.undecided("C08.CONFIG", f"{init.short}[for_blobs={fb}]", f"the connection handler could not be constructed abstractly: {why}", fi=init)
            continue
        if expect_none:
            ok = bool(vals) and all(isinstance(v, Const) and v.v is None for v in vals)
        else:
            ok = bool(vals) and all(isinstance(v, Const) and isinstance(v.v, int) and not isinstance(v.v, bool) and v.v > 0 for v in vals)
        ctx.check(ok, "C08.CONFIG", f"{init.short}[for_blobs={fb}]", "threshold disabled iff for_blobs", ("the BLOB connection keeps the junk-recovery threshold: a payload longer than it is discarded as junk" if fb else "the control connection disables the junk-recovery threshold"), fi=init, text=f"threshold:{fb}")
    # default argument
    a = init.node.args
    names = [x.arg for x in a.args]
    dflt = None
    if "for_blobs" in names:
        i = names.index("for_blobs") - (len(names) - len(a.defaults))
        dflt = a.defaults[i] if i >= 0 else None
    ctx.check(isinstance(dflt, ast.Constant) and dflt.value is False, "C08.CONFIG", init.short + " default", "for_blobs defaults to False", "for_blobs does not default to False", fi=init, text="default")
    tcp = p.cls("indi.transport.client.tcp.TCP")
    con = tcp.find_method("connect")
    paths = run_method(p, con)
    ok = True
    for pa in paths:
        news = [e for e in pa.events if e.kind == "call" and isinstance(e.data["callee"], Cls) and e.data["callee"].ci is ch]
        if len(news) != 1:
            ok = False
            continue
        kw = news[0].data["kwargs"]
        args = news[0].data["args"]
        fbv = kw.get("for_blobs") or (args[3] if len(args) > 3 else None)
        if fbv is None or show(fbv) != "for_blobs":
            ok = False
    ctx.check(ok, "C08.CONFIG", con.short, "forwards for_blobs to the connection handler", "TCP.connect does not forward for_blobs to the connection handler", fi=con, text="forward")
    st = p.cls("indi.client.client.Client").find_method("start")
    paths = run_method(p, st)
    ok = True
    for pa in paths:
        cons = pa.calls(method="connect")
        seen = {}
        for e in cons:
            who = show(e.data["term"].args[0])
            fbv = e.data["kwargs"].get("for_blobs")
            seen["blob" if "blob_connection" in who else "control"] = (isinstance(fbv, Const) and fbv.v is True)
        if seen != {"blob": True, "control": False}:
            ok = False
        stores = {e.data["attr"]: show(e.data["value"]) for e in pa.events if e.kind == "store"}
        if "blob_connection.connect" not in stores.get("blob_connection_handler", "") or "control_connection.connect" not in stores.get("control_connection_handler", ""):
            ok = False
    ctx.check(ok, "C08.CONFIG", st.short, "for_blobs=True for the BLOB connection only", "Client.start does not request the disabled threshold for exactly the BLOB connection", fi=st, text="start")
    binit = Bc.methods["__init__"]
    vals = []

    def run_default(it):
        from ..absint import Frame
        o = it.apply(Cls(Bc), [], {}, [], None, Frame(None, Bc.module, {}), False)
        vals.append(threshold_of(it, o))
        return Const(None)

    try:
        explore(p, run_default, {"inline": lambda fi, node: fi.cls is Bc or fi.name in ("all_message_classes", "tag_name"), "instantiate": lambda ci: ci is Bc, "foreign_model": B.stringio_model})
        ok = bool(vals) and all(isinstance(v, Const) and isinstance(v.v, int) and not isinstance(v.v, bool) and v.v > 0 for v in vals)
        ctx.check(ok, "C08.CONFIG", binit.short, "default threshold is a positive integer", "the default junk-recovery threshold is not a positive integer", fi=binit, text="default-threshold")
    except Undecided as ex:
        ctx.undecided("C08.CONFIG", binit.short, f"Buffer() could not be constructed abstractly: {ex}", fi=binit)


def rule_inbound(ctx):
    """Every link on which BLOB payloads arrive must run its receive buffer with the junk-recovery threshold disabled:
    with a threshold, a message longer than it that arrives in more than one read is cut up as junk and never delivered
    (C02 only promises delivery up to the threshold).  The client side is decided by C08.CONFIG (its BLOB connection);
    this rule decides the server side, whose connections receive the clients' uploads (newBLOBVector)."""
    from .c18 import server_handlers
    p = ctx.p
    bcls = B.buf_cls(p)
    TH = "max_buffer_size_before_frontal_cleanup"
    hs = server_handlers(p)
    ctx.floor("C08.INBOUND", "server connection handler classes", len(hs), 2)
    for ci in hs:
        init = ci.find_method("__init__")
        sig = p.init_chain_signature(ci)

        def run(it: Interp):
            o = Obj(ci, {}, label="handler")
            it.handler = o
            it.run_function(Fn(init, o), [], {n: Obj(None, label=f"<{n}>") for n in sig.required()})
            return Const(None)

        paths = explore(p, run, {"inline": lambda fi, node: fi.cls is bcls and fi.name == "__init__", "instantiate": lambda k: k is bcls})
        ctx.paths_enumerated += len(paths)
        verdict = None
        for pa in paths:
            if pa.outcome != "return":
                continue
            bufs = [v for v in pa.interp.handler.attrs.values() if isinstance(v, Obj) and v.cls is bcls]
            if len(bufs) != 1 or TH not in bufs[0].attrs:
                verdict = "?"
                break
            t = bufs[0].attrs[TH]
            if not (isinstance(t, Const) and t.v is None):
                verdict = show(t)
        if verdict == "?":
            ctx.undecided("C08.INBOUND", init.short, "the handler's receive buffer or its threshold was not found by abstract construction", fi=init)
        else:
            ctx.check(verdict is None, "C08.INBOUND", init.short, "receive buffer constructed with the threshold disabled", f"this connection receives client uploads (newBLOBVector) but its receive buffer keeps the junk-recovery threshold {verdict}: an uploaded BLOB whose message is longer than that and arrives in more than one read is discarded as junk and never reaches the driver", fi=init, text="threshold-enabled", witness="a newBLOBVector of 10 kB read in 1024-byte pieces: 0 messages delivered")


def rule_progress(ctx):
    B.check_progress(ctx, "C08.PROGRESS", only_threshold_none=True)
    # a cached scan offset that survives a truncation makes a complete payload invisible: the link stalls for good
    B.check_aux(ctx, "C08.AUX")
    # with the threshold disabled the only way out of the loop for an incomplete message is the break
    try:
        f, paths = B.explore_process(ctx)
    except B.RolesUnknown:
        return  # decided on the end-to-end catalogue by check_progress above (incomplete messages with the threshold disabled are in it)
    ok = False
    for pa in paths:
        if B.threshold_none_path(pa) is True:
            for it_idx, evs, how in B.iteration_segments(pa, f):
                if how == "break" and not B.callback_calls(evs):
                    ok = True
    ctx.check(ok, "C08.PROGRESS", f.short + "[threshold disabled]", "an incomplete message leaves the loop (waits for more data) without calling the consumer", "with the threshold disabled there is no path that leaves the loop when no complete message is available", fi=f, text="no-break-path")


# per-device policy independence; upload constructor and size coercion
IMPORTS = [('C05', 'C05.KEY'), ('C06', 'C06.CTOR'), ('C06', 'C06.COERCE'), ('C19', 'C19.LOCK'), ('C02', 'C02.DECODE'), ('C02', 'C02.LOOP'), ('C03', 'C03.READ')]  # C02.LOOP: every chunk read is processed at once (a payload never sits in the buffer waiting for later traffic)

RULES = [
    ("C08.VALUE", rule_value, "values.BLOB on constant payloads: size/base64/format/bytes follow the current payload, also after replacement; from_base64 inverts"),
    ("C08.CODEC", rule_codec, "matching base64 pair; producers send base64+size+format of one value; consumers decode once and keep that object"),
    ("C08.NULL", rule_null, "empty/absent payload never reaches b64decode as None"),
    ("C08.PRED", rule_pred, "BLOB rows of the router's delivery truth table"),
    ("C08.INBOUND", rule_inbound, "server connections (which receive uploads) run their receive buffer with the threshold disabled"),
    ("C08.CONFIG", rule_config, "threshold disabled exactly on the BLOB connection"),
    ("C08.PROGRESS", rule_progress, "framing loop progress on threshold-disabled paths"),
]
