"""C03 - serialize-then-parse is the identity: writer and reader tables agree, class by class."""
from __future__ import annotations

import ast

from ..absint import Cls, Const, Dct, Fn, Foreign, Interp, Lst, Obj, Term, Tup, explore, is_call, mentions, run_method, show, subterms
from ..model import Undecided, stmt_text
from .common import (
    abstract_construct, concrete_message_classes, concrete_part_classes, flag, full_kwargs, instantiated_classes,
    is_registered, is_sym, lower_first, msg_base, part_base, path_text, sym,
)

EXPLANATION = (
    "Static agreement check between the serializer and the parser of indi/message. C03.REG: every message class that can be emitted "
    "(direction flag set, or constructed / bound as a *_class anywhere under indi/) is in the parser's registry, tags are unique and both "
    "sides derive the tag from the same function. C03.SYM/VALUE/STABLE: each constructor chain is abstractly interpreted with one symbol "
    "per parameter; every instance attribute (which to_xml writes under its own name) must be fed by the constructor parameter of the "
    "same name (otherwise it is dropped into **junk on re-parse), the text by 'value', and the set and order of attributes must be the "
    "same on every path. C03.WRITE: to_xml is interpreted on instances whose attributes are symbols, 0, '' and None: everything but None "
    "must be written under its own name, the text from 'value', children in order. C03.READ: from_xml is abstractly interpreted (constructors "
    "instantiated) on abstract XML elements of every registered kind with two sub-elements each, in registry order and in reverse order "
    "within one interpreter state (so a cache shared between calls or between the two hierarchies shows): each element must parse to the "
    "class of its own hierarchy whose tag it carries, every XML attribute must arrive in the same-named attribute, text stripped, empty "
    "text absent, children in document order; unknown tags raise."
)
NOT_DECIDED = "ElementTree's escaping/unescaping over all XML-representable text, attribute order produced by foreign serializers."
ASSUMPTIONS = [
    "xml.etree.ElementTree serialises the attributes and text it is given and parses them back (escaping is its contract)",
    "str() of a protocol scalar parses back to an equal scalar text",
]
TRUSTED = ["CPython ast", "indilint abstract interpreter (absint.py)"]


# ------------------------------------------------------------------------ C03.REG
def rule_reg(ctx):
    p = ctx.p
    base = msg_base(p)
    inst = instantiated_classes(p)
    classes = base.all_subclasses()
    ctx.floor("C03.REG", "classes below IndiMessage", len(classes), 21)
    n = 0
    tags = {}
    for ci in classes:
        fc, fd = flag(p, ci, "from_client"), flag(p, ci, "from_device")
        emit_sites = inst.get(ci.qualname, [])
        abstract = bool(ci.subclasses) and not emit_sites and not is_registered(ci)
        if abstract:
            continue
        n += 1
        emittable = bool(fc) or bool(fd) or bool(emit_sites)
        if is_registered(ci):
            tags.setdefault(lower_first(ci.name), []).append(ci)
            ctx.holds("C03.REG", ci.short, "registered", ci=ci)
        elif emittable:
            where = ""
            for fi, node in emit_sites:
                if fi is not None:
                    where = f" (constructed in {fi.short})"
                    break
            ctx.violated(
                "C03.REG", ci.short,
                f"<{lower_first(ci.name)}> can be emitted{where} but is not in the parser's registry: from_string(x.to_string()) raises 'Invalid message'",
                ci=ci, text=f"unregistered:{ci.name}", witness=f"IndiMessage.from_string({ci.name}(...).to_string())",
            )
    ctx.floor("C03.REG", "concrete message classes", n, 21)
    for t, cs in tags.items():
        ctx.check(len(cs) == 1, "C03.REG", f"tag:{t}", "unique tag", f"tag <{t}> is claimed by {[c.qualname for c in cs]}; the parser picks the last one", ci=cs[0], text=f"dup:{t}")
    ptags = {}
    for pc in part_base(p).all_subclasses():
        if not pc.subclasses:
            ptags.setdefault(lower_first(pc.name), []).append(pc)
    for t, cs in ptags.items():
        ctx.check(len(cs) == 1, "C03.REG", f"part-tag:{t}", "unique tag", f"part tag <{t}> is claimed by {[c.qualname for c in cs]}", ci=cs[0], text=f"dup:{t}")
    # both hierarchies derive the tag the same way (sibling agreement)
    f1, f2 = base.find_method("tag_name"), part_base(p).find_method("tag_name")
    if f1 is None or f2 is None:
        raise Undecided("tag_name not found")
    same = [ast.dump(s) for s in f1.node.body] == [ast.dump(s) for s in f2.node.body]
    ctx.check(same, "C03.REG", "tag_name siblings", "message and part tag functions agree", "IndiMessage.tag_name and IndiMessagePart.tag_name differ", fi=f2, text="tag_name")
    # the tag function must be overridden nowhere
    for ci in classes + part_base(p).all_subclasses():
        if "tag_name" in ci.methods:
            ctx.undecided("C03.REG", ci.short, "tag_name overridden in a subclass", ci=ci)
    # registry functions: register_message appends its argument to the one class-level list and returns it;
    # all_message_classes returns that same list
    reg = base.find_method("register_message")
    allc = base.find_method("all_message_classes")
    state = {}

    def run_reg(it: Interp):
        r1 = it.run_function(Fn(reg, Cls(base)), [Term("param", "message_class")], {})
        state["ret"] = r1
        state["list"] = it.run_function(Fn(allc, Cls(base)), [], {})
        return r1

    paths = explore(p, run_reg, {"inline": lambda fi, node: False})
    ok = len(paths) == 1 and paths[0].outcome == "return" and show(state.get("ret")) == "message_class"
    lst = state.get("list")
    ok_list = isinstance(lst, Lst) and [show(x) for x in lst.items] == ["message_class"]
    ctx.check(ok and ok_list, "C03.REG", "register_message", "appends the class to the registry that all_message_classes returns, and returns the class", "register_message / all_message_classes do not maintain one shared registry list (append + return the argument; return the list)", fi=reg, text="register_message")


# ------------------------------------------------------------- C03.SYM / VALUE / STABLE
def _arg0_is_sym(v, name):
    """v is <name> itself or checks.*(<name>, ...) / self.check_value-like pass-through."""
    if is_sym(v, name):
        return True
    if isinstance(v, Term) and v.op == "call" and v.args[1]:
        callee = v.args[0]
        if isinstance(callee, Fn) and callee.fi.module.name == "indi.message.checks":
            return is_sym(v.args[1][0], name)
    return False


def rule_sym(ctx):
    p = ctx.p
    classes = concrete_message_classes(p) + concrete_part_classes(p)
    ctx.floor("C03.SYM", "message+part classes", len(classes), 31)
    for ci in classes:
        sig = p.init_chain_signature(ci)
        kw = full_kwargs(p, ci)
        res = abstract_construct(p, ci, kw, inline_prefixes=("indi.message.base.", "indi.message.defs.", "indi.message.sets.", "indi.message.news.", "indi.message.def_parts.", "indi.message.one_parts.", "indi.message.get_properties.", "indi.message.enable_blob.", "indi.message.del_property.", "indi.message.pings.", "indi.message.one_light."))
        ctx.paths_enumerated += len(res)
        ok_paths = [(pa, o) for pa, o in res if pa.outcome == "return"]
        if not ok_paths:
            ctx.violated("C03.SYM", ci.short, "constructor raises for every argument combination", ci=ci, text=f"ctor-raises:{ci.name}")
            continue
        # STABLE: same attribute list in the same order on every non-raising path, also when every optional
        # parameter is omitted (None) - an attribute that only exists for some argument values breaks readers
        kw_none = {n_: (sym(n_) if prm.required else Const(None)) for n_, prm in sig.named().items()}
        res_none = abstract_construct(p, ci, kw_none, inline_prefixes=("indi.message.base.", "indi.message.defs.", "indi.message.sets.", "indi.message.news.", "indi.message.def_parts.", "indi.message.one_parts.", "indi.message.get_properties.", "indi.message.enable_blob.", "indi.message.del_property.", "indi.message.pings.", "indi.message.one_light."))
        ok_paths_all = ok_paths + [(pa, o) for pa, o in res_none if pa.outcome == "return"]
        orders = {tuple(k for k in o.attrs if not k.startswith("__")) for _, o in ok_paths_all}
        if len(orders) != 1:
            ctx.violated("C03.STABLE", ci.short, f"the set/order of instance attributes depends on the path taken in the constructor: {sorted(orders)}", ci=ci, text=f"unstable:{ci.name}")
        else:
            ctx.holds("C03.STABLE", ci.short, f"attributes {list(orders)[0]} on every path", ci=ci)
        pa, o = ok_paths[0]
        named = sig.named()
        bad = False
        for k, v in o.attrs.items():
            if k.startswith("__"):
                continue
            if isinstance(v, Const) and v.v is None:
                ctx.note(f"{ci.name}.{k} is the constant None (never emitted)")
                continue
            if k == "children":
                good = isinstance(v, Term) and v.op == "call" and isinstance(v.args[0], Fn) and v.args[0].fi.qualname == "indi.message.checks.children" and v.args[1] and is_sym(v.args[1][0], "children")
                if not good:
                    ctx.violated("C03.SYM", ci.short, f"'children' is not fed by the 'children' parameter through checks.children: {show(v)[:80]}", ci=ci, text=f"{ci.name}.children")
                    bad = True
                continue
            if k not in named:
                ctx.violated("C03.SYM", ci.short, f"attribute '{k}' is written to the wire but the constructor has no parameter '{k}': on re-parse it falls into **junk and is lost", ci=ci, text=f"{ci.name}.{k}", witness=f"{ci.name} with {k} set; reparse")
                bad = True
                continue
            # value through check_value (parts) or checks.* is fine
            vv = v
            if isinstance(vv, Term) and vv.op == "call" and isinstance(vv.args[0], Fn) and vv.args[0].fi.name == "check_value" and vv.args[1]:
                vv = vv.args[1][0]
            if not _arg0_is_sym(vv, k):
                ctx.violated("C03.SYM", ci.short, f"attribute '{k}' is not the constructor parameter '{k}' (it is {show(v)[:60]}): the re-parsed message differs", ci=ci, text=f"{ci.name}.{k}", witness=f"{ci.name} with {k} set; reparse")
                bad = True
        if not bad:
            ctx.holds("C03.SYM", ci.short, f"{len([k for k in o.attrs if not k.startswith('__')])} attributes fed by same-named parameters", ci=ci)


# ----------------------------------------------------------------------- C03.WRITE
VERBATIM = " a  b\tc\n<&'\"> "


def _instance_for_write(ctx, ci, fill, nkids=3):
    p = ctx.p
    res = abstract_construct(p, ci, full_kwargs(p, ci))
    attrs = None
    for pa, o in res:
        if pa.outcome == "return":
            attrs = o.attrs
    if attrs is None:
        raise Undecided(f"cannot construct {ci.name}")
    o = Obj(ci, {"__closed__": Const(True)}, label="m")
    kids = []
    for k in attrs:
        if k.startswith("__"):
            continue
        if k == "children":
            ccls = None
            for cand in ("children_class", "child_class"):
                v = p.class_constant(ci, cand)
                if v is not None and hasattr(v, "mro"):
                    ccls = v
            for i in range(nkids):
                kids.append(Obj(ccls, {"__closed__": Const(True), "name": sym(f"c{i}.name"), "value": sym(f"c{i}.value")}, label=f"child{i}"))
            o.attrs[k] = Lst(kids)
        else:
            o.attrs[k] = fill(k)
    return o, kids


def _xml_create_call(pa, part):
    want = "SubElement" if part else "Element"
    for e in pa.events:
        if e.kind == "call" and isinstance(e.data["callee"], Foreign) and e.data["callee"].dotted.endswith("." + want):
            return e
    return None


def rule_write(ctx):
    p = ctx.p
    fills = {
        "symbol": lambda k: sym(k),
        "zero": lambda k: Const(0),
        "empty-string": lambda k: Const(""),
        "None": lambda k: Const(None),
        # text whose every character matters: runs of blanks, tab, newline, leading/trailing blank, markup characters
        "verbatim-text": lambda k: Const(VERBATIM),
    }
    n = 0
    for ci in concrete_message_classes(p) + concrete_part_classes(p):
        part = part_base(p) in ci.mro
        f = ci.find_method("to_xml")
        inst = f"{f.short}[{ci.name}]"
        bad = False
        for fname, fill in fills.items():
            if part:
                o = Obj(ci, {"__closed__": Const(True)}, label="m")
                res = abstract_construct(p, ci, full_kwargs(p, ci))
                for pa, oo in res:
                    if pa.outcome == "return":
                        for k in oo.attrs:
                            if not k.startswith("__"):
                                o.attrs[k] = fill(k)
                kids = []
            else:
                o, kids = _instance_for_write(ctx, ci, fill)

            def run(it: Interp, o=o, f=f, part=part):
                return it.run_function(Fn(f, o), [Term("param", "parent")] if part else [], {})

            paths = explore(p, run, {"inline": lambda fi, node: False})
            ctx.paths_enumerated += len(paths)
            n += 1
            for pa in paths:
                if pa.outcome != "return":
                    ctx.violated("C03.WRITE", inst, f"to_xml raises with attributes = {fname}", fi=f, text=f"raise:{ci.name}:{fname}")
                    bad = True
                    continue
                ev = _xml_create_call(pa, part)
                if ev is None:
                    ctx.undecided("C03.WRITE", inst, "no ElementTree element construction found", fi=f)
                    bad = True
                    continue
                args, kwargs = ev.data["args"], ev.data["kwargs"]
                tagarg = args[1] if part and len(args) > 1 else (args[0] if args else None)
                right_tag = isinstance(tagarg, Const) and tagarg.v == lower_first(ci.name)  # tag_name() evaluated (e.g. inherited from a private mixin)
                if tagarg is None or not ((isinstance(tagarg, Term) and is_call(tagarg, method="tag_name")) or right_tag):
                    ctx.violated("C03.WRITE", inst, f"element tag is not derived from tag_name(): {show(tagarg) if tagarg else None}", fi=f, text="tag")
                    bad = True
                for k, v in o.attrs.items():
                    if k.startswith("__") or k in ("children", "value"):
                        continue
                    if fname == "None":
                        if k in kwargs:
                            ctx.violated("C03.WRITE", inst, f"attribute '{k}' is written although it is None", fi=f, text=f"{ci.name}.{k}:None")
                            bad = True
                        continue
                    w = kwargs.get(k)
                    if w is None:
                        ctx.violated("C03.WRITE", inst, f"attribute '{k}' with value {fname} is not written to the element: it is lost on the wire", fi=f, text=f"{ci.name}.{k}:{fname}", witness=f"{ci.name}({k}={show(v)})")
                        bad = True
                    elif fname == "symbol" and not mentions(w, lambda t: t is v):
                        ctx.violated("C03.WRITE", inst, f"attribute '{k}' is written with a value that does not derive from it: {show(w)[:60]}", fi=f, text=f"{ci.name}.{k}:value")
                        bad = True
                    elif fname == "verbatim-text" and not (isinstance(w, Const) and w.v == VERBATIM):
                        ctx.violated("C03.WRITE", inst, f"attribute '{k}' = {VERBATIM!r} is written as {show(w)[:60]}: text does not reach the wire unchanged (blanks, line breaks or markup characters are altered)", fi=f, text=f"{ci.name}.{k}:verbatim", witness=f"{ci.name}({k}={VERBATIM!r})")
                        bad = True
                    elif fname == "zero" and not (isinstance(w, Const) and w.v == "0"):
                        ctx.violated("C03.WRITE", inst, f"attribute '{k}' = 0 is written as {show(w)[:40]}", fi=f, text=f"{ci.name}.{k}:zero")
                        bad = True
                extra = [k for k in kwargs if k not in o.attrs or k in ("children", "value")]
                if extra:
                    ctx.violated("C03.WRITE", inst, f"XML attributes {extra} do not correspond to message attributes", fi=f, text=f"{ci.name}:extra:{extra}")
                    bad = True
                if "value" in o.attrs:
                    st = [e for e in pa.stores("text")]
                    if fname == "None":
                        if st:
                            ctx.violated("C03.WRITE", inst, "text is written although value is None", fi=f, text=f"{ci.name}.text:None")
                            bad = True
                    elif st and fname == "verbatim-text" and not (isinstance(st[-1].data["value"], Const) and st[-1].data["value"].v == VERBATIM):
                        ctx.violated("C03.WRITE", inst, f"element text for value = {VERBATIM!r} is written as {show(st[-1].data['value'])[:60]}: text does not reach the wire unchanged", fi=f, text=f"{ci.name}.text:verbatim", witness=f"{ci.name}(value={VERBATIM!r})")
                        bad = True
                    elif not st or (fname == "symbol" and not mentions(st[-1].data["value"], lambda t: t is o.attrs["value"])):
                        ctx.violated("C03.WRITE", inst, f"element text is not written from 'value' (value = {fname})", fi=f, text=f"{ci.name}.text:{fname}")
                        bad = True
                if kids:
                    calls = [e for e in pa.events if e.kind == "call" and is_call(e.data["term"], method="to_xml")]
                    order = [show(e.data["callee"].self_val) if isinstance(e.data["callee"], Fn) else "?" for e in calls]
                    if order != [k.label for k in kids]:
                        ctx.violated("C03.WRITE", inst, f"children are serialised as {order}, expected each once in order {[k.label for k in kids]}", fi=f, text=f"{ci.name}.children-order")
                        bad = True
                    else:
                        for e in calls:
                            a0 = e.data["args"][0] if e.data["args"] else None
                            if a0 is None or show(a0) != show(ev.data["term"]):
                                ctx.violated("C03.WRITE", inst, "a child is not attached to the message's own element", fi=f, text=f"{ci.name}.children-parent")
                                bad = True
        if not bad:
            ctx.holds("C03.WRITE", inst, "all non-None attributes, text and ordered children written (symbol/0/''/None/verbatim-text probes)", fi=f)
    ctx.floor("C03.WRITE", "to_xml evaluations", n, 100)
    ctx.exhaustive_domains.append("every concrete class x {symbol, 0, '', None, text with significant blanks and markup characters} attribute fill")
    # to_string: declaration + serialised element + newline, from to_xml of self; the bytes must be self-describing:
    # default serialisation (us-ascii with character references) or an encoding that the declaration names
    ts = msg_base(p).find_method("to_string")
    paths = run_method(p, ts)
    ok = True
    why = ""
    for pa in paths:
        v = pa.value
        txt = show(v) if v is not None else ""
        calls = [e for e in pa.events if e.kind == "call" and isinstance(e.data["callee"], Foreign) and e.data["callee"].dotted.endswith(".tostring")]
        if pa.outcome != "return" or len(calls) != 1:
            ok, why = False, "does not serialise the element exactly once with ElementTree.tostring"
            continue
        a = calls[0].data["args"]
        kw = calls[0].data["kwargs"]
        if not a or show(a[0]) != "self.to_xml()":
            ok, why = False, "does not serialise self.to_xml()"
        enc = kw.get("encoding", a[1] if len(a) > 1 else None)
        encv = enc.v if isinstance(enc, Const) else ("?" if enc is not None else None)
        decl = "".join(t.v.decode("latin1") for t in subterms(v) if isinstance(t, Const) and isinstance(t.v, bytes))
        if encv not in (None, "us-ascii", "ascii", "US-ASCII"):
            named = f'encoding="{encv}"' in decl or f"encoding='{encv}'" in decl
            own_decl = isinstance(kw.get("xml_declaration"), Const) and kw["xml_declaration"].v is True
            if encv == "unicode" or not (named or own_decl):
                ok, why = False, f"serialises with encoding={encv!r} (raw non-ASCII bytes) under a declaration that does not name that encoding: text with characters above U+007F is not read back (ParseError or mojibake)"
        if "<?xml" not in decl and not (isinstance(kw.get("xml_declaration"), Const) and kw["xml_declaration"].v):
            ok, why = False, "no XML declaration"
        if not decl.endswith("\n") and not txt.rstrip(")").endswith("b'\\n'"):
            ok, why = False, "no trailing newline"
        if not mentions(v, lambda t: t is calls[0].data["term"]):
            ok, why = False, "the serialised element is not part of the result"
    ctx.check(ok, "C03.WRITE", ts.short, "wire form = declaration + element (self-describing encoding) + newline", f"to_string {why}", fi=ts, text=f"to_string:{why[:40]}", witness="label='Temperature [\u00b0C]'")


# ------------------------------------------------------------------------ C03.READ
def registry_in_import_order(p):
    """Registered message classes in the order their decorators run (module import order of indi/message/__init__)."""
    import ast as _ast
    init = p.module("indi.message")
    order = []
    for st in init.tree.body:
        if isinstance(st, _ast.ImportFrom):
            m = p._abs_module(init, st.module, st.level)
            if m not in order:
                order.append(m)
    regs = [c for c in msg_base(p).all_subclasses() if is_registered(c)]
    # modules imported transitively first (base is imported by every module)
    def key(c):
        m = c.module.name
        return (0 if m == "indi.message.base" else 1 + (order.index(m) if m in order else len(order)), c.node.lineno)
    return sorted(regs, key=key)


def xml_element(tag, attrib, text=None, children=()):
    return Obj(None, {"tag": Const(tag), "attrib": Dct([(Const(k), Const(v)) for k, v in attrib.items()]), "text": Const(text), "__iter__": Lst(list(children))}, label=f"<{tag}>")


def parse_opts(p):
    regs = registry_in_import_order(p)

    def pol(fi, node):
        return fi.module.name.startswith("indi.message.") and fi.module.name != "indi.message.checks"

    def inst(ci):
        return ci.module.name.startswith("indi.message.")

    return regs, {"inline": pol, "instantiate": inst, "max_depth": 12}


def seed_registry(it, p, regs):
    """The registry as the import of the package leaves it: the decorator is interpreted once per registered class,
    in import order (no private name of the registry is assumed)."""
    base = msg_base(p)
    reg = base.find_method("register_message")
    if reg is None:
        raise Undecided("IndiMessage.register_message not found")
    saved = dict(it.opts)
    # whatever the decorator computes from the class (e.g. its tag, for a tag -> class index) is part of registering it
    it.opts["inline"] = lambda fi, node: fi is reg or fi.module.name.startswith("indi.message")
    n = len(it.events)
    try:
        for c in regs:
            it.run_function(Fn(reg, Cls(base)), [Cls(c)], {})
    finally:
        del it.events[n:]
        it.opts.clear()
        it.opts.update(saved)


def check_unknown(ctx, rule):
    """An element whose tag names no registered message / no part class is rejected: abstract parse (whole registry
    seeded) of tags that are unknown, differ in case, or are a prefix / an extension of a known tag."""
    p = ctx.p
    regs, opts = parse_opts(p)
    base = msg_base(p)
    f = base.find_method("from_xml")
    fp = part_base(p).find_method("from_xml")
    for which, fn_, tags in (("message", f, ("fooBar", "GetProperties", "getProperty", "getPropertiesX", "")), ("part", fp, ("fooPart", "OneText", "oneTex", "oneTextX", ""))):
        bad = None
        for tag in tags:
            for history in ("fresh", "after-valid"):
                def run_unknown(it: Interp, fn_=fn_, tag=tag, which=which, history=history):
                    seed_registry(it, p, regs)
                    target = Cls(base if which == "message" else part_base(p))
                    if history == "after-valid":
                        # what was parsed before must not matter: valid elements of two kinds are parsed first (a lookup that
                        # remembers its last answer would hand it out for the unknown tag)
                        warm = [xml_element("getProperties", {"version": "1.7"}, None), xml_element("delProperty", {"device": "d"}, None)] if which == "message" else [xml_element("oneSwitch", {"name": "x"}, "On"), xml_element("oneText", {"name": "x"}, "t")]
                        for w_ in warm:
                            it.run_function(Fn(fn_, target), [w_], {})
                        del it.events[:]
                    return it.run_function(Fn(fn_, target), [xml_element(tag, {"name": "x", "device": "d", "version": "1.7"}, "t")], {})

                paths = explore(p, run_unknown, opts)
                ctx.paths_enumerated += len(paths)
                if not (len(paths) == 1 and paths[0].outcome == "raise"):
                    bad = tag + (" (after valid elements were parsed)" if history == "after-valid" else "")
        ctx.check(bad is None, rule, fn_.short + "[unknown tag]", f"{len(tags)} unknown / near-miss tags all raise", f"an element with the unknown {which} tag <{bad}> is not rejected", fi=fn_, text=f"unknown-tag:{which}", witness=f"<{bad} name='x'/>")


def rule_read(ctx):
    p = ctx.p
    regs, opts = parse_opts(p)
    base = msg_base(p)
    f = base.find_method("from_xml")
    fp = part_base(p).find_method("from_xml")
    if f is None or fp is None:
        raise Undecided("from_xml missing")
    specs = []
    for ci in regs:
        sig = p.init_chain_signature(ci)
        names = [n_ for n_ in sig.named() if n_ not in ("children", "value")]
        attrib = {n_: f"{n_}-text" for n_ in names}
        has_value = "value" in sig.named()
        kids = []
        ccls = None
        for cand in ("children_class", "child_class"):
            v = p.class_constant(ci, cand)
            if v is not None and hasattr(v, "mro"):
                ccls = v
        if ccls is not None:
            psig = p.init_chain_signature(ccls)
            for i in range(2):
                # attribute values are data (a BLOB format may begin or end with a blank): nothing trims them
                pattr = {n_: (f" c{i}-{n_}\t" if n_ != "name" else f"c{i}-{n_}") for n_ in psig.named() if n_ != "value"}
                kids.append((ccls, pattr, f"  child{i} text \n"))
        specs.append((ci, attrib, "  some text  " if has_value else None, kids))
    bad = False
    nparsed = 0
    for order_name, seq in (("registry order", specs), ("reverse order", list(reversed(specs)))):
        results = {}

        def run(it: Interp, seq=seq, results=results):
            seed_registry(it, p, regs)
            for ci, attrib, text, kids in seq:
                ch = [xml_element(lower_first(k.name), pa_, t_) for k, pa_, t_ in kids]
                el = xml_element(lower_first(ci.name), attrib, text, ch)
                results[ci.name] = it.run_function(Fn(f, Cls(base)), [el], {})
            return Const(None)

        paths = explore(p, run, opts)
        ctx.paths_enumerated += len(paths)
        if len(paths) != 1 or paths[0].outcome != "return":
            pa = paths[0]
            raises = [e for e in pa.events if e.kind == "raise"]
            where = f"{raises[-1].fn.short}:{raises[-1].line}" if raises and raises[-1].fn is not None else "?"
            if len(paths) == 1 and pa.outcome == "raise":
                done = sorted(results)
                ctx.violated("C03.READ", f.short, f"parsing the library's own element kinds in {order_name} raises {show(pa.value)[:70] if pa.value is not None else ''} at {where} after {len(done)} of {len(seq)} kinds: a message the library can emit is rejected by its own parser", fi=f, text=f"parse-raises:{order_name}:{where.split('::')[-1].split(':')[0]}", witness=f"{order_name}; fails after {done[-1] if done else 'nothing'}")
            else:
                ctx.undecided("C03.READ", f.short, f"parse sequence not decided by constant evaluation ({len(paths)} paths)", fi=f)
            bad = True
            continue
        for ci, attrib, text, kids in seq:
            nparsed += 1
            r = results.get(ci.name)
            inst = f"{f.short}[<{lower_first(ci.name)}>]"
            if not (isinstance(r, Obj) and r.cls is ci):
                got = r.cls.qualname if isinstance(r, Obj) and r.cls is not None else show(r)[:50]
                ctx.violated("C03.READ", inst, f"<{lower_first(ci.name)}> parses ({order_name}) to {got} instead of {ci.qualname}: the kind of the message changes in a round trip", fi=f, text=f"wrong-class:{ci.name}:{got}", witness=f"parse sequence in {order_name}")
                bad = True
                continue
            for k, v in attrib.items():
                got = r.attrs.get(k)
                if got is None or not mentions(got, lambda t: isinstance(t, Const) and t.v == v):
                    ctx.violated("C03.READ", inst, f"XML attribute {k}={v!r} does not arrive in the message's attribute '{k}' (it is {show(got)[:40] if got is not None else 'missing'})", fi=f, text=f"attr-lost:{ci.name}:{k}")
                    bad = True
            if text is not None:
                got = r.attrs.get("value")
                if got is None or not mentions(got, lambda t: isinstance(t, Const) and t.v == text.strip()):
                    ctx.violated("C03.READ", inst, f"element text {text!r} arrives as {show(got)[:40] if got is not None else None}, expected the stripped text", fi=f, text=f"text:{ci.name}")
                    bad = True
            if kids:
                got = r.attrs.get("children")
                items = None
                if isinstance(got, Term) and got.op == "call" and got.args[1] and isinstance(got.args[1][0], (Tup, Lst)):
                    items = got.args[1][0].items  # checks.children(<parsed>, cls)
                elif isinstance(got, (Tup, Lst)):
                    items = got.items
                if items is None or len(items) != len(kids):
                    ctx.violated("C03.READ", inst, f"{len(kids)} sub-elements arrive as {show(got)[:60] if got is not None else None}", fi=f, text=f"children-count:{ci.name}")
                    bad = True
                else:
                    for i, ((kcls, pattr, ktext), o) in enumerate(zip(kids, items)):
                        if not (isinstance(o, Obj) and o.cls is kcls):
                            gotc = o.cls.qualname if isinstance(o, Obj) and o.cls is not None else show(o)[:40]
                            ctx.violated("C03.READ", inst, f"sub-element #{i} <{lower_first(kcls.name)}> parses ({order_name}) to {gotc} instead of {kcls.qualname}", fi=fp, text=f"child-class:{ci.name}:{gotc}", witness=f"parse sequence in {order_name}")
                            bad = True
                            continue
                        for k, v in pattr.items():
                            g2 = o.attrs.get(k)
                            if g2 is None or not mentions(g2, lambda t: isinstance(t, Const) and t.v == v):
                                ctx.violated("C03.READ", inst, f"sub-element #{i}: attribute {k}={v!r} arrives as {show(g2)[:30] if g2 is not None else 'missing'} (children out of order or attributes lost)", fi=fp, text=f"child-attr:{ci.name}:{k}")
                                bad = True
                        g3 = o.attrs.get("value")
                        if g3 is None or not mentions(g3, lambda t: isinstance(t, Const) and t.v == ktext.strip()):
                            ctx.violated("C03.READ", inst, f"sub-element #{i}: text arrives as {show(g3)[:30] if g3 is not None else None}, expected stripped {ktext.strip()!r}", fi=fp, text=f"child-text:{ci.name}")
                            bad = True
    # empty text is absent text; unknown tags raise
    def run_empty(it: Interp):
        seed_registry(it, p, regs)
        eb = [c_ for c_ in regs if c_.name == "EnableBLOB"][0]
        el = xml_element("setTextVector", {"device": "d", "name": "n", "state": "Ok"}, None, [xml_element("oneText", {"name": "a"}, None), xml_element("oneText", {"name": "b"}, "")])
        return it.run_function(Fn(f, Cls(base)), [el], {})

    paths = explore(p, run_empty, opts)
    ok = len(paths) == 1 and paths[0].outcome == "return" and isinstance(paths[0].value, Obj)
    if ok:
        ch = paths[0].value.attrs.get("children")
        items = ch.args[1][0].items if isinstance(ch, Term) and ch.op == "call" and ch.args[1] and isinstance(ch.args[1][0], (Tup, Lst)) else []
        ok = len(items) == 2 and all(isinstance(o, Obj) and isinstance(o.attrs.get("value"), Const) and o.attrs["value"].v is None for o in items)
    ctx.check(ok, "C03.READ", fp.short + "[empty text]", "absent and empty text both parse to value None", "absent/empty element text does not parse to an absent value", fi=fp, text="empty-text")
    check_unknown(ctx, "C03.READ")
    ctx.counters["C03.READ:elements parsed abstractly"] = nparsed
    if not bad:
        ctx.holds("C03.READ", f.short, f"{nparsed} abstract parses (all registered kinds with two children each, in registry and reverse order): right class per hierarchy, attributes by name, stripped text, children in document order", fi=f)
    fs = msg_base(p).find_method("from_string")
    paths = run_method(p, fs, self_val=Cls(msg_base(p)), args=[Term("param", "string")])
    ok = all(pa.outcome == "return" and isinstance(pa.value, Term) and is_call(pa.value, method="from_xml") and "fromstring(string)" in show(pa.value) for pa in paths)
    ctx.check(ok, "C03.READ", fs.short, "from_string = from_xml(fromstring(text))", "from_string does not parse its whole argument and hand the element to from_xml", fi=fs, text="from_string")


# 'the same attributes': a constructor that drops an argument under some condition breaks the round trip
# the receive path is how a serialised message is parsed in practice: the scan must find it whatever text it carries
# a message the codec produced must also survive the framing loop's 'is this a message?' test (C02.TRUTHY)
IMPORTS = [('C20', 'C20.CTOR'), ('C02', 'C02.FIND'), ('C02', 'C02.DISCARD'), ('C02', 'C02.TRUTHY'), ('C02', 'C02.LOOP')]  # C02.LOOP: what a transport hands to the parser is what it read (no per-line trimming)

EXPLANATION = EXPLANATION + ' C03.WRITE additionally writes a text whose every character matters (runs of blanks, tab, newline, leading/trailing blank, markup characters) into every attribute and element text and requires it to reach the ElementTree element verbatim.'

RULES = [
    ("C03.REG", rule_reg, "every emit-able message class is registered with the parser; tags unique; same tag function on both sides"),
    ("C03.SYM", rule_sym, "every instance attribute is fed by the same-named constructor parameter (so it survives the re-parse); attribute set is path-independent"),
    ("C03.WRITE", rule_write, "to_xml writes every non-None attribute under its name, text from value, children in order; to_string adds declaration and newline"),
    ("C03.READ", rule_read, "from_xml: registry class(**attributes), children in document order, text stripped, empty text absent, unknown tag raises"),
]
