"""C15 - the client mirrors any server's property stream faithfully and survives it."""
from __future__ import annotations

import ast

from ..absint import Cls, Const, Dct, Fn, Foreign, Interp, Lst, Obj, Term, explore, is_call, run_method, show
from ..model import Undecided, walk_no_nested
from .clientworld import client_opts, feed, make_client, msg, part, snapshot
from .common import receive_loops

EXPLANATION = (
    "The client's message handlers (BaseClient.process_message, Device.process_message, Vector/Element.from_message and process_message, "
    "set_value_from_message) are abstractly interpreted - fully inlined, constructors included - on abstract message streams from a "
    "catalogue over a small universe of names (definition of a new device/property; re-definition; update of state and a subset of "
    "elements; update naming unknown device / property / element; update of the wrong kind; deletion of a property, of an unknown "
    "property, of a whole device, for an unknown device; message/ping traffic; empty and absent BLOB payloads) for all five kinds. After "
    "each stream the abstract mirror is compared with the result of a reference interpreter of the INDI client rules (C15.MIRROR), and no "
    "path may raise (C15.SURVIVE). C15.KINDS: the five client vector and five client element classes bind def/set/new message classes "
    "consistently with the protocol's kind table, and the two from_message dispatchers reach all of them. C15.INLOOP: the client receive "
    "loop's per-message entry contains whatever the application callback raises; SnoopingClient hands device messages to the same "
    "process_message."
)
NOT_DECIDED = "equality with the reference interpreter over all streams (only the catalogue's step shapes are decided; they cover every branch of the handlers)."
ASSUMPTIONS = ["user event callbacks are contained by trigger_event (C16.CONTAIN)", "messages reach the client through the parser, so values are text or None"]
TRUSTED = ["CPython ast", "indilint abstract interpreter"]

KINDS = ("Text", "Number", "Switch", "Light", "BLOB")
VAL = {"Text": ("a", "b"), "Number": ("1", "2"), "Switch": ("On", "Off"), "Light": ("Ok", "Busy"), "BLOB": ("QUJD", "REVG")}


def _defpart(p, kind, name, v):
    return part(p, f"Def{kind}", name, v)


def _onepart(p, kind, name, v, **extra):
    if kind == "BLOB":
        return part(p, "OneBLOB", name, v, size=extra.get("size", Term("param", "size", pytype="str")), format=extra.get("format", ".bin"))
    return part(p, f"One{kind}", name, v)


def _val(kind, v):
    """How the mirror shows an element value after a def / set."""
    return repr(v)


def rule_mirror(ctx):
    p = ctx.p
    n = 0
    bad = False
    for kind in KINDS:
        v0, v1 = VAL[kind]
        other = "Number" if kind != "Number" else "Text"

        def base_stream():
            return [
                msg(p, f"Def{kind}Vector", "D", "V1", [_defpart(p, kind, "A", v0), _defpart(p, kind, "B", v0)], state="Ok"),
                msg(p, f"Def{kind}Vector", "D", "V2", [_defpart(p, kind, "A", v0)], state="Idle"),
            ]

        def vec_exp(name, state, elems):
            return {"cls": f"{kind}Vector", "state": state, "elements": dict(elems), "meta": (name, name, "G"), "element_meta": {k: (k, k) for k in elems}}

        base_expect = {"D": {"V1": vec_exp("V1", "Ok", {"A": repr(v0), "B": repr(v0)}), "V2": vec_exp("V2", "Idle", {"A": repr(v0)})}}

        def exp(mod):
            import copy
            e = copy.deepcopy(base_expect)
            mod(e)
            return e

        def setv(e, path, val):
            d = e
            for k in path[:-1]:
                d = d[k]
            d[path[-1]] = val

        cases = [
            ("definitions create device and properties", lambda: [], lambda e: None),
            ("definition for a second device", lambda: [msg(p, f"Def{kind}Vector", "D2", "W", [_defpart(p, kind, "A", v1)], state="Busy")],
             lambda e: e.__setitem__("D2", {"W": vec_exp("W", "Busy", {"A": repr(v1)})})),
            ("re-definition replaces the property", lambda: [msg(p, f"Def{kind}Vector", "D", "V1", [_defpart(p, kind, "B", v1)], state="Alert")],
             lambda e: e["D"].__setitem__("V1", vec_exp("V1", "Alert", {"B": repr(v1)}))),
            ("deletion of one property", lambda: [msg(p, "DelProperty", "D", "V1")], lambda e: e["D"].pop("V1")),
            ("deletion of an unknown property", lambda: [msg(p, "DelProperty", "D", "NOPE")], lambda e: None),
            ("deletion of the whole device", lambda: [msg(p, "DelProperty", "D", None)], lambda e: e.pop("D")),
            ("deletion for an unknown device", lambda: [msg(p, "DelProperty", "X", None), msg(p, "DelProperty", "X", "V1")], lambda e: None),
            ("plain message and ping traffic", lambda: [msg(p, "Message", "D"), msg(p, "PingRequest", None, uid="1")], lambda e: None),
        ]
        if kind != "BLOB":
            cases += [
                ("update of state and one element", lambda: [msg(p, f"Set{kind}Vector", "D", "V1", [_onepart(p, kind, "B", v1)], state="Busy")],
                 lambda e: (setv(e, ["D", "V1", "state"], "Busy"), setv(e, ["D", "V1", "elements", "B"], repr(v1)))),
                ("update naming an unknown element", lambda: [msg(p, f"Set{kind}Vector", "D", "V1", [_onepart(p, kind, "ZZ", v1), _onepart(p, kind, "A", v1)], state="Ok")],
                 lambda e: setv(e, ["D", "V1", "elements", "A"], repr(v1))),
                ("update for unknown property / device", lambda: [msg(p, f"Set{kind}Vector", "D", "NOPE", [_onepart(p, kind, "A", v1)]), msg(p, f"Set{kind}Vector", "X", "V1", [_onepart(p, kind, "A", v1)])], lambda e: None),
                ("update of the wrong kind", lambda: [msg(p, f"Set{other}Vector", "D", "V1", [_onepart(p, other, "A", VAL[other][1])], state="Alert")], lambda e: None),
                ("update without children", lambda: [msg(p, f"Set{kind}Vector", "D", "V2", [], state="Alert")], lambda e: setv(e, ["D", "V2", "state"], "Alert")),
            ]
        for title, extra, mod in cases:
            n += 1
            paths = feed(p, lambda it: make_client(p, it=it), lambda: base_stream() + extra())
            ctx.paths_enumerated += len(paths)
            inst = f"client mirror[{kind}]"
            f = p.cls("indi.client.client.BaseClient").find_method("process_message")
            want = exp(mod)
            for pa in paths:
                if pa.outcome != "return":
                    raises = [e for e in pa.events if e.kind == "raise"]
                    where = f"{raises[-1].fn.short}:{raises[-1].line}" if raises and raises[-1].fn is not None else "?"
                    ctx.violated("C15.SURVIVE", f.short, f"processing the stream '{title}' ({kind}) raises {show(pa.value)[:50] if pa.value is not None else ''} at {where}", fi=f, text=f"raise:{title}:{where.split('::')[-1].split(':')[0]}", witness=f"{kind}: {title}")
                    bad = True
                    continue
                got = snapshot(pa.interp.client)
                if got != want:
                    ctx.violated("C15.MIRROR", f.short, f"after '{title}' ({kind}) the mirror is {got}, the INDI client rules give {want}", fi=f, text=f"mirror:{title}", witness=f"{kind}: {title}")
                    bad = True
            if len(paths) != 1:
                ctx.undecided("C15.MIRROR", f.short, f"'{title}' ({kind}) is not decided by constant evaluation ({len(paths)} paths)", fi=f)
                bad = True
    # BLOB payloads: complete, empty, absent
    for title, value, size, expect_len in (("complete payload", "QUJD", "3", None), ("empty payload", "", "0", None), ("absent payload", None, "0", None)):
        n += 1

        def stream():
            return [
                msg(p, "DefBLOBVector", "D", "V1", [_defpart(p, "BLOB", "A", None)], state="Ok"),
                msg(p, "SetBLOBVector", "D", "V1", [part(p, "OneBLOB", "A", value, size=size, format=".bin")], state="Ok"),
            ]

        def raiser(ev):
            callee = ev.data.get("callee")
            if isinstance(callee, Foreign) and callee.dotted.endswith("b64decode"):
                a = ev.data.get("args") or []
                if a and isinstance(a[0], Const) and a[0].v is None:
                    return "TypeError"  # b64decode(None)
            return None

        paths = feed(p, lambda it: make_client(p, it=it), stream, {"call_may_raise": raiser})
        f = p.cls("indi.client.elements.BLOB").find_method("set_value_from_message")
        for pa in paths:
            if pa.outcome != "return":
                ctx.violated("C15.SURVIVE", f.short, f"a setBLOBVector with {title} raises {show(pa.value)[:60] if pa.value is not None else ''}: the receive loop's task dies", fi=f, text=f"blob:{title}", witness=f'<oneBLOB name="A" size="{size}" format=".bin">{value or ""}</oneBLOB>')
                bad = True
            else:
                snap = snapshot(pa.interp.client)
                v = snap.get("D", {}).get("V1", {}).get("elements", {}).get("A")
                if v is None or not v.startswith("BLOB#"):
                    ctx.violated("C15.MIRROR", f.short, f"after a setBLOBVector with {title} the element holds {v}", fi=f, text=f"blobval:{title}")
                    bad = True
    ctx.counters["C15.MIRROR:stream cases"] = n
    if not bad:
        ctx.holds("C15.MIRROR", "indi/client/client.py::BaseClient.process_message", f"{n} catalogue streams over 5 kinds: mirror equals the reference interpretation", fi=p.cls("indi.client.client.BaseClient").find_method("process_message"))
        ctx.holds("C15.SURVIVE", "indi/client/client.py::BaseClient.process_message", "no catalogue stream raises", fi=p.cls("indi.client.client.BaseClient").find_method("process_message"))
    ctx.exhaustive_domains.append("catalogue of stream shapes x 5 kinds (every branch of the client handlers)")


def rule_kinds(ctx):
    p = ctx.p
    vbase = p.cls("indi.client.vectors.Vector")
    ebase = p.cls("indi.client.elements.Element")
    vs = {c.name: c for c in vbase.subclasses}
    es = {c.name: c for c in ebase.subclasses}
    ctx.floor("C15.KINDS", "client vector classes", len(vs), 5)
    ctx.floor("C15.KINDS", "client element classes", len(es), 5)
    for kind in KINDS:
        v = vs.get(f"{kind}Vector")
        e = es.get(kind)
        if v is None or e is None:
            ctx.violated("C15.KINDS", f"client {kind}", f"no client class for {kind} properties: their definitions are dropped", ci=vbase, text=f"missing:{kind}")
            continue
        want = {"def_message_class": f"Def{kind}Vector", "set_message_class": f"Set{kind}Vector", "children_class": kind}
        if kind != "Light":
            want["new_message_class"] = f"New{kind}Vector"
        for a, w in want.items():
            got = p.class_constant(v, a)
            ctx.check(getattr(got, "name", None) == w, "C15.KINDS", f"{v.short}.{a}", w, f"{v.name}.{a} is bound to {getattr(got, 'name', got)}, expected {w}", ci=v, text=f"{v.name}.{a}")
        wante = {"def_message_class": f"Def{kind}", "set_message_class": f"One{kind}", "new_message_class": f"One{kind}"}
        for a, w in wante.items():
            got = p.class_constant(e, a)
            ctx.check(getattr(got, "name", None) == w, "C15.KINDS", f"{e.short}.{a}", w, f"client element {e.name}.{a} is bound to {getattr(got, 'name', got)}, expected {w}", ci=e, text=f"{e.name}.{a}")


def rule_inloop(ctx):
    p = ctx.p
    loops = [L for L in receive_loops(p) if (L.owner.module if L.owner is not None else L[0].module).name.startswith("indi.transport.client")]
    ctx.floor("C15.INLOOP", "client receive loops", len(loops), 1)
    for L in loops:
        fi, wh = L
        ci = L.owner
        consumer = None
        for n_ in ast.walk(wh):
            if isinstance(n_, ast.Call) and isinstance(n_.func, ast.Attribute) and n_.func.attr == "process" and n_.args and isinstance(n_.args[0], ast.Attribute):
                consumer = ci.find_method(n_.args[0].attr) if ci is not None else None
        if consumer is None:
            ctx.undecided("C15.INLOOP", L.short, "consumer not resolved", fi=fi)
            continue

        def raiser(ev):
            if ev.kind == "call" and show(ev.data["term"]).startswith("self.callback("):
                return "Exception"
            return None

        paths = run_method(p, consumer, self_val=L.self_val, opts={"call_may_raise": raiser, "inline": lambda fi_, node, _n=consumer.name: fi_.name == _n})
        called = any(any(show(e.data["term"]).startswith("self.callback(message") for e in pa.events if e.kind == "call") for pa in paths)
        esc = [pa for pa in paths if pa.outcome == "raise"]
        ctx.check(called and not esc, "C15.INLOOP", consumer.short, "application callback errors are contained per message", "an exception from processing one server message escapes into the receive loop, whose task then dies silently: the client stops receiving" if called else "the per-message entry does not call the application callback with the message", fi=consumer, text="containment")
    sc = p.cls("indi.device.snoop.SnoopingClient")
    f = sc.find_method("message_from_device")
    paths = run_method(p, f)
    ok = all(pa.outcome == "return" and len(pa.calls(method="process_message")) == 1 and show(pa.calls(method="process_message")[0].data["args"][0]) == "message" for pa in paths)
    ctx.check(ok, "C15.INLOOP", f.short, "hands the message to process_message", "SnoopingClient.message_from_device does not feed process_message", fi=f, text="snoop")
    # Client.start wires process_message into both connections and starts both receive loops
    st = p.cls("indi.client.client.Client").find_method("start")
    paths = run_method(p, st)
    ok = True
    for pa in paths:
        conns = pa.calls(method="connect")
        loops_ = [e for e in pa.calls(method="create_task") if e.data["args"] and is_call(e.data["args"][0], method="wait_for_messages")]
        if len(conns) != 2 or len(loops_) != 2 or not all(e.data["args"] and show(e.data["args"][0]) == "self.process_message" for e in conns):
            ok = False
    ctx.check(ok, "C15.INLOOP", st.short, "both connections deliver into process_message and both receive loops are started", "Client.start does not wire both connections to process_message / start both receive loops", fi=st, text="start")


# bytes from the server are turned into text before the per-message containment: the codec must be total and
# independent of where a read ends
IMPORTS = [('C02', 'C02.DECODE'), ('C08', 'C08.VALUE'), ('C02', 'C02.FIND'), ('C10', 'C10.MIXED'), ('C10', 'C10.ACCEPT')]  # C08.VALUE: every legal spelling of a base64 payload decodes (wrapped, indented)

RULES = [
    ("C15.MIRROR", rule_mirror, "catalogue of def/set/del streams x 5 kinds: abstract mirror equals the reference interpretation; nothing raises"),
    ("C15.KINDS", rule_kinds, "client vector/element classes bind message classes per the protocol kind table"),
    ("C15.INLOOP", rule_inloop, "client receive loop contains per-message errors; snooping client and Client.start wire process_message"),
]
