"""C01 - client view converges to the device's true property state (driver-side obligations)."""
from __future__ import annotations

import ast

from ..absint import Builtin, Cls, Const, Dct, Fn, Interp, Lst, Obj, Term, Tup, explore, is_call, mentions, run_method, show
from ..model import Undecided, walk_no_nested
from .common import path_text

EXPLANATION = (
    'Decides the driver-side obligations without which no client can converge, for every definition (they concern the framework classes, not one '
    "device). C01.PUB: every function of the driver's instance package that stores an authoritative field (the fields behind the public value / "
    'state_ / enabled views, discovered from the getters) publishes after the store on every normal path - to_set_message for value/state, the '
    'def/set pair for enabled - with an explicit exemption table (constructors, the documented silent reset_* functions, element enabling, and '
    'the switch rule function whose only caller publishes). C01.ORDER: the enabled setters store first, then send the definition (or '
    'delProperty), then the update, and the group setter does so for all of its vectors without early exit. C01.MRO: instances of an '
    'analysis-only four-level driver hierarchy (SynD(SynC(SynB(SynA(Driver)))), one group per level) are constructed by interpreting the '
    'metaclass, the group collector and the constructors; a whole-device getProperties evaluated on each must announce the properties of every '
    'ancestor level. C01.ENUM: on a driver constructed from an analysis-only definition with three groups (one inherited, one property declared '
    'disabled) every declared property is enumerated by a whole-device getProperties, is addressable by its wire name, and holds every declared '
    'element. The client half is decided by C15, the transport half by C02, message fidelity by C03/C07 (C07.META: definitions and updates carry '
    "the property's own current state and values); C01's evidence lists them as imported obligations."
)
NOT_DECIDED = "that the composition converges for every history and fragmentation (a statement about two interacting state machines)."
ASSUMPTIONS = ["imported obligations: C02 (framing), C03 (codec), C07 (definitions), C15 (client mirror) hold", "the metaclass protocol: type.__new__ stores the namespace it is given"]
TRUSTED = ["CPython ast", "indilint abstract interpreter"]

INSTANCE_PKG = "indi.device.properties.instance"
FIELDS = ("_value", "_state", "_enabled")  # re-discovered by _init from the public getters
F_VALUE, F_STATE, F_ENABLED = FIELDS


def _init(p):
    global FIELDS, F_VALUE, F_STATE, F_ENABLED
    from .common import backing_field
    F_VALUE = backing_field(p, INSTANCE_PKG + ".elements.Element", "value")
    F_STATE = backing_field(p, INSTANCE_PKG + ".vectors.Vector", "state_")
    en = {backing_field(p, INSTANCE_PKG + q, "enabled") for q in (".elements.Element", ".vectors.Vector", ".group.Group")}
    if len(en) != 1:
        raise Undecided(f"the 'enabled' views are backed by different fields {sorted(en)}")
    F_ENABLED = en.pop()
    FIELDS = (F_VALUE, F_STATE, F_ENABLED)
EXEMPT = {
    ("Element", "__init__"): "constructor",
    ("Vector", "__init__"): "constructor",
    ("Group", "__init__"): "constructor",
    ("Element", "reset_value"): "documented silent resynchronisation (Read handlers), not in the property's operation set",
    ("Switch", "reset_bool_value"): "documented silent resynchronisation, not in the property's operation set",
    ("Element", "enabled"): "elements are not in the property's operation set; C07 covers their effect on definitions",
    ("SwitchVector", "apply_rule"): "its only caller chain is check_value <- value setter, which publishes afterwards (verified below)",
}


def _stores(fi):
    out = []
    for n in walk_no_nested(fi.node):
        if isinstance(n, (ast.Assign, ast.AugAssign, ast.AnnAssign)):
            tg = n.targets if isinstance(n, ast.Assign) else [n.target]
            for t in tg:
                for sub in ast.walk(t):
                    if isinstance(sub, ast.Attribute) and sub.attr in FIELDS and isinstance(sub.ctx, ast.Store):
                        out.append((n, sub.attr))
    return out


def _send_kind(ev):
    """'def' / 'set' / None for a send_message(<x>.to_def_message()/to_set_message()) call event."""
    if not (ev.kind == "call" and is_call(ev.data["term"], method="send_message") and ev.data["args"]):
        return None
    a = ev.data["args"][0]
    if isinstance(a, Term) and is_call(a, method="to_def_message"):
        return "def"
    if isinstance(a, Term) and is_call(a, method="to_set_message"):
        return "set"
    return "other"


def rule_pub(ctx):
    p = ctx.p
    _init(p)
    n = 0
    for fi in p.functions:
        if not fi.module.name.startswith(INSTANCE_PKG):
            continue
        st = _stores(fi)
        if not st:
            continue
        n += 1
        key = (fi.cls.name if fi.cls else None, fi.name)
        fields = sorted({f for _, f in st})
        if key in EXEMPT and not (key == ("Element", "enabled") and fi.kind != "setter"):
            ctx.holds("C01.PUB", fi.short, f"exempt: {EXEMPT[key]}", fi=fi)
            continue
        paths = run_method(p, fi, opts={"max_for": 2})
        ctx.paths_enumerated += len(paths)
        bad = False
        for pa in paths:
            if pa.outcome != "return":
                continue
            stores = [e for e in pa.events if e.kind == "store" and e.data.get("attr") in FIELDS]
            if not stores:
                continue
            if any(e.kind == "loop-enter" and e.data["symbolic"] and e.data["n"] == 0 for e in pa.events):
                continue  # nothing to publish for an empty collection; the >=1-iteration paths carry the obligation
            last = max(e.idx for e in stores)
            kinds = [(_send_kind(e), e) for e in pa.events if e.idx > last and _send_kind(e)]
            have = {k for k, _ in kinds}
            need = {"def", "set"} if F_ENABLED in fields else {"set"}
            if not need <= have:
                ctx.violated("C01.PUB", fi.short, f"a path stores {fields} and returns without publishing {sorted(need - have)}: clients keep the old state", fi=fi, text=f"unpublished:{fields}:{sorted(need - have)}", witness=path_text(pa, 8))
                bad = True
        if not bad:
            ctx.holds("C01.PUB", fi.short, f"every path storing {fields} publishes afterwards", fi=fi)
    ctx.floor("C01.PUB", "functions storing authoritative fields", n, 5)
    # apply_rule's only callers: Switch.check_value <- value setter (publishes)
    callers = []
    for fi in p.functions:
        for node in walk_no_nested(fi.node):
            if isinstance(node, ast.Call) and isinstance(node.func, ast.Attribute) and node.func.attr == "apply_rule":
                callers.append(fi)
    ok = bool(callers) and all(c.name == "check_value" and c.cls is not None and c.cls.name == "Switch" for c in callers)
    cv_callers = []
    for fi in p.functions:
        if not fi.module.name.startswith("indi.device"):
            continue
        for node in walk_no_nested(fi.node):
            if isinstance(node, ast.Call) and isinstance(node.func, ast.Attribute) and node.func.attr == "check_value" and fi.module.name.startswith(INSTANCE_PKG):
                cv_callers.append(fi)
    ok2 = all((c.kind == "setter" and c.name == "value") or c.name == "reset_value" for c in cv_callers)
    ctx.check(ok and ok2, "C01.PUB", "apply_rule callers", f"apply_rule <- {[c.short for c in callers]}; check_value <- {sorted({c.short for c in cv_callers})}", f"the switch rule function (which stores _value silently) is reachable from {[c.short for c in callers if c.name != 'check_value']} / check_value from {[c.short for c in cv_callers]}, not only from the publishing setter", fi=callers[0] if callers else None, text="apply_rule-callers")


def rule_order(ctx):
    p = ctx.p
    _init(p)
    vec = p.cls(f"{INSTANCE_PKG}.vectors.Vector")
    grp = p.cls(f"{INSTANCE_PKG}.group.Group")
    for ci, looped in ((vec, False), (grp, True)):
        f = ci.find_setter("enabled")
        if f is None:
            raise Undecided(f"{ci.name}.enabled setter not found")
        paths = run_method(p, f, opts={"max_for": 2})
        ctx.paths_enumerated += len(paths)
        bad = False
        saw2 = False
        for pa in paths:
            if pa.outcome != "return":
                ctx.violated("C01.ORDER", f.short, "the enabled setter can raise by itself", fi=f, text="raises")
                bad = True
                continue
            st = [e for e in pa.events if e.kind == "store" and e.data.get("attr") == F_ENABLED]
            sends = [(_send_kind(e), e) for e in pa.events if _send_kind(e)]
            if len(st) != 1 or show(st[0].data["value"]) != "value":
                ctx.violated("C01.ORDER", f.short, "the flag is not stored exactly once from the assigned value", fi=f, text="store")
                bad = True
                continue
            if any(e.idx < st[0].idx for _, e in sends):
                ctx.violated("C01.ORDER", f.short, "a message is rendered/sent before the flag is stored (it reflects the old state)", fi=f, text="send-before-store")
                bad = True
            rend = [e for e in pa.events if e.kind == "call" and (is_call(e.data["term"], method="to_def_message") or is_call(e.data["term"], method="to_set_message"))]
            if any(e.idx < st[0].idx for e in rend):
                ctx.violated("C01.ORDER", f.short, "a message is rendered before the flag is stored", fi=f, text="render-before-store")
                bad = True
            if not looped:
                seq = [k for k, _ in sends]
                if seq != ["def", "set"]:
                    ctx.violated("C01.ORDER", f.short, f"messages are sent in order {seq}, expected definition (or delProperty) then update", fi=f, text=f"order:{seq}")
                    bad = True
                else:
                    for k, e in sends:
                        recv = e.data["args"][0].args[0]
                        if not (isinstance(recv, Fn) and show(recv.self_val) == "self"):
                            ctx.violated("C01.ORDER", f.short, "the published messages are not this vector's", fi=f, text="receiver")
                            bad = True
            else:
                enters = [e for e in pa.events if e.kind == "loop-enter"]
                if len(enters) != 1 or "self._vectors" not in show(enters[0].data["iterable"]):
                    ctx.violated("C01.ORDER", f.short, "the group setter does not iterate over all of its vectors", fi=f, text="loop")
                    bad = True
                    continue
                exits = [e for e in pa.events if e.kind == "loop-exit"]
                if exits and exits[0].data["how"] != "exhausted":
                    ctx.violated("C01.ORDER", f.short, "the loop over the group's vectors stops early", fi=f, text="early-exit")
                    bad = True
                nit = enters[0].data["n"]
                if nit == 2:
                    saw2 = True
                for i in range(nit):
                    evs = [(k, e) for k, e in sends if any(c[0] == "loop" and c[2] == i for c in e.ctx)]
                    seq = [k for k, _ in evs]
                    if seq != ["def", "set"]:
                        ctx.violated("C01.ORDER", f.short, f"per vector the group sends {seq}, expected definition then update", fi=f, text=f"order:{seq}")
                        bad = True
                    conds = [e for e in pa.assumes() if any(c[0] == "loop" and c[2] == i for c in e.ctx)]
                    if conds:
                        ctx.violated("C01.ORDER", f.short, f"publication of a vector is conditional on {show(conds[0].data['cond'])[:60]}", fi=f, text="conditional")
                        bad = True
                    for k, e in evs:
                        recv = e.data["args"][0].args[0]
                        owner = recv.self_val if isinstance(recv, Fn) else (recv.args[0] if isinstance(recv, Term) and recv.op == "attr" else None)
                        if not (isinstance(owner, Term) and owner.op == "val" and owner.args[1] == i and "self._vectors" in show(owner.args[0])):
                            ctx.violated("C01.ORDER", f.short, "the message sent in an iteration is not the iteration's vector's", fi=f, text="receiver")
                            bad = True
        if looped and not saw2:
            ctx.undecided("C01.ORDER", f.short, "two-iteration path not explored", fi=f)
            bad = True
        if not bad:
            ctx.holds("C01.ORDER", f.short, "store, then definition/delProperty, then update" + (" for every vector of the group" if looped else ""), fi=f)
    # the state setter validates and stores the assigned state
    f = vec.find_setter("state_")
    paths = run_method(p, f)
    ok = True
    for pa in paths:
        if pa.outcome != "return":
            continue
        st = [e for e in pa.events if e.kind == "store" and e.data.get("attr") == F_STATE]
        if len(st) != 1 or not (mentions(st[0].data["value"], lambda t: isinstance(t, Term) and t.op == "param" and t.args[0] == "value")):
            ok = False
    ctx.check(ok, "C01.ORDER", f.short, "stores the assigned state", "the state setter does not store the assigned state", fi=f, text="state-store")


SYN_SRC = '''
from indi.device import Driver, properties


class SynA(Driver):
    ga = properties.Group("GA", vectors=dict(v=properties.TextVector("VA", elements=dict(a=properties.Text("A")))))
    plain_a = 1


class SynB(SynA):
    gb = properties.Group("GB", vectors=dict(v=properties.TextVector("VB", elements=dict(a=properties.Text("A")))))


class SynC(SynB):
    gc = properties.Group("GC", vectors=dict(v=properties.TextVector("VC", elements=dict(a=properties.Text("A")))))


class SynD(SynC):
    pass
'''


def rule_mro(ctx):
    """A driver class announces the properties of every ancestor's groups, at any inheritance depth: instances of a
    four-level analysis-only hierarchy are constructed by interpreting the metaclass, the group collector and the
    constructors, and a whole-device getProperties is evaluated on each."""
    from .driverworld import build_drivers
    p = ctx.p
    _init(p)
    drv = p.cls("indi.device.driver.Driver")
    f = drv.find_method("message_from_client")
    init = drv.methods["__init__"]
    gp = p.cls("indi.message.get_properties.GetProperties")
    expected = {"SynA": ["VA"], "SynB": ["VA", "VB"], "SynC": ["VA", "VB", "VC"], "SynD": ["VA", "VB", "VC"]}
    bad = False
    collected = {}
    for depth, cname in enumerate(expected, 1):
        def run(it: Interp):
            ds = build_drivers(it, p, names=tuple((c, c.upper()) for c in expected), src=SYN_SRC)
            m = Obj(gp, {"device": Const(cname.upper()), "name": Const(None), "version": Const("1.7"), "__closed__": Const(True)}, label="getProperties")
            return it.run_function(Fn(f, ds[cname.upper()]), [m], {})

        paths = explore(p, run, {"inline": lambda fi, node: False})
        ctx.paths_enumerated += len(paths)
        if len(paths) != 1 or paths[0].outcome != "return":
            why = f"{len(paths)} paths / outcome {paths[0].outcome}: {show(paths[0].value) if paths[0].value is not None else ''}"
            if len(paths) == 1 and paths[0].outcome == "raise":
                ctx.violated("C01.MRO", init.short, f"constructing / querying a driver at inheritance depth {depth} raises: {why}", fi=init, text="raises")
            else:
                ctx.undecided("C01.MRO", init.short, f"driver at depth {depth} not decided by constant evaluation ({why})", fi=init)
            bad = True
            continue
        got = []
        for e in paths[0].calls(method="send_message"):
            a_ = e.data["args"][0] if e.data["args"] else None
            if isinstance(a_, Term) and is_call(a_, method="to_def_message") and isinstance(a_.args[0], Fn):
                got.append(show(a_.args[0].self_val).split(".")[-1])
        collected[cname] = sorted(got)
        if sorted(got) != expected[cname]:
            missing = sorted(set(expected[cname]) - set(got))
            ctx.violated("C01.MRO", init.short, f"a driver class {cname} (depth {depth}) announces properties {sorted(got)}, expected {expected[cname]}: the groups of ancestors beyond the direct parent ({missing}) are lost, so their properties are never defined to any client", fi=init, text=f"mro:{cname}", witness="class SynA(Driver): ga=...; class SynB(SynA): gb=...; class SynC(SynB): gc=...; class SynD(SynC): pass")
            bad = True
    if not bad:
        ctx.holds("C01.MRO", init.short, "properties of all ancestors announced on a 4-level synthetic hierarchy (metaclass, collector and constructors interpreted)", fi=init)
    ctx.sample({"rule": "C01.MRO", "hierarchy": "SynD(SynC(SynB(SynA(Driver))))", "announced": collected})


_ENUM_SRC = '''
from indi.device import Driver, properties


class Base(Driver):
    g0 = properties.Group("GRP0", vectors=dict(x=properties.TextVector("V0", elements=dict(a=properties.Text("A"), b=properties.Text("B"), c=properties.Text("C")))))


class DevA(Base):
    g1 = properties.Group(
        "GRP1",
        vectors=dict(
            first=properties.TextVector("V1", elements=dict(a=properties.Text("A"), b=properties.Text("B"))),
            second=properties.NumberVector("V2", elements=dict(a=properties.Number("A"))),
        ),
    )
    g2 = properties.Group(
        "GRP2",
        vectors=dict(
            third=properties.SwitchVector("V3", elements=dict(c=properties.Switch("C"), d=properties.Switch("D"))),
            hidden=properties.TextVector("V4", enabled=False, elements=dict(a=properties.Text("A"))),
        ),
    )
'''


def rule_enum(ctx):
    """Every declared property of every group (own and inherited) exists in the constructed driver, is announced by a
    whole-device getProperties, is addressable by its wire name, and holds every declared element.  Decided by abstract
    evaluation on a driver constructed from an analysis-only definition with three groups, one of them inherited."""
    from .driverworld import _reachable_objs, build_drivers
    from .common import public_get
    p = ctx.p
    _init(p)
    drv = p.cls("indi.device.driver.Driver")
    f = drv.find_method("message_from_client")
    init = drv.methods["__init__"]
    gp = p.cls("indi.message.get_properties.GetProperties")
    declared = {"V0": ["A", "B", "C"], "V1": ["A", "B"], "V2": ["A"], "V3": ["C", "D"], "V4": ["A"]}  # V4 is declared disabled: it still exists (answers with delProperty, can be enabled later)
    bad = False
    for name, expect in ((None, sorted(declared)), ("V0", ["V0"]), ("V3", ["V3"]), ("V2", ["V2"]), ("V4", ["V4"])):
        def run(it: Interp):
            d = build_drivers(it, p, names=(("DevA", "DEVA"),), src=_ENUM_SRC, extra_classes=("Base",))["DEVA"]
            it.objs = {o.label: o for o in _reachable_objs(d)}
            m = Obj(gp, {"device": Const("DEVA"), "name": Const(name), "version": Const("1.7"), "__closed__": Const(True)}, label="getProperties")
            return it.run_function(Fn(f, d), [m], {})

        paths = explore(p, run, {"inline": lambda fi, node: False})
        ctx.paths_enumerated += len(paths)
        if len(paths) != 1 or paths[0].outcome != "return":
            ctx.undecided("C01.ENUM", init.short, f"getProperties(name={name!r}) on the constructed three-group driver is not decided by constant evaluation", fi=init)
            bad = True
            continue
        pa = paths[0]
        got = []
        for e in pa.calls(method="send_message"):
            a_ = e.data["args"][0] if e.data["args"] else None
            if isinstance(a_, Term) and is_call(a_, method="to_def_message") and isinstance(a_.args[0], Fn):
                got.append(show(a_.args[0].self_val).replace("vec:DEVA.", ""))
        if sorted(got) != expect:
            ctx.violated("C01.ENUM", init.short, f"a driver declaring properties {sorted(declared)} in three groups (one inherited) answers getProperties(name={name!r}) with {sorted(got)}: a declared property is not enumerated / not addressable by its wire name", fi=init, text=f"enumerate:{name}")
            bad = True
        if name is None:
            have = {k: sorted(l.split(".")[-1] for l in pa.interp.objs if l.startswith(f"el:DEVA.{k}.")) for k in declared}
            if have != {k: sorted(v) for k, v in declared.items()}:
                ctx.violated("C01.ENUM", init.short, f"the constructed properties hold elements {have}, declared {declared}", fi=init, text="elements")
                bad = True
    if not bad:
        ctx.holds("C01.ENUM", init.short, "every declared property of every group (incl. inherited) is enumerated, addressable by wire name, with every declared element", fi=init)


# necessary conditions of convergence that other properties' rules decide (router policy independence, definitions, publication, client mirror, framing)
IMPORTS = [('C05', 'C05.KEY'), ('C05', 'C05.PRED'), ('C07', 'C07.BRANCH'), ('C07', 'C07.DISABLED'), ('C07', 'C07.META'), ('C14', 'C14.SETTER'), ('C15', 'C15.MIRROR'), ('C02', 'C02.LOOP'), ('C02', 'C02.CONSUME'), ('C02', 'C02.DECODE'), ('C09', 'C09.STEP'), ('C10', 'C10.SIGN'), ('C10', 'C10.SIGNR'), ('C10', 'C10.RENDER')]

RULES = [
    ("C01.PUB", rule_pub, "publish after every authoritative store (exemption table with reasons)"),
    ("C01.ORDER", rule_order, "enabled setters: store, definition/delProperty, update - for every vector of a group"),
    ("C01.MRO", rule_mro, "group collector closes over the whole ancestry (abstract evaluation on a synthetic 4-level hierarchy)"),
    ("C01.ENUM", rule_enum, "Driver.__init__ enumerates every vector of every group; groups/vectors instantiate every definition"),
]
