"""C01 - client view converges to the device's true property state (driver-side obligations)."""
from __future__ import annotations

import ast

from ..absint import Builtin, Cls, Const, Dct, Fn, Interp, Lst, Obj, Term, Tup, explore, is_call, mentions, run_method, show
from ..model import Undecided, walk_no_nested
from .common import path_text

EXPLANATION = (
    'Decides the driver-side obligations without which no client can converge, for every definition (they concern the framework classes, not one '
    "device). C01.PUB: every public mutator of the driver's property objects (element value / bool_value, vector state_, selected_value(s)) is "
    'evaluated on a driver constructed from an analysis-only definition: after the last store to an authoritative field (the fields behind the '
    "public value / state_ / enabled views, discovered from the getters) the driver must hand send_message the owning property's update carrying "
    'the new state; a completeness scan makes sure no function outside these mutators, their helpers and an explicit exemption table '
    '(constructors, the documented silent reset_* functions, element enabling) stores such a field. C01.ORDER: enabling / disabling a property or '
    'a group on the constructed driver: for every affected property (all properties of the group, none of another group) the definition - or '
    'delProperty - is sent first, then the update, and both reflect the new flag (off: delProperty and a suppressed update; on again: definition '
    'and update). C01.MRO: instances of an analysis-only four-level driver hierarchy (SynD(SynC(SynB(SynA(Driver)))), one group per level) are '
    'constructed by interpreting the metaclass, the group collector and the constructors; a whole-device getProperties evaluated on each must '
    'announce the properties of every ancestor level. C01.ENUM: on a driver constructed from an analysis-only definition with three groups (one '
    'inherited, one property declared disabled) every declared property is enumerated by a whole-device getProperties, is addressable by its wire '
    'name, and holds every declared element. The client half is decided by C15, the transport half by C02, message fidelity by C03/C07 (C07.META: '
    "definitions and updates carry the property's own current state and values); C01's evidence lists them as imported obligations."
)
NOT_DECIDED = "that the composition converges for every history and fragmentation (a statement about two interacting state machines)."
ASSUMPTIONS = ["imported obligations: C02 (framing), C03 (codec), C07 (definitions), C15 (client mirror) hold", "the metaclass protocol: type.__new__ stores the namespace it is given"]
TRUSTED = ["CPython ast", "indilint abstract interpreter"]

INSTANCE_PKG = "indi.device.properties.instance"
FIELDS = ("_value", "_state", "_enabled")  # re-discovered by _init from the public getters
F_VALUE, F_STATE, F_ENABLED = FIELDS


def _init(p):
    global FIELDS, F_VALUE, F_STATE, F_ENABLED
    from .common import backing_field
    F_VALUE = backing_field(p, INSTANCE_PKG + ".elements.Element", "value")
    F_STATE = backing_field(p, INSTANCE_PKG + ".vectors.Vector", "state_")
    en = {backing_field(p, INSTANCE_PKG + q, "enabled") for q in (".elements.Element", ".vectors.Vector", ".group.Group")}
    if len(en) != 1:
        raise Undecided(f"the 'enabled' views are backed by different fields {sorted(en)}")
    F_ENABLED = en.pop()
    FIELDS = (F_VALUE, F_STATE, F_ENABLED)
EXEMPT = {
    ("Element", "__init__"): "constructor",
    ("Vector", "__init__"): "constructor",
    ("Group", "__init__"): "constructor",
    ("Element", "reset_value"): "documented silent resynchronisation (Read handlers), not in the property's operation set",
    ("Switch", "reset_bool_value"): "documented silent resynchronisation, not in the property's operation set",
    ("Element", "enabled"): "elements are not in the property's operation set; C07 covers their effect on definitions",
    ("SwitchVector", "apply_rule"): "its only caller chain is check_value <- value setter, which publishes afterwards (verified below)",
}


def _stores(fi):
    out = []
    for n in walk_no_nested(fi.node):
        if isinstance(n, (ast.Assign, ast.AugAssign, ast.AnnAssign)):
            tg = n.targets if isinstance(n, ast.Assign) else [n.target]
            for t in tg:
                for sub in ast.walk(t):
                    if isinstance(sub, ast.Attribute) and sub.attr in FIELDS and isinstance(sub.ctx, ast.Store):
                        out.append((n, sub.attr))
    return out


def _send_kind(ev):
    """'def' / 'set' / None for a send_message(<x>.to_def_message()/to_set_message()) call event."""
    if not (ev.kind == "call" and is_call(ev.data["term"], method="send_message") and ev.data["args"]):
        return None
    a = ev.data["args"][0]
    if isinstance(a, Term) and is_call(a, method="to_def_message"):
        return "def"
    if isinstance(a, Term) and is_call(a, method="to_set_message"):
        return "set"
    return "other"


_PUB_SRC = '''
from indi.device import Driver, properties


class DevA(Driver):
    g1 = properties.Group(
        "GRP1",
        vectors=dict(
            t=properties.TextVector("V1", elements=dict(a=properties.Text("A", default="a0"), b=properties.Text("B", default="b0"))),
            n=properties.NumberVector("V2", elements=dict(a=properties.Number("A", default=1.0))),
        ),
    )
    g2 = properties.Group(
        "GRP2",
        vectors=dict(s=properties.SwitchVector("V3", rule="AtMostOne", elements=dict(c=properties.Switch("C", default="On"), d=properties.Switch("D")))),
    )
'''


def _sent(pa):
    """What the driver handed to send_message on a path: list of (kind, class name, kwargs dict, event);
    kind is 'def' (definition or delProperty), 'set', 'none' (a suppressed update) or 'other'."""
    out = []
    for e in pa.calls(method="send_message"):
        callee = e.data["callee"]
        if not (isinstance(callee, Fn) and isinstance(callee.self_val, Obj) and callee.self_val.label.startswith("driver:")):
            continue
        a_ = e.data["args"][0] if e.data["args"] else None
        if isinstance(a_, Const) and a_.v is None:
            out.append(("none", None, {}, e))
        elif isinstance(a_, Term) and a_.op == "call" and isinstance(a_.args[0], Cls):
            n_ = a_.args[0].ci.name
            kind = "def" if n_.startswith("Def") or n_ == "DelProperty" else ("set" if n_.startswith("Set") else "other")
            out.append((kind, n_, dict(a_.args[2]), e))
        else:
            out.append(("other", show(a_)[:40] if a_ is not None else None, {}, e))
    return out


def _pub_world(it, p):
    from .driverworld import _reachable_objs, build_drivers
    d = build_drivers(it, p, names=(("DevA", "DEVA"),), src=_PUB_SRC, router=Obj(None, label="<router>"))["DEVA"]
    return d, {o.label: o for o in _reachable_objs(d)}


def _pub_pol(fi, node):
    m = fi.module.name
    if m.startswith(INSTANCE_PKG):
        return fi.name != "raise_event"
    if m == "indi.message.checks":
        return True
    return fi.kind == "getter" and m.startswith("indi.device")


def _child_values(kw):
    ch = kw.get("children")
    out = {}
    for x in (ch.items if isinstance(ch, (Lst, Tup)) else []):
        if isinstance(x, Term) and x.op == "call" and isinstance(x.args[0], Cls):
            k2 = dict(x.args[2])
            out[show(k2.get("name")).strip("'")] = k2.get("value")
    return out


def rule_pub(ctx):
    """Every public mutator of the driver's property objects publishes the *new* state: the operation is evaluated on a
    driver constructed from an analysis-only definition (two groups, three properties), and what the driver hands to
    send_message afterwards must be the owning property's update carrying the new value / state.  A completeness scan
    makes sure no function outside these mutators (and their private helpers) stores an authoritative field."""
    p = ctx.p
    _init(p)
    E = INSTANCE_PKG + ".elements."
    ops = [
        # (label, object label, setter owner class, property, value, expected message class, check(kwargs) -> problem or None)
        ("text value", "el:DEVA.V1.A", E + "Element", "value", Const("new"), "SetTextVector", lambda kw: None if show(_child_values(kw).get("A")) == "'new'" and show(_child_values(kw).get("B")) == "'b0'" else f"parts {dict((k, show(v)) for k, v in _child_values(kw).items())}"),
        ("number value", "el:DEVA.V2.A", E + "Element", "value", Const(2.5), "SetNumberVector", lambda kw: None if "2.5" in show(_child_values(kw).get("A")) else f"parts {dict((k, show(v)) for k, v in _child_values(kw).items())}"),
        ("switch value", "el:DEVA.V3.D", E + "Element", "value", Const("On"), "SetSwitchVector", lambda kw: None if {k: show(v) for k, v in _child_values(kw).items()} == {"C": "'Off'", "D": "'On'"} else f"parts {dict((k, show(v)) for k, v in _child_values(kw).items())}"),
        ("switch bool_value", "el:DEVA.V3.D", E + "Switch", "bool_value", Const(True), "SetSwitchVector", lambda kw: None if {k: show(v) for k, v in _child_values(kw).items()} == {"C": "'Off'", "D": "'On'"} else f"parts {dict((k, show(v)) for k, v in _child_values(kw).items())}"),
        ("state", "vec:DEVA.V1", INSTANCE_PKG + ".vectors.Vector", "state_", Const("Alert"), "SetTextVector", lambda kw: None if show(kw.get("state")) == "'Alert'" else f"state {show(kw.get('state'))}"),
        ("selected_value", "vec:DEVA.V3", INSTANCE_PKG + ".vectors.SwitchVector", "selected_value", Const("D"), "SetSwitchVector", lambda kw: None if {k: show(v) for k, v in _child_values(kw).items()} == {"C": "'Off'", "D": "'On'"} else f"parts {dict((k, show(v)) for k, v in _child_values(kw).items())}"),
        ("selected_values", "vec:DEVA.V3", INSTANCE_PKG + ".vectors.SwitchVector", "selected_values", Lst([Const("D")]), "SetSwitchVector", lambda kw: None if {k: show(v) for k, v in _child_values(kw).items()} == {"C": "'Off'", "D": "'On'"} else f"parts {dict((k, show(v)) for k, v in _child_values(kw).items())}"),
    ]
    covered = set()
    for label, target, owner, prop, value, want_cls, chk in ops:
        setter = p.cls(owner).find_setter(prop)
        if setter is None:
            ctx.undecided("C01.PUB", f"{owner.rsplit('.', 1)[-1]}.{prop}", "public setter not found", ci=p.cls(owner))
            continue
        covered.add(setter)

        def run(it: Interp):
            d, by = _pub_world(it, p)
            o = by.get(target)
            if o is None:
                raise Undecided(f"constructed driver has no {target}")
            return it.run_function(Fn(o.cls.find_setter(prop), o), [value], {})

        paths = explore(p, run, {"inline": _pub_pol, "max_depth": 12})
        ctx.paths_enumerated += len(paths)
        inst = f"{setter.short}[{label}]"
        if len(paths) != 1 or paths[0].outcome != "return":
            ctx.undecided("C01.PUB", inst, f"not decided by constant evaluation ({len(paths)} paths, outcome {paths[0].outcome if paths else None})", fi=setter)
            continue
        pa = paths[0]
        stores = [e for e in pa.events if e.kind == "store" and e.data.get("attr") in FIELDS and isinstance(e.data["base"], Obj)]
        sent = _sent(pa)
        last = max((e.idx for e in stores), default=-1)
        after = [(k, n_, kw) for k, n_, kw, e in sent if e.idx > last and k == "set"]
        problem = None
        if not stores:
            problem = "the assignment stores nothing"
        elif not after:
            problem = f"returns without publishing an update after the last store (sent: {[(k, n_) for k, n_, _, _ in sent]}): clients keep the old state"
        else:
            k, n_, kw = after[-1]
            if n_ != want_cls or show(kw.get("device")) != "'DEVA'" or show(kw.get("name")).strip("'") != target.split(".")[1]:
                problem = f"publishes {n_}(device={show(kw.get('device'))}, name={show(kw.get('name'))}) instead of the owning property's {want_cls}"
            else:
                w = chk(kw)
                if w:
                    problem = f"the published update does not carry the new state: {w}"
        ctx.check(problem is None, "C01.PUB", inst, f"publishes {want_cls} carrying the new state after the last store", problem or "", fi=setter, text=f"unpublished:{label}")
    # completeness: authoritative fields are stored only by constructors, the documented silent reset_* functions, element
    # enabling, and by the mutators above or functions they reach
    names_reached = set()
    todo = [s_ for s_ in covered]
    pkg = [fi for fi in p.functions if fi.module.name.startswith(INSTANCE_PKG)]
    byname = {}
    for fi in pkg:
        byname.setdefault(fi.name, []).append(fi)
    seen = set()
    while todo:
        fi = todo.pop()
        if fi in seen:
            continue
        seen.add(fi)
        for n_ in ast.walk(fi.node):
            # calls, property stores, and references to bound methods that are called through a variable (strategy objects)
            nm = n_.attr if isinstance(n_, ast.Attribute) else None
            for g in byname.get(nm, []) if nm else []:
                todo.append(g)
    n = 0
    for fi in pkg:
        st = _stores(fi)
        if not st:
            continue
        n += 1
        key = (fi.cls.name if fi.cls else None, fi.name)
        if key in EXEMPT and not (key == ("Element", "enabled") and fi.kind != "setter"):
            ctx.holds("C01.PUB", fi.short, f"exempt: {EXEMPT[key]}", fi=fi)
        elif fi in seen or (fi.kind == "setter" and fi.name == "enabled"):
            ctx.holds("C01.PUB", fi.short, "reached only through a publishing mutator", fi=fi)
        else:
            ctx.violated("C01.PUB", fi.short, f"stores {sorted({f_ for _, f_ in st})} but is neither a publishing mutator, one of its helpers, nor a documented silent function: clients are never told", fi=fi, text=f"unpublished-store:{fi.name}")
    ctx.floor("C01.PUB", "functions storing authoritative fields", n, 5)


def rule_order(ctx):
    """Enabling / disabling a property or a group: the flag is stored, then every affected property is re-announced -
    definition (or delProperty) first, then its update - and the messages reflect the new flag."""
    p = ctx.p
    _init(p)
    vec = p.cls(f"{INSTANCE_PKG}.vectors.Vector")
    grp = p.cls(f"{INSTANCE_PKG}.group.Group")
    cases = [
        ("vector off", "vec:DEVA.V1", vec, [False], [("def", "DelProperty", "V1"), ("none", None, None)]),
        ("vector off then on", "vec:DEVA.V1", vec, [False, True], [("def", "DelProperty", "V1"), ("none", None, None), ("def", "DefTextVector", "V1"), ("set", "SetTextVector", "V1")]),
        ("group off", "grp:GRP1", grp, [False], [("def", "DelProperty", "V1"), ("none", None, None), ("def", "DelProperty", "V2"), ("none", None, None)]),
        ("group off then on", "grp:GRP1", grp, [False, True], [("def", "DelProperty", "V1"), ("none", None, None), ("def", "DelProperty", "V2"), ("none", None, None), ("def", "DefTextVector", "V1"), ("set", "SetTextVector", "V1"), ("def", "DefNumberVector", "V2"), ("set", "SetNumberVector", "V2")]),
        ("other group untouched", "grp:GRP2", grp, [False], [("def", "DelProperty", "V3"), ("none", None, None)]),
    ]
    for label, target, ci, values, want in cases:
        f = ci.find_setter("enabled")
        if f is None:
            raise Undecided(f"{ci.name}.enabled setter not found")

        def run(it: Interp):
            from .common import public_get
            d, by = _pub_world(it, p)
            if target.startswith("grp:"):
                owners = [o for o in by.values() if o.cls is not None and grp in o.cls.mro and show(public_get(it, o, "name")).strip("'") == target[4:]]
                o = owners[0] if len(owners) == 1 else None
            else:
                o = by.get(target)
            if o is None:
                raise Undecided(f"constructed driver has no {target}")
            for v in values:
                it.run_function(Fn(o.cls.find_setter("enabled"), o), [Const(v)], {})
            return Const(None)

        paths = explore(p, run, {"inline": _pub_pol, "max_depth": 12})
        ctx.paths_enumerated += len(paths)
        inst = f"{f.short}[{label}]"
        if len(paths) != 1 or paths[0].outcome != "return":
            ctx.undecided("C01.ORDER", inst, f"not decided by constant evaluation ({len(paths)} paths)", fi=f)
            continue
        got = [(k, n_, show(kw.get("name")).strip("'") if kw else None) for k, n_, kw, _ in _sent(paths[0])]
        ctx.check(got == want, "C01.ORDER", inst, "store, then definition/delProperty and update of every affected property, reflecting the new flag", f"the driver sends {got}, expected {want} (definition or delProperty first, then the update, for every property concerned, reflecting the new flag)", fi=f, text=f"order:{label}")


SYN_SRC = '''
from indi.device import Driver, properties


class SynA(Driver):
    g0 = properties.Group("G0", vectors=dict(v=properties.TextVector("V0", elements=dict(a=properties.Text("A")))))
    ga = properties.Group("GA", vectors=dict(v=properties.TextVector("VA", elements=dict(a=properties.Text("A")))))
    plain_a = 1


class SynB(SynA):
    # overrides the group it inherits under the same attribute: the nearest definition wins for SynB and below
    ga = properties.Group("GA", vectors=dict(v=properties.TextVector("VA2", elements=dict(a=properties.Text("A")))))
    gb = properties.Group("GB", vectors=dict(v=properties.TextVector("VB", elements=dict(a=properties.Text("A")))))


class SynC(SynB):
    gc = properties.Group("GC", vectors=dict(v=properties.TextVector("VC", elements=dict(a=properties.Text("A")))))


class SynD(SynC):
    pass
'''


def rule_mro(ctx):
    """A driver class announces the properties of every ancestor's groups, at any inheritance depth: instances of a
    four-level analysis-only hierarchy are constructed by interpreting the metaclass, the group collector and the
    constructors, and a whole-device getProperties is evaluated on each."""
    from .driverworld import build_drivers
    p = ctx.p
    _init(p)
    drv = p.cls("indi.device.driver.Driver")
    f = drv.find_method("message_from_client")
    init = drv.methods["__init__"]
    gp = p.cls("indi.message.get_properties.GetProperties")
    expected = {"SynA": ["V0", "VA"], "SynB": ["V0", "VA2", "VB"], "SynC": ["V0", "VA2", "VB", "VC"], "SynD": ["V0", "VA2", "VB", "VC"]}
    bad = False
    collected = {}
    for depth, cname in enumerate(expected, 1):
        def run(it: Interp):
            ds = build_drivers(it, p, names=tuple((c, c.upper()) for c in expected), src=SYN_SRC)
            m = Obj(gp, {"device": Const(cname.upper()), "name": Const(None), "version": Const("1.7"), "__closed__": Const(True)}, label="getProperties")
            return it.run_function(Fn(f, ds[cname.upper()]), [m], {})

        paths = explore(p, run, {"inline": lambda fi, node: False})
        ctx.paths_enumerated += len(paths)
        if len(paths) != 1 or paths[0].outcome != "return":
            why = f"{len(paths)} paths / outcome {paths[0].outcome}: {show(paths[0].value) if paths[0].value is not None else ''}"
            if len(paths) == 1 and paths[0].outcome == "raise":
                ctx.violated("C01.MRO", init.short, f"constructing / querying a driver at inheritance depth {depth} raises: {why}", fi=init, text="raises")
            else:
                ctx.undecided("C01.MRO", init.short, f"driver at depth {depth} not decided by constant evaluation ({why})", fi=init)
            bad = True
            continue
        got = []
        for e in paths[0].calls(method="send_message"):
            a_ = e.data["args"][0] if e.data["args"] else None
            if isinstance(a_, Term) and is_call(a_, method="to_def_message") and isinstance(a_.args[0], Fn):
                got.append(show(a_.args[0].self_val).split(".")[-1])
        collected[cname] = sorted(got)
        if sorted(got) != expected[cname]:
            missing = sorted(set(expected[cname]) - set(got))
            ctx.violated("C01.MRO", init.short, f"a driver class {cname} (depth {depth}) announces properties {sorted(got)}, expected {expected[cname]} (SynB overrides the group 'ga' of SynA: the nearest definition wins): the groups of some ancestor ({missing}) are lost or shadowed by a farther ancestor's, so their properties are never defined to any client", fi=init, text=f"mro:{cname}", witness="class SynA(Driver): g0=..., ga=...; class SynB(SynA): ga=... (override), gb=...; class SynC(SynB): gc=...; class SynD(SynC): pass")
            bad = True
    if not bad:
        ctx.holds("C01.MRO", init.short, "properties of all ancestors announced on a 4-level synthetic hierarchy (metaclass, collector and constructors interpreted)", fi=init)
    ctx.sample({"rule": "C01.MRO", "hierarchy": "SynD(SynC(SynB(SynA(Driver))))", "announced": collected})


_ENUM_SRC = '''
from indi.device import Driver, properties


class Base(Driver):
    g0 = properties.Group("GRP0", vectors=dict(x=properties.TextVector("V0", elements=dict(a=properties.Text("A"), b=properties.Text("B"), c=properties.Text("C")))))


class DevA(Base):
    g1 = properties.Group(
        "GRP1",
        vectors=dict(
            first=properties.TextVector("V1", elements=dict(a=properties.Text("A"), b=properties.Text("B"))),
            second=properties.NumberVector("V2", elements=dict(a=properties.Number("A"))),
        ),
    )
    g2 = properties.Group(
        "GRP2",
        vectors=dict(
            third=properties.SwitchVector("V3", elements=dict(c=properties.Switch("C"), d=properties.Switch("D"))),
            hidden=properties.TextVector("V4", enabled=False, elements=dict(a=properties.Text("A"))),
        ),
    )
'''


def rule_enum(ctx):
    """Every declared property of every group (own and inherited) exists in the constructed driver, is announced by a
    whole-device getProperties, is addressable by its wire name, and holds every declared element.  Decided by abstract
    evaluation on a driver constructed from an analysis-only definition with three groups, one of them inherited."""
    from .driverworld import _reachable_objs, build_drivers
    from .common import public_get
    p = ctx.p
    _init(p)
    drv = p.cls("indi.device.driver.Driver")
    f = drv.find_method("message_from_client")
    init = drv.methods["__init__"]
    gp = p.cls("indi.message.get_properties.GetProperties")
    declared = {"V0": ["A", "B", "C"], "V1": ["A", "B"], "V2": ["A"], "V3": ["C", "D"], "V4": ["A"]}  # V4 is declared disabled: it still exists (answers with delProperty, can be enabled later)
    bad = False
    for name, expect in ((None, sorted(declared)), ("V0", ["V0"]), ("V3", ["V3"]), ("V2", ["V2"]), ("V4", ["V4"])):
        def run(it: Interp):
            d = build_drivers(it, p, names=(("DevA", "DEVA"),), src=_ENUM_SRC, extra_classes=("Base",))["DEVA"]
            it.objs = {o.label: o for o in _reachable_objs(d)}
            m = Obj(gp, {"device": Const("DEVA"), "name": Const(name), "version": Const("1.7"), "__closed__": Const(True)}, label="getProperties")
            return it.run_function(Fn(f, d), [m], {})

        paths = explore(p, run, {"inline": lambda fi, node: False})
        ctx.paths_enumerated += len(paths)
        if len(paths) != 1 or paths[0].outcome != "return":
            ctx.undecided("C01.ENUM", init.short, f"getProperties(name={name!r}) on the constructed three-group driver is not decided by constant evaluation", fi=init)
            bad = True
            continue
        pa = paths[0]
        got = []
        for e in pa.calls(method="send_message"):
            a_ = e.data["args"][0] if e.data["args"] else None
            if isinstance(a_, Term) and is_call(a_, method="to_def_message") and isinstance(a_.args[0], Fn):
                got.append(show(a_.args[0].self_val).replace("vec:DEVA.", ""))
        if sorted(got) != expect:
            ctx.violated("C01.ENUM", init.short, f"a driver declaring properties {sorted(declared)} in three groups (one inherited) answers getProperties(name={name!r}) with {sorted(got)}: a declared property is not enumerated / not addressable by its wire name", fi=init, text=f"enumerate:{name}")
            bad = True
        if name is None:
            have = {k: sorted(l.split(".")[-1] for l in pa.interp.objs if l.startswith(f"el:DEVA.{k}.")) for k in declared}
            if have != {k: sorted(v) for k, v in declared.items()}:
                ctx.violated("C01.ENUM", init.short, f"the constructed properties hold elements {have}, declared {declared}", fi=init, text="elements")
                bad = True
    if not bad:
        ctx.holds("C01.ENUM", init.short, "every declared property of every group (incl. inherited) is enumerated, addressable by wire name, with every declared element", fi=init)


# necessary conditions of convergence that other properties' rules decide (router policy independence, definitions, publication, client mirror, framing)
IMPORTS = [('C05', 'C05.KEY'), ('C05', 'C05.PRED'), ('C07', 'C07.BRANCH'), ('C07', 'C07.DISABLED'), ('C07', 'C07.META'), ('C14', 'C14.SETTER'), ('C15', 'C15.MIRROR'), ('C02', 'C02.LOOP'), ('C02', 'C02.CONSUME'), ('C02', 'C02.DECODE'), ('C02', 'C02.DISCARD'), ('C09', 'C09.STEP'), ('C10', 'C10.SIGN'), ('C10', 'C10.SIGNR'), ('C10', 'C10.RENDER')]

RULES = [
    ("C01.PUB", rule_pub, "publish after every authoritative store (exemption table with reasons)"),
    ("C01.ORDER", rule_order, "enabled setters: store, definition/delProperty, update - for every vector of a group"),
    ("C01.MRO", rule_mro, "group collector closes over the whole ancestry (abstract evaluation on a synthetic 4-level hierarchy)"),
    ("C01.ENUM", rule_enum, "Driver.__init__ enumerates every vector of every group; groups/vectors instantiate every definition"),
]
