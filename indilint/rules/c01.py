"""C01 - client view converges to the device's true property state (driver-side obligations)."""
from __future__ import annotations

import ast

from ..absint import Builtin, Cls, Const, Dct, Fn, Interp, Lst, Obj, Term, Tup, explore, is_call, mentions, run_method, show
from ..model import Undecided, walk_no_nested
from .common import path_text

EXPLANATION = (
    "Decides the driver-side obligations without which no client can converge, for every definition (they concern the framework "
    "classes, not one device). C01.PUB: every function of the driver's instance package that stores an authoritative field (_value, "
    "_state, _enabled) publishes after the store on every normal path - to_set_message for value/state, the def/set pair for enabled - "
    "with an explicit exemption table (constructors, the documented silent reset_* functions, element enabling, and the switch rule "
    "function whose only caller publishes). C01.ORDER: the enabled setters store first, then send the definition (or delProperty), then "
    "the update, and the group setter does so for all of its vectors without early exit. C01.MRO: the group collector is abstractly "
    "interpreted on a synthetic three-level driver hierarchy (SynC(SynB(SynA(Driver))), one group each, the metaclass's per-class table "
    "computed by interpreting DriverMeta.__new__): the result must contain the groups of all three levels. C01.ENUM: Driver.__init__ "
    "fills the vector table from every vector of every group without filter, keyed by the wire name. The client half is decided by C15, "
    "the transport half by C02, message fidelity by C03/C07; C01's evidence lists them as imported obligations."
)
NOT_DECIDED = "that the composition converges for every history and fragmentation (a statement about two interacting state machines)."
ASSUMPTIONS = ["imported obligations: C02 (framing), C03 (codec), C07 (definitions), C15 (client mirror) hold", "the metaclass protocol: type.__new__ stores the namespace it is given"]
TRUSTED = ["CPython ast", "indilint abstract interpreter"]

INSTANCE_PKG = "indi.device.properties.instance"
FIELDS = ("_value", "_state", "_enabled")
EXEMPT = {
    ("Element", "__init__"): "constructor",
    ("Vector", "__init__"): "constructor",
    ("Group", "__init__"): "constructor",
    ("Element", "reset_value"): "documented silent resynchronisation (Read handlers), not in the property's operation set",
    ("Switch", "reset_bool_value"): "documented silent resynchronisation, not in the property's operation set",
    ("Element", "enabled"): "elements are not in the property's operation set; C07 covers their effect on definitions",
    ("SwitchVector", "apply_rule"): "its only caller chain is check_value <- value setter, which publishes afterwards (verified below)",
}


def _stores(fi):
    out = []
    for n in walk_no_nested(fi.node):
        if isinstance(n, (ast.Assign, ast.AugAssign, ast.AnnAssign)):
            tg = n.targets if isinstance(n, ast.Assign) else [n.target]
            for t in tg:
                for sub in ast.walk(t):
                    if isinstance(sub, ast.Attribute) and sub.attr in FIELDS and isinstance(sub.ctx, ast.Store):
                        out.append((n, sub.attr))
    return out


def _send_kind(ev):
    """'def' / 'set' / None for a send_message(<x>.to_def_message()/to_set_message()) call event."""
    if not (ev.kind == "call" and is_call(ev.data["term"], method="send_message") and ev.data["args"]):
        return None
    a = ev.data["args"][0]
    if isinstance(a, Term) and is_call(a, method="to_def_message"):
        return "def"
    if isinstance(a, Term) and is_call(a, method="to_set_message"):
        return "set"
    return "other"


def rule_pub(ctx):
    p = ctx.p
    n = 0
    for fi in p.functions:
        if not fi.module.name.startswith(INSTANCE_PKG):
            continue
        st = _stores(fi)
        if not st:
            continue
        n += 1
        key = (fi.cls.name if fi.cls else None, fi.name)
        fields = sorted({f for _, f in st})
        if key in EXEMPT and not (key == ("Element", "enabled") and fi.kind != "setter"):
            ctx.holds("C01.PUB", fi.short, f"exempt: {EXEMPT[key]}", fi=fi)
            continue
        paths = run_method(p, fi, opts={"max_for": 2})
        ctx.paths_enumerated += len(paths)
        bad = False
        for pa in paths:
            if pa.outcome != "return":
                continue
            stores = [e for e in pa.events if e.kind == "store" and e.data.get("attr") in FIELDS]
            if not stores:
                continue
            if any(e.kind == "loop-enter" and e.data["symbolic"] and e.data["n"] == 0 for e in pa.events):
                continue  # nothing to publish for an empty collection; the >=1-iteration paths carry the obligation
            last = max(e.idx for e in stores)
            kinds = [(_send_kind(e), e) for e in pa.events if e.idx > last and _send_kind(e)]
            have = {k for k, _ in kinds}
            need = {"def", "set"} if "_enabled" in fields else {"set"}
            if not need <= have:
                ctx.violated("C01.PUB", fi.short, f"a path stores {fields} and returns without publishing {sorted(need - have)}: clients keep the old state", fi=fi, text=f"unpublished:{fields}:{sorted(need - have)}", witness=path_text(pa, 8))
                bad = True
        if not bad:
            ctx.holds("C01.PUB", fi.short, f"every path storing {fields} publishes afterwards", fi=fi)
    ctx.floor("C01.PUB", "functions storing authoritative fields", n, 9)
    # apply_rule's only callers: Switch.check_value <- value setter (publishes)
    callers = []
    for fi in p.functions:
        for node in walk_no_nested(fi.node):
            if isinstance(node, ast.Call) and isinstance(node.func, ast.Attribute) and node.func.attr == "apply_rule":
                callers.append(fi)
    ok = bool(callers) and all(c.name == "check_value" and c.cls is not None and c.cls.name == "Switch" for c in callers)
    cv_callers = []
    for fi in p.functions:
        if not fi.module.name.startswith("indi.device"):
            continue
        for node in walk_no_nested(fi.node):
            if isinstance(node, ast.Call) and isinstance(node.func, ast.Attribute) and node.func.attr == "check_value" and fi.module.name.startswith(INSTANCE_PKG):
                cv_callers.append(fi)
    ok2 = all((c.kind == "setter" and c.name == "value") or c.name == "reset_value" for c in cv_callers)
    ctx.check(ok and ok2, "C01.PUB", "apply_rule callers", f"apply_rule <- {[c.short for c in callers]}; check_value <- {sorted({c.short for c in cv_callers})}", f"the switch rule function (which stores _value silently) is reachable from {[c.short for c in callers if c.name != 'check_value']} / check_value from {[c.short for c in cv_callers]}, not only from the publishing setter", fi=callers[0] if callers else None, text="apply_rule-callers")


def rule_order(ctx):
    p = ctx.p
    vec = p.cls(f"{INSTANCE_PKG}.vectors.Vector")
    grp = p.cls(f"{INSTANCE_PKG}.group.Group")
    for ci, looped in ((vec, False), (grp, True)):
        f = ci.find_setter("enabled")
        if f is None:
            raise Undecided(f"{ci.name}.enabled setter not found")
        paths = run_method(p, f, opts={"max_for": 2})
        ctx.paths_enumerated += len(paths)
        bad = False
        saw2 = False
        for pa in paths:
            if pa.outcome != "return":
                ctx.violated("C01.ORDER", f.short, "the enabled setter can raise by itself", fi=f, text="raises")
                bad = True
                continue
            st = [e for e in pa.events if e.kind == "store" and e.data.get("attr") == "_enabled"]
            sends = [(_send_kind(e), e) for e in pa.events if _send_kind(e)]
            if len(st) != 1 or show(st[0].data["value"]) != "value":
                ctx.violated("C01.ORDER", f.short, "the flag is not stored exactly once from the assigned value", fi=f, text="store")
                bad = True
                continue
            if any(e.idx < st[0].idx for _, e in sends):
                ctx.violated("C01.ORDER", f.short, "a message is rendered/sent before the flag is stored (it reflects the old state)", fi=f, text="send-before-store")
                bad = True
            rend = [e for e in pa.events if e.kind == "call" and (is_call(e.data["term"], method="to_def_message") or is_call(e.data["term"], method="to_set_message"))]
            if any(e.idx < st[0].idx for e in rend):
                ctx.violated("C01.ORDER", f.short, "a message is rendered before the flag is stored", fi=f, text="render-before-store")
                bad = True
            if not looped:
                seq = [k for k, _ in sends]
                if seq != ["def", "set"]:
                    ctx.violated("C01.ORDER", f.short, f"messages are sent in order {seq}, expected definition (or delProperty) then update", fi=f, text=f"order:{seq}")
                    bad = True
                else:
                    for k, e in sends:
                        recv = e.data["args"][0].args[0]
                        if not (isinstance(recv, Fn) and show(recv.self_val) == "self"):
                            ctx.violated("C01.ORDER", f.short, "the published messages are not this vector's", fi=f, text="receiver")
                            bad = True
            else:
                enters = [e for e in pa.events if e.kind == "loop-enter"]
                if len(enters) != 1 or "self._vectors" not in show(enters[0].data["iterable"]):
                    ctx.violated("C01.ORDER", f.short, "the group setter does not iterate over all of its vectors", fi=f, text="loop")
                    bad = True
                    continue
                exits = [e for e in pa.events if e.kind == "loop-exit"]
                if exits and exits[0].data["how"] != "exhausted":
                    ctx.violated("C01.ORDER", f.short, "the loop over the group's vectors stops early", fi=f, text="early-exit")
                    bad = True
                nit = enters[0].data["n"]
                if nit == 2:
                    saw2 = True
                for i in range(nit):
                    evs = [(k, e) for k, e in sends if any(c[0] == "loop" and c[2] == i for c in e.ctx)]
                    seq = [k for k, _ in evs]
                    if seq != ["def", "set"]:
                        ctx.violated("C01.ORDER", f.short, f"per vector the group sends {seq}, expected definition then update", fi=f, text=f"order:{seq}")
                        bad = True
                    conds = [e for e in pa.assumes() if any(c[0] == "loop" and c[2] == i for c in e.ctx)]
                    if conds:
                        ctx.violated("C01.ORDER", f.short, f"publication of a vector is conditional on {show(conds[0].data['cond'])[:60]}", fi=f, text="conditional")
                        bad = True
                    for k, e in evs:
                        recv = e.data["args"][0].args[0]
                        owner = recv.self_val if isinstance(recv, Fn) else (recv.args[0] if isinstance(recv, Term) and recv.op == "attr" else None)
                        if not (isinstance(owner, Term) and owner.op == "val" and owner.args[1] == i and "self._vectors" in show(owner.args[0])):
                            ctx.violated("C01.ORDER", f.short, "the message sent in an iteration is not the iteration's vector's", fi=f, text="receiver")
                            bad = True
        if looped and not saw2:
            ctx.undecided("C01.ORDER", f.short, "two-iteration path not explored", fi=f)
            bad = True
        if not bad:
            ctx.holds("C01.ORDER", f.short, "store, then definition/delProperty, then update" + (" for every vector of the group" if looped else ""), fi=f)
    # the state setter validates and stores the assigned state
    f = vec.find_setter("state_")
    paths = run_method(p, f)
    ok = True
    for pa in paths:
        if pa.outcome != "return":
            continue
        st = [e for e in pa.events if e.kind == "store" and e.data.get("attr") == "_state"]
        if len(st) != 1 or not (mentions(st[0].data["value"], lambda t: isinstance(t, Term) and t.op == "param" and t.args[0] == "value")):
            ok = False
    ctx.check(ok, "C01.ORDER", f.short, "stores the assigned state", "the state setter does not store the assigned state", fi=f, text="state-store")


SYN_SRC = '''
from indi.device import Driver, properties


class SynA(Driver):
    name = "SYN"
    ga = properties.Group("GA")
    plain_a = 1


class SynB(SynA):
    gb = properties.Group("GB")


class SynC(SynB):
    gc = properties.Group("GC")


class SynD(SynC):
    pass
'''


def rule_mro(ctx):
    p = ctx.p
    if "indilint_synthetic.drivers" not in p.modules:
        p.add_synthetic_module("indilint_synthetic.drivers", SYN_SRC)
    drv = p.cls("indi.device.driver.Driver")
    meta = p.cls("indi.device.driver.DriverMeta")
    gdef = p.cls("indi.device.properties.definition.group.Group")
    new = meta.methods.get("__new__")
    coll = drv.find_method("_all_group_definitions")
    if new is None or coll is None:
        raise Undecided("DriverMeta.__new__ / Driver._all_group_definitions not found")
    chain = [drv] + [p.cls(f"indilint_synthetic.drivers.Syn{x}") for x in "ABCD"]
    expected = {"SynA": {"ga"}, "SynB": {"ga", "gb"}, "SynC": {"ga", "gb", "gc"}, "SynD": {"ga", "gb", "gc"}}
    group_objs = {}

    def class_namespace(ci):
        d = Dct(label=f"{ci.name}.namespace")
        d.set(Const("__module__"), Const(ci.module.name))
        d.set(Const("__qualname__"), Const(ci.name))
        for k, e in ci.class_attrs.items():
            is_group = isinstance(e, ast.Call) and p.resolve_class(ci.module, e.func) is gdef
            if is_group:
                g = group_objs.setdefault((ci.name, k), Obj(gdef, {"name": Const(k.upper())}, label=f"group:{ci.name}.{k}"))
                d.set(Const(k), g)
            else:
                d.set(Const(k), Obj(None, label=f"<{ci.name}.{k}>"))
        for k in list(ci.methods) + list(ci.getters):
            d.set(Const(k), Obj(None, label=f"<{ci.name}.{k}>"))
        return d

    results = {}

    def run(it: Interp):
        # 1. the metaclass runs once per class statement, in definition order
        for ci in chain:
            ns = class_namespace(ci)
            it.run_function(Fn(new), [Cls(meta), Const(ci.name), Tup([Cls(b) for b in ci.bases]), ns], {})
            tbl = ns.get(Const("_group_definitions"))
            if tbl is None:
                raise Undecided("DriverMeta.__new__ does not leave a _group_definitions entry in the class namespace")
            it.heap[("cls:" + ci.qualname, "_group_definitions")] = tbl
        # 2. the collector, as Driver.__init__ calls it
        out = {}
        for ci in chain[1:]:
            out[ci.name] = it.run_function(Fn(coll, Cls(ci)), [], {})
        results["out"] = out
        return Const(None)

    paths = explore(p, run, {"inline": lambda fi, node: fi is coll, "max_depth": 12})
    ctx.paths_enumerated += len(paths)
    if len(paths) != 1 or paths[0].outcome != "return":
        why = f"{len(paths)} paths / outcome {paths[0].outcome}: {show(paths[0].value) if paths[0].value is not None else ''}"
        if len(paths) == 1 and paths[0].outcome == "raise":
            ctx.violated("C01.MRO", coll.short, f"collecting group definitions raises on a three-level hierarchy: {why}", fi=coll, text="raises")
        else:
            ctx.undecided("C01.MRO", coll.short, f"collector not decided by constant evaluation ({why})", fi=coll)
        return
    bad = False
    for cname, res in results["out"].items():
        if not isinstance(res, Dct):
            ctx.undecided("C01.MRO", coll.short, f"result for {cname} is not a dict: {show(res)[:60]}", fi=coll)
            bad = True
            continue
        got = {k.v for k, v in res.pairs if isinstance(k, Const)}
        if got != expected[cname]:
            missing = sorted(expected[cname] - got)
            ctx.violated("C01.MRO", coll.short, f"a driver class {cname} (depth {list(expected).index(cname) + 1}) collects groups {sorted(got)}, expected {sorted(expected[cname])}: groups {missing} declared by an indirect ancestor are lost, so their properties are never defined to clients", fi=coll, text=f"lost:{cname}:{missing}", witness=f"class SynC(SynB(SynA(Driver))) with one group per level")
            bad = True
        else:
            # values must be the group definition objects of the declaring classes
            for k, v in res.pairs:
                if not (isinstance(v, Obj) and v.label.startswith("group:")):
                    ctx.violated("C01.MRO", coll.short, f"group '{show(k)}' of {cname} maps to {show(v)[:40]}, not to a group definition", fi=coll, text=f"value:{cname}")
                    bad = True
    if not bad:
        ctx.holds("C01.MRO", coll.short, "groups of all ancestors collected on a 4-level synthetic hierarchy (metaclass table computed from DriverMeta.__new__)", fi=coll)
    ctx.sample({"rule": "C01.MRO", "hierarchy": "SynD(SynC(SynB(SynA(Driver))))", "collected": {k: sorted(kk.v for kk, _ in v.pairs) if isinstance(v, Dct) else show(v) for k, v in results["out"].items()}})


def rule_enum(ctx):
    p = ctx.p
    drv = p.cls("indi.device.driver.Driver")
    init = drv.methods["__init__"]
    paths = run_method(p, init, opts={"max_for": 1})
    ctx.paths_enumerated += len(paths)
    good = False
    bad = False
    for pa in paths:
        if pa.outcome != "return":
            continue
        enters = [e for e in pa.events if e.kind == "loop-enter"]
        table = [e.data["value"] for e in pa.events if e.kind == "store" and e.data.get("attr") == "_vectors" and show(e.data["base"]) == "self"]
        stores = [e for e in pa.events if e.kind == "store" and e.data.get("key") is not None and table and e.data.get("base") is table[-1]]
        full = len(enters) >= 2 and all(e.data["n"] == 1 for e in enters[:2])
        if not full:
            continue
        if len(stores) != 1:
            ctx.violated("C01.ENUM", init.short, "a vector of a group is not entered into the driver's vector table", fi=init, text="not-stored")
            bad = True
            continue
        s = stores[0]
        nloops = len([c for c in s.ctx if c[0] == "loop"])
        key, val = s.data["key"], s.data["value"]
        it0, it1 = show(enters[0].data["iterable"]), show(enters[1].data["iterable"])
        conds = [e for e in pa.assumes() if any(c[0] == "loop" for c in e.ctx)]
        groups_val = [e.data["value"] for e in pa.events if e.kind == "store" and e.data.get("attr") == "_groups" and show(e.data["base"]) == "self"]

        def view_base(t):
            if isinstance(t, Term) and t.op == "call" and isinstance(t.args[0], Term) and t.args[0].op == "attr" and t.args[0].args[1] in ("items", "values"):
                return t.args[0].args[0]
            return None

        b0, b1 = view_base(enters[0].data["iterable"]), view_base(enters[1].data["iterable"])
        ok = (
            nloops == 2 and groups_val and b0 is groups_val[-1]
            and isinstance(b1, Term) and b1.op == "attr" and b1.args[1] in ("vectors", "_vectors") and isinstance(b1.args[0], Term) and b1.args[0].op == "val" and b1.args[0].args[0] is b0
            and isinstance(val, Term) and val.op == "val" and val.args[0] is b1 and show(key) == show(val) + ".name" and not conds
        )
        if ok:
            good = True
        else:
            ctx.violated("C01.ENUM", init.short, f"the vector table is not filled with every vector of every group under its wire name (loops over {it0[:40]} / {it1[:40]}, key {show(key)[:40]}, filter {[show(c.data['cond'])[:40] for c in conds]})", fi=init, text="fill")
            bad = True
    if good and not bad:
        ctx.holds("C01.ENUM", init.short, "_vectors[vector.name] = vector for every vector of every group, unconditionally", fi=init)
    elif not bad:
        ctx.undecided("C01.ENUM", init.short, "no path with one group and one vector explored", fi=init)
    # groups are instantiated from the collector's result
    src = ast.unparse(init.node)
    ctx.check("_all_group_definitions()" in src, "C01.ENUM", init.short + " groups", "groups built from _all_group_definitions()", "Driver.__init__ does not build its groups from the inherited-definition collector", fi=init, text="collector-use")
    # Group instantiates every vector definition; Vector every element definition
    grp = p.cls(f"{INSTANCE_PKG}.group.Group")
    vec = p.cls(f"{INSTANCE_PKG}.vectors.Vector")
    for ci, src_attr, dst in ((grp, "definition.vectors", "_vectors"), (vec, "definition.elements", "_elements")):
        f = ci.methods["__init__"]
        paths = run_method(p, f)
        ok = False
        for pa in paths:
            for e in pa.events:
                if e.kind == "store" and e.data.get("attr") == dst:
                    v = e.data["value"]
                    if isinstance(v, Term) and v.op == "comp" and v.args[3] == "dict" and src_attr in show(v.args[1]) and not v.args[2] and "instance(self)" in show(v.args[0]):
                        ok = True
        ctx.check(ok, "C01.ENUM", f.short, f"{dst} = instance of every entry of {src_attr}", f"{ci.name}.__init__ does not instantiate every entry of {src_attr} (unfiltered)", fi=f, text=f"instantiate:{dst}")


# necessary conditions of convergence that other properties' rules decide (router policy independence, definitions, publication, client mirror, framing)
IMPORTS = [('C05', 'C05.KEY'), ('C05', 'C05.PRED'), ('C07', 'C07.BRANCH'), ('C07', 'C07.DISABLED'), ('C07', 'C07.META'), ('C14', 'C14.SETTER'), ('C15', 'C15.MIRROR'), ('C02', 'C02.LOOP'), ('C02', 'C02.CONSUME'), ('C02', 'C02.DECODE'), ('C09', 'C09.STEP')]

RULES = [
    ("C01.PUB", rule_pub, "publish after every authoritative store (exemption table with reasons)"),
    ("C01.ORDER", rule_order, "enabled setters: store, definition/delProperty, update - for every vector of a group"),
    ("C01.MRO", rule_mro, "group collector closes over the whole ancestry (abstract evaluation on a synthetic 4-level hierarchy)"),
    ("C01.ENUM", rule_enum, "Driver.__init__ enumerates every vector of every group; groups/vectors instantiate every definition"),
]
