"""C05 - device messages fan out to every client, subject to its BLOB policy."""
from __future__ import annotations

import ast

from ..absint import Cls, Const, Dct, Fn, Lst, Obj, Term, is_call, run_method, show
from ..model import Undecided, walk_no_nested
from .. import protocol_tables as T
from .common import concrete_message_classes, flag, lower_first, path_text
from .routermodel import World, deliveries, message_obj, router_cls, run_router

EXPLANATION = (
    "Truth-table analysis of the router's from-device branch. Router.process_message is abstractly interpreted (constant propagation "
    "over the protocol's finite vocabularies) for every concrete message class x every policy configuration of two clients "
    "(unset, Never, Also, Only for the message's device, and Also/Only set for a *different* device) x sender in {client0, a device, none} "
    "x message device in {A, none}; the set of message_from_device calls on each path is compared with the oracle of the property "
    "(deliver iff device-originated, not the sender, and the client's policy for that device admits the kind; exactly once, the message "
    "itself). C05.KEY: process_enable_blob changes exactly blob_routing[sender][message.device] (nothing else, nothing for an unregistered "
    "sender). C05.FORGET/RESET: unregister_client removes the client from both tables on every path and is idempotent; register_client "
    "installs an empty policy map. C05.DEFAULT: the default policy constant is Never. C05.WRITE: nothing outside the router's own "
    "functions writes its tables. C05.HANDSHAKE: clients announce Never on the control connection and Only on the BLOB connection."
)
NOT_DECIDED = "histories that register the same client object twice (the list would hold it twice); delivery order among clients."
ASSUMPTIONS = [
    "clients and devices do not override __eq__ (identity comparison in 'client == sender')",
    "a device-originated BLOB payload update is exactly the class whose tag is setBLOBVector (INDI 1.7)",
]
TRUSTED = ["CPython ast", "indilint abstract interpreter"]

POLICY_CASES = [
    ("unset", {}),
    ("Never", {"A": "Never"}),
    ("Also", {"A": "Also"}),
    ("Only", {"A": "Only"}),
    ("other-device:Only", {"B": "Only"}),
    ("other-device:Also", {"B": "Also"}),
]


def _effective(policy_name: str, msg_device):
    if msg_device is None or policy_name in ("unset",) or policy_name.startswith("other-device"):
        return None
    return policy_name


def rule_pred(ctx):
    pred_table(ctx, "C05.PRED")


def pred_table(ctx, RULE, only_tags=None):
    p = ctx.p
    classes = concrete_message_classes(p)
    ctx.floor(RULE, "concrete message classes", len(classes), 21)
    if only_tags is not None:
        classes = [c for c in classes if lower_first(c.name) in only_tags]
    rows = 0
    bad_rows = 0
    f = router_cls(p).find_method("process_message")
    for ci in classes:
        tag = lower_first(ci.name)
        proto = T.DIRECTION.get(tag)
        from_device = proto[1] if proto is not None else bool(flag(p, ci, "from_device"))
        is_blob = tag == "setBLOBVector"
        for mdev in ("A", None):
            for pn0, pol0 in POLICY_CASES:
                for pn1, pol1 in POLICY_CASES:
                    if mdev is None and (pn0 not in ("unset", "Only") or pn1 not in ("unset", "Only")):
                        continue
                    for sender_kind in ("client0", "device0", "none"):
                        rows += 1

                        def wf():
                            return World(p, 2, 2, {0: pol0, 1: pol1})

                        def af(w):
                            m = message_obj(p, ci, device=mdev, value="Never" if tag == "enableBLOB" else None)
                            w.msg = m
                            s = {"client0": w.clients[0], "device0": w.devices[0], "none": Const(None)}[sender_kind]
                            return [m, s], {}

                        _, paths = run_router(p, wf, "process_message", af)
                        ctx.paths_enumerated += len(paths)
                        for pa in paths:
                            row = f"{tag} device={mdev} policy(client0)={pn0} policy(client1)={pn1} sender={sender_kind}"
                            if pa.outcome != "return":
                                bad_rows += 1
                                ctx.violated(RULE, f.short, f"routing raises for row [{row}]: {show(pa.value) if pa.value is not None else ''}", fi=f, text=f"raise:{tag}:{sender_kind}", witness=row)
                                continue
                            got = {}
                            for recv, arg, ev in deliveries(pa, "message_from_device"):
                                got.setdefault(recv, []).append(arg)
                            for idx, pn in ((0, pn0), (1, pn1)):
                                cname = f"client{idx}"
                                eff = _effective(pn, mdev)
                                nonblob_ok, blob_ok = T.DELIVERY[eff]
                                expect = from_device and not (sender_kind == cname) and (blob_ok if is_blob else nonblob_ok)
                                n = len(got.get(cname, []))
                                if expect and n != 1:
                                    bad_rows += 1
                                    ctx.violated(RULE, f.short, f"<{tag}> ({'BLOB payload' if is_blob else 'non-BLOB'}) is delivered {n} times to a client with policy {pn} (expected once)", fi=f, text=f"miss:{'blob' if is_blob else 'nonblob'}:{pn}:{n}", witness=row)
                                elif not expect and n != 0:
                                    bad_rows += 1
                                    why = "it is the sender" if sender_kind == cname else (f"policy {pn} excludes it" if from_device else "the message is not device-originated")
                                    ctx.violated(RULE, f.short, f"<{tag}> ({'BLOB payload' if is_blob else 'non-BLOB'}) is delivered to a client although {why}", fi=f, text=f"leak:{'blob' if is_blob else 'nonblob'}:{pn}:{'sender' if sender_kind == cname else 'other'}:{from_device}", witness=row)
                                elif expect and got[cname][0] is not pa.world.msg:
                                    bad_rows += 1
                                    ctx.violated(RULE, f.short, "the delivered object is not the message itself", fi=f, text="altered-message", witness=row)
                        if rows % 400 == 1:
                            ctx.sample({"rule": RULE, "row": f"{tag} device={mdev} p0={pn0} p1={pn1} sender={sender_kind}", "path": path_text(paths[0], 8)})
    ctx.counters[f"{RULE}:truth-table rows"] = rows
    if bad_rows == 0:
        ctx.holds(RULE, f.short, f"{rows} rows (class x policy(client0) x policy(client1) x sender x device) agree with the delivery oracle", fi=f)
    ctx.exhaustive_domains.append("21 message classes x 6x6 policy configurations x 3 senders x device in {A, none}")


def rule_key(ctx):
    p = ctx.p
    f = router_cls(p).find_method("process_enable_blob")
    if f is None:
        raise Undecided("Router.process_enable_blob not found")
    eb = p.cls("indi.message.enable_blob.EnableBLOB")
    bad = False
    n = 0
    for value in ("Never", "Also", "Only"):
        for mdev in ("A", "B"):
            for sender_kind in ("client0", "client1", "unregistered", "none", "device0"):
                n += 1
                pol = {0: {"A": "Also", "B": "Never"}, 1: {"A": "Only"}}

                def wf():
                    w = World(p, 3, 1, pol, registered=[0, 1])
                    w.before = w.policy_snapshot()
                    return w

                def af(w):
                    m = message_obj(p, eb, device=mdev, value=value)
                    s = {"client0": w.clients[0], "client1": w.clients[1], "unregistered": w.clients[2], "none": Const(None), "device0": w.devices[0]}[sender_kind]
                    return [m, s], {}

                _, paths = run_router(p, wf, "process_enable_blob", af)
                ctx.paths_enumerated += len(paths)
                row = f"enableBLOB({mdev})={value} from {sender_kind}"
                for pa in paths:
                    if pa.outcome != "return":
                        ctx.violated("C05.KEY", f.short, f"raises for [{row}]: {show(pa.value)}", fi=f, text=f"raise:{sender_kind}", witness=row)
                        bad = True
                        continue
                    after = pa.world.policy_snapshot()
                    expect = {k: dict(v) for k, v in pa.world.before.items()}
                    if sender_kind in ("client0", "client1"):
                        expect[sender_kind][repr(mdev)] = repr(value)
                    if after != expect:
                        ctx.violated("C05.KEY", f.short, f"policy tables after [{row}] are {after}, expected {expect}: a setting must change exactly (sender, device)", fi=f, text=f"effect:{sender_kind}", witness=row)
                        bad = True
    if not bad:
        ctx.holds("C05.KEY", f.short, f"{n} cases: exactly blob_routing[sender][message.device] changes; unregistered senders change nothing", fi=f)
    # process_message hands every EnableBLOB to process_enable_blob with (message, sender)
    f2 = router_cls(p).find_method("process_message")

    def wf2():
        return World(p, 2, 1, {})

    def af2(w):
        m = message_obj(p, eb, device="A", value="Only")
        return [m, w.clients[0]], {}

    _, paths = run_router(p, wf2, "process_message", af2)
    ok = all(pa.outcome == "return" and pa.world.policy_snapshot().get("client0") == {"'A'": "'Only'"} and pa.world.policy_snapshot().get("client1") == {} for pa in paths)
    ctx.check(ok, "C05.KEY", f2.short + "[enableBLOB]", "an enableBLOB from client0 sets exactly client0's policy for that device", "process_message does not apply an enableBLOB to (sender, device) only", fi=f2, text="enable-dispatch")


def rule_default(ctx):
    p = ctx.p
    v = p.class_constant(router_cls(p), "DEFAULT_BLOB_POLICY")
    ctx.check(v == "Never", "C05.DEFAULT", router_cls(p).short, "DEFAULT_BLOB_POLICY = Never", f"the default BLOB policy is {v!r}, the protocol default is Never", ci=router_cls(p), text=f"default:{v}")


def rule_forget(ctx):
    p = ctx.p
    f = router_cls(p).find_method("unregister_client")
    bad = False
    for who, label in ((0, "registered client0"), (1, "registered client1"), (2, "never-registered client")):
        def wf():
            return World(p, 3, 1, {0: {"A": "Also"}, 1: {"A": "Only"}}, registered=[0, 1])

        def af(w):
            return [w.clients[who]], {}

        _, paths = run_router(p, wf, "unregister_client", af)
        ctx.paths_enumerated += len(paths)
        for pa in paths:
            if pa.outcome != "return":
                ctx.violated("C05.FORGET", f.short, f"unregister_client raises for a {label}", fi=f, text=f"raise:{label}")
                bad = True
                continue
            w = pa.world
            cl = [show(x) for x in w.table("clients").items]
            br = w.policy_snapshot()
            exp_cl = [c for c in ("client0", "client1") if c != f"client{who}"]
            exp_br = {k: v for k, v in {"client0": {"'A'": "'Also'"}, "client1": {"'A'": "'Only'"}}.items() if k != f"client{who}"}
            if cl != exp_cl:
                ctx.violated("C05.FORGET", f.short, f"after unregistering a {label} the client list is {cl}, expected {exp_cl}", fi=f, text=f"clients:{label}")
                bad = True
            if br != exp_br:
                ctx.violated("C05.FORGET", f.short, f"after unregistering a {label} the policy table is {br}, expected {exp_br}: settings must be discarded with the client", fi=f, text=f"policies:{label}")
                bad = True
    # stale policy entry without a client entry, and client entry without policy entry
    def wf3():
        w = World(p, 2, 1, {0: {"A": "Also"}}, registered=[0])
        w.table("blob_routing").set(w.clients[1], Dct([(Const("A"), Const("Only"))]))
        return w

    _, paths = run_router(p, wf3, "unregister_client", lambda w: ([w.clients[1]], {}))
    for pa in paths:
        if pa.outcome != "return" or "client1" in pa.world.policy_snapshot():
            ctx.violated("C05.FORGET", f.short, "a policy entry survives unregister_client when the client is no longer in the client list (second close of the same connection)", fi=f, text="stale-policy")
            bad = True
    if not bad:
        ctx.holds("C05.FORGET", f.short, "client and its settings are removed on every path; idempotent; others untouched", fi=f)


def rule_reset(ctx):
    p = ctx.p
    f = router_cls(p).find_method("register_client")

    def wf():
        w = World(p, 2, 1, {0: {"A": "Also"}}, registered=[0])
        # a stale policy for the client that is about to (re)register
        w.table("blob_routing").set(w.clients[1], Dct([(Const("A"), Const("Only"))]))
        return w

    _, paths = run_router(p, wf, "register_client", lambda w: ([w.clients[1]], {}))
    ctx.paths_enumerated += len(paths)
    ok = True
    for pa in paths:
        if pa.outcome != "return":
            ok = False
            continue
        cl = [show(x) for x in pa.world.table("clients").items]
        br = pa.world.policy_snapshot()
        if cl != ["client0", "client1"] or br.get("client1") != {} or br.get("client0") != {"'A'": "'Also'"}:
            ok = False
    ctx.check(ok, "C05.RESET", f.short, "registration appends the client and installs an empty policy map", "register_client does not leave the new client with an empty (default) policy map / alters other clients", fi=f, text="register")


def rule_write(ctx):
    """Who may write the router's tables: only Router's own methods."""
    p = ctx.p
    rc = router_cls(p)
    tables = ("clients", "devices", "blob_routing")
    allowed = {"__init__", "register_device", "register_client", "unregister_client", "process_enable_blob"}
    n = 0
    bad = False
    for fi in p.functions:
        for node in walk_no_nested(fi.node):
            target = None
            how = None
            if isinstance(node, (ast.Assign, ast.AugAssign, ast.Delete, ast.AnnAssign)):
                tg = node.targets if isinstance(node, (ast.Assign, ast.Delete)) else [node.target]
                for t in tg:
                    base = t
                    while isinstance(base, ast.Subscript):
                        base = base.value
                    if isinstance(base, ast.Attribute) and base.attr in tables:
                        target, how = base, "store"
            elif isinstance(node, ast.Call) and isinstance(node.func, ast.Attribute) and node.func.attr in ("append", "remove", "pop", "clear", "extend", "insert", "update", "setdefault", "popitem"):
                base = node.func.value
                while isinstance(base, (ast.Subscript, ast.Call)):
                    base = base.value if isinstance(base, ast.Subscript) else (base.func.value if isinstance(base.func, ast.Attribute) else base.func)
                if isinstance(base, ast.Attribute) and base.attr in tables:
                    target, how = base, node.func.attr
            if target is None:
                continue
            recv = ast.unparse(target.value)
            is_router_recv = (fi.cls is rc and recv == "self") or "router" in recv.lower()
            if not is_router_recv:
                continue
            n += 1
            if fi.cls is rc and fi.name in allowed:
                continue
            bad = True
            ctx.violated("C05.WRITE", fi.short, f"writes the router's '{target.attr}' table ({how}) outside the router's registration functions", node=node, fi=fi)
    ctx.floor("C05.WRITE", "table writes", n, 3)
    if not bad:
        ctx.holds("C05.WRITE", rc.short, f"{n} writes of clients/devices/blob_routing, all inside {sorted(allowed)}", ci=rc)


def rule_handshake(ctx):
    p = ctx.p
    bc = p.cls("indi.client.client.BaseClient")
    cc = p.cls("indi.client.client.Client")
    f1 = bc.methods.get("blob_handshake")
    f2 = cc.methods.get("blob_handshake")
    if f1 is None or f2 is None:
        raise Undecided("blob_handshake implementations not found")

    def sends(pa):
        out = []
        for e in pa.events:
            if e.kind == "call" and is_call(e.data["term"], method="send_message") and e.data["args"]:
                a = e.data["args"][0]
                if isinstance(a, Term) and a.op == "call" and isinstance(a.args[0], Cls) and a.args[0].ci.name == "EnableBLOB":
                    kw = dict((k, v) for k, v in a.args[2] if k)
                    callee = e.data["callee"]
                    recv = show(callee.self_val) if isinstance(callee, Fn) and callee.self_val is not None else show(callee)
                    out.append((recv, show(kw.get("device")) if kw.get("device") is not None else None, show(kw.get("value")) if kw.get("value") is not None else None))
        return out

    paths = run_method(p, f1)
    ok = len(paths) == 1 and sends(paths[0]) == [("self", "device", "'Never'")]
    ctx.check(ok, "C05.HANDSHAKE", f1.short, "sends EnableBLOB(device, Never) on the control connection", f"BaseClient.blob_handshake sends {sends(paths[0]) if paths else None}", fi=f1, text="base-handshake")
    paths = run_method(p, f2, opts={"inline": lambda fi, node: fi is f1})
    got = sends(paths[0]) if len(paths) == 1 else None
    ok = got is not None and ("self", "device", "'Never'") in got and any(r.endswith("blob_connection_handler.send_message") or "blob_connection_handler" in r for r, d, v in got if v == "'Only'" and d == "device") and len(got) == 2
    ctx.check(ok, "C05.HANDSHAKE", f2.short, "Never on control + Only on the BLOB connection", f"Client.blob_handshake sends {got}", fi=f2, text="client-handshake")


# the router's fan-out does not isolate its clients: a library client (the drivers' snooping client is a BaseClient)
# that raises on some device message ends the delivery to every client registered after it
IMPORTS = [('C15', 'C15.MIRROR')]

def rule_reentrant(ctx):
    from .routermodel import check_reentrant
    check_reentrant(ctx, "C05.REENTRANT", "client")


EXPLANATION = EXPLANATION + ' C05.REENTRANT also covers a client that leaves and registers again from inside its delivery and a client that sends a message of its own through the router from inside its delivery.'

RULES = [
    ("C05.REENTRANT", rule_reentrant, "clients (un)registered from inside a delivery: everybody registered at its turn is served exactly once"),
    ("C05.PRED", rule_pred, "delivery truth table of Router.process_message over class x policies x sender x device equals the property's oracle"),
    ("C05.KEY", rule_key, "enableBLOB changes exactly blob_routing[sender][message.device]"),
    ("C05.DEFAULT", rule_default, "default policy is Never"),
    ("C05.FORGET", rule_forget, "unregister_client removes client and settings on every path, idempotently"),
    ("C05.RESET", rule_reset, "register_client installs an empty policy map"),
    ("C05.WRITE", rule_write, "only the router's registration functions write clients/devices/blob_routing"),
    ("C05.HANDSHAKE", rule_handshake, "clients announce Never (control) and Only (BLOB connection)"),
]
