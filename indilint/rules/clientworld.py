"""Abstract client-side world (client, mirror, messages) for constant evaluation of indi/client."""
from __future__ import annotations

from typing import Dict, List, Optional

from ..absint import Cls, Const, Dct, Fn, Foreign, Interp, Lst, Obj, Term, Tup, explore, is_call, show
from ..model import Program, Undecided

MSG = "indi.message"


_VALF = None  # field behind the client element's public 'value' view (discovered from the getter by make_client)


def make_client(p: Program, callbacks: Optional[List[Obj]] = None, cls="indi.client.client.Client", it: Interp = None) -> Obj:
    """The client is produced by interpreting its real constructor; callback configurations are registered through
    the real onevent().  'callbacks' holds templates from make_callback and is updated in place with the
    configuration objects that onevent created (so rules can refer to the registered objects)."""
    if it is None:
        raise Undecided("make_client needs the interpreter of the current path")
    global _VALF
    from .common import backing_field
    _VALF = backing_field(p, "indi.client.elements.Element", "value")
    from ..absint import Frame
    ci = p.cls(cls)
    saved = dict(it.opts)
    o = client_opts(p)
    it.opts["inline"] = o["inline"]
    it.opts["instantiate"] = o["instantiate"]
    # what the scenario says about library calls (e.g. which callbacks are coroutine functions) also holds while the
    # client is built and the callbacks are registered: a registration may classify its callback once, there
    caller_fm = saved.get("foreign_model")

    def fm(it_, callee, a, k, _d=o["foreign_model"]):
        r = caller_fm(it_, callee, a, k) if caller_fm is not None else None
        return r if r is not None else _d(it_, callee, a, k)

    it.opts["foreign_model"] = fm
    it.opts["call_may_raise"] = None
    it.opts["assert_forks"] = False
    n_ev = len(it.events)
    try:
        sig = p.init_chain_signature(ci)
        kw = {n: Obj(None, label=f"<{n.replace('_', '-')}>") for n in sig.required()}
        fr = Frame(None, ci.module, {})
        c = it.apply(Cls(ci), [], kw, [], None, fr, False)
        if not isinstance(c, Obj):
            raise Undecided(f"construction of {ci.name} did not yield an abstract object")
        c.label = "client"
        onevent = ci.find_method("onevent")
        for i, t in enumerate(callbacks or []):
            table = c.attrs.get("callbacks")
            before = list(table.items) if isinstance(table, Lst) else None
            it.run_function(Fn(onevent, c), [], {k: t.attrs[k] for k in ("device", "vector", "element", "event_type", "callback")})
            table = c.attrs.get("callbacks")
            if before is None or not isinstance(table, Lst):
                raise Undecided("the client keeps no list 'callbacks'")
            added = [x for x in table.items if all(x is not y for y in before)]
            if len(added) != 1 or not isinstance(added[0], Obj):
                raise Undecided("onevent did not register exactly one configuration")
            added[0].label = t.label
            callbacks[i] = added[0]
        for k in ("devices", "callbacks"):
            if k not in c.attrs:
                raise Undecided(f"the client constructor does not create '{k}'")
        c.attrs["devices"].label = "client.devices"
        c.attrs["callbacks"].label = "client.callbacks"
        del it.events[n_ev:]
        return c
    finally:
        it.opts.clear()
        it.opts.update(saved)


def make_callback(p: Program, device=None, vector=None, element=None, event_type="BaseEvent", label="cb") -> Obj:
    et = p.cls(f"indi.client.events.{event_type}")
    return Obj(p.cls("indi.client.client._CallbackConfig"), {
        "device": Const(device), "vector": Const(vector), "element": Const(element),
        "event_type": Cls(et), "callback": Obj(None, label=f"<fn:{label}>"), "uuid": Obj(None, label=f"<uuid:{label}>"),
    }, label=f"cfg:{label}")


def part(p: Program, clsname: str, name: str, value, **extra) -> Obj:
    mod = "def_parts" if clsname.startswith("Def") else "one_parts"
    ci = p.cls(f"{MSG}.{mod}.{clsname}")
    a = {"name": Const(name), "value": value if isinstance(value, (Obj, Term, Const)) else Const(value), "__closed__": Const(True)}
    if clsname.startswith("Def"):
        a["label"] = Const(extra.pop("label", name))
    for k, v in extra.items():
        a[k] = v if isinstance(v, (Obj, Term, Const)) else Const(v)
    return Obj(ci, a, label=f"{clsname}:{name}")


def msg(p: Program, clsname: str, device="D", name=None, children=None, **extra) -> Obj:
    mods = {"Def": "defs", "Set": "sets", "New": "news"}
    if clsname == "DelProperty":
        ci = p.cls(f"{MSG}.del_property.DelProperty")
    elif clsname == "Message":
        ci = p.cls(f"{MSG}.base.Message")
    elif clsname in ("PingRequest", "PingReply"):
        ci = p.cls(f"{MSG}.pings.{clsname}")
    elif clsname == "GetProperties":
        ci = p.cls(f"{MSG}.get_properties.GetProperties")
    else:
        ci = p.cls(f"{MSG}.{mods[clsname[:3]]}.{clsname}")
    a = {"device": Const(device), "name": Const(name), "timestamp": Const(None), "message": Const(None), "__closed__": Const(True)}
    if clsname.startswith(("Def", "Set")):
        a["state"] = Const(extra.pop("state", "Ok"))
    if clsname.startswith("Def"):
        a["label"] = Const(extra.pop("label", name))
        a["group"] = Const(extra.pop("group", "G"))
    if children is not None:
        a["children"] = Lst(children)
    for k, v in extra.items():
        a[k] = v if isinstance(v, (Obj, Term, Const)) else Const(v)
    return Obj(ci, a, label=f"{clsname}:{device}/{name}")


def build_mirror(it: Interp, p: Program, kind: str, layout=(("DEV", "V1"), ("DEV", "V2"), ("E", "V1")), names=("A", "B"), callbacks=None, old=None):
    """A client whose mirror was produced by the real client code from definitions: -> (client, {(dev, vec): vector Obj},
    {(dev, vec, el): element Obj}).  Objects are located through the public attributes devices/vectors/elements."""
    from .common import public_get
    cl = make_client(p, callbacks, it=it)
    pm = p.cls("indi.client.client.BaseClient").find_method("process_message")
    saved = dict(it.opts)
    o = client_opts(p)
    for k in ("inline", "instantiate", "foreign_model"):
        it.opts[k] = o[k]
    it.opts["call_may_raise"] = None
    it.opts["assert_forks"] = False
    try:
        for dev, vn in layout:
            parts = [part(p, f"Def{kind}", nm, old if old is not None else (None if kind == "BLOB" else "old"), label=f"Label{nm}") for nm in names]
            it.run_function(Fn(pm, cl), [msg(p, f"Def{kind}Vector", dev, vn, parts, label=f"Label{vn}", group=f"Group{vn}")], {})
    finally:
        it.opts.clear()
        it.opts.update(saved)
    vecs, els = {}, {}
    devs = public_get(it, cl, "devices")
    for dev, vn in layout:
        d = devs.get(Const(dev)) if isinstance(devs, Dct) else None
        vs = public_get(it, d, "vectors") if isinstance(d, Obj) else None
        v = vs.get(Const(vn)) if isinstance(vs, Dct) else None
        if not isinstance(v, Obj):
            raise Undecided(f"the client did not mirror {dev}.{vn}")
        v.label = f"cvec:{dev}.{vn}"
        vecs[(dev, vn)] = v
        es = public_get(it, v, "elements")
        for nm in names:
            e = es.get(Const(nm)) if isinstance(es, Dct) else None
            if not isinstance(e, Obj):
                raise Undecided(f"the client did not mirror {dev}.{vn}.{nm}")
            e.label = f"cel:{dev}.{vn}.{nm}"
            els[(dev, vn, nm)] = e
    del it.events[:]
    return cl, vecs, els


def client_opts(p: Program, extra=None):
    def pol(fi, node):
        m = fi.module.name
        if m.startswith("indi.client."):
            return fi.name not in ("send_message",) or fi.cls is None or fi.cls.name == "Device"
        if fi.qualname in ("indi.message.checks.children", "indi.device.values.BLOB.from_base64", "indi.device.values.BLOB.__init__", "indi.device.values.BLOB.size"):
            return True
        return False

    def inst(ci):
        return ci.module.name.startswith("indi.client.") or ci.qualname == "indi.device.values.BLOB"

    def fm(it, callee, args, kwargs):
        if isinstance(callee, Foreign):
            if callee.dotted.endswith("iscoroutinefunction"):
                return Const(False)
            if callee.dotted == "uuid.uuid4":
                n = it.__dict__.setdefault("_uuid", [0])
                n[0] += 1
                return Obj(None, label=f"<uuid{n[0]}>")
            if callee.dotted == "uuid.UUID" and not args and set(kwargs) == {"int"} and isinstance(kwargs["int"], Const):
                # an id made from a number: the same number gives the same (equal) id
                table = it.__dict__.setdefault("_uuid_by_int", {})
                return table.setdefault(kwargs["int"].v, Obj(None, label=f"<uuid:int:{kwargs['int'].v}>"))
        return None

    o = {"inline": pol, "instantiate": inst, "foreign_model": fm, "max_depth": 14, "strict_keys": True}
    if extra:
        o.update(extra)
    return o


def feed(p: Program, build_client, messages_factory, extra_opts=None):
    """Abstractly run client.process_message(m) for each message, in order, on a fresh client per path."""
    f = p.cls("indi.client.client.BaseClient").find_method("process_message")

    def run(it: Interp):
        c = build_client(it)
        it.client = c
        it.log = []
        for m in messages_factory():
            it.run_function(Fn(f, c), [m], {})
        return Const(None)

    return explore(p, run, client_opts(p, extra_opts))


def snapshot(client: Obj):
    out = {}
    devs = client.attrs["devices"]
    for dk, dv in devs.pairs:
        d = {}
        vecs = dv.attrs.get("vectors") if isinstance(dv, Obj) else None
        if isinstance(vecs, Dct):
            for vk, vv in vecs.pairs:
                if not isinstance(vv, Obj):
                    d[show(vk).strip("'")] = show(vv)
                    continue
                els = vv.attrs.get("elements")
                e = {}
                if isinstance(els, Dct):
                    for ek, ev in els.pairs:
                        e[show(ek).strip("'")] = show(ev.attrs.get(_VALF)) if isinstance(ev, Obj) else show(ev)
                d[show(vk).strip("'")] = {"cls": vv.cls.name if vv.cls else None, "state": show(vv.attrs.get("state")).strip("'"), "elements": e,
                                          "meta": (show(vv.attrs.get("name")).strip("'"), show(vv.attrs.get("label")).strip("'"), show(vv.attrs.get("group")).strip("'")),
                                          "element_meta": {show(ek).strip("'"): (show(ev.attrs.get("name")).strip("'"), show(ev.attrs.get("label")).strip("'")) for ek, ev in (els.pairs if isinstance(els, Dct) else []) if isinstance(ev, Obj)}}
        out[show(dk).strip("'")] = d
    return out


def delivered_events(pa, label=None):
    """Events handed to user callbacks on a path: list of (callback label, event Obj)."""
    out = []
    for e in pa.events:
        if e.kind == "call" and isinstance(e.data["callee"], Obj) and e.data["callee"].label.startswith("<fn:"):
            if label is None or e.data["callee"].label == f"<fn:{label}>":
                out.append((e.data["callee"].label[4:-1], e.data["args"][0] if e.data["args"] else None, e))
    return out


def event_summary(ev: Obj):
    if not isinstance(ev, Obj) or ev.cls is None:
        return ("?", show(ev))
    k = ev.cls.name

    def nm(x):
        o = ev.attrs.get(x)
        return show(o.attrs.get("name")).strip("'") if isinstance(o, Obj) and "name" in o.attrs else None

    if k == "ValueUpdate":
        return (k, nm("device"), nm("vector"), nm("element"), show(ev.attrs.get("old_value")), show(ev.attrs.get("new_value")))
    if k == "StateUpdate":
        return (k, nm("device"), nm("vector"), None, show(ev.attrs.get("old_state")), show(ev.attrs.get("new_state")))
    return (k, nm("device"), nm("vector"), nm("element"))
