"""C19 - outbound messages are whole and in order under every I/O schedule."""
from __future__ import annotations

import ast

from ..absint import Cls, Const, Fn, Foreign, Obj, Term, is_call, mentions, run_method, show
from ..model import Undecided, walk_no_nested

EXPLANATION = (
    'Per-instance lock discipline, decided on the enumerated paths of every sender. Role query on interpreted paths: the plain method of a '
    'transport class that hands a coroutine of the same class to create_task (the router-facing entry), and that coroutine, whose paths - with '
    "private helpers inlined - perform an output operation (write/drain/flush) on the connection's stream; temporaries and helper methods in "
    "between do not matter. C19.LOCK: all output operations for one message lie inside one 'async with self.<lock>' block; <lock> is assigned in "
    '__init__ from asyncio.Lock() on the instance (a class-level lock would couple connections); nothing is written outside a lock. '
    'C19.SERIALIZE: the router-facing entry computes the payload synchronously (to_string() before create_task), creates exactly one task per '
    'message with that payload, and the coroutine writes the payload with a single write call, unmodified. C19.NONBLOCK: the entry is a plain '
    'function without await or blocking I/O. C19.SIBLING: the three senders (TCP server, TTY server, TCP client) agree on all of the above.'
    ' A lock region is a with statement together with the iterations of the loops around it: a lock taken inside a chunking loop is released between the chunks of one message.'
)
NOT_DECIDED = "exploration of the scheduler's choice points (replaced by: FIFO task start + fair lock, see assumptions)."
ASSUMPTIONS = [
    "asyncio starts tasks in creation order and asyncio.Lock wakes waiters FIFO; with them LOCK+SERIALIZE give order for every completion order of the underlying awaitables",
    "a single StreamWriter.write / file write call is not split by the runtime",
]
TRUSTED = ["CPython ast", "indilint abstract interpreter"]

OUTPUT_OPS = ("write", "drain", "flush", "writelines", "sendall")


_SENDERS = {}


def senders(p):
    """(class, coroutine, entry function) for every connection class that writes to a stream: the entry is the plain
    method that schedules a coroutine of the class as a task; the coroutine (with its private helpers inlined) performs the
    output operations.  Found on interpreted paths, so temporaries and helper methods in between do not matter."""
    if id(p) in _SENDERS:
        return _SENDERS[id(p)]
    out = []
    for ci in [c for c in p.classes.values() if c.module.name.startswith("indi.transport")]:
        found = {}
        for g in list(ci.methods.values()):
            if g.is_async or g.name.startswith("__"):
                continue
            try:
                gpaths = run_method(p, g)
            except Exception:
                continue
            for pa in gpaths:
                for e in pa.calls(method="create_task"):
                    a0 = e.data["args"][0] if e.data["args"] else None
                    callee = a0.args[0] if isinstance(a0, Term) and a0.op == "call" else None
                    if isinstance(callee, Fn) and callee.fi.is_async and callee.fi.cls is not None and callee.fi.cls in ci.mro and show(callee.self_val) == "self":
                        # a private entry is part of the public method that calls it: keep the outermost caller
                        if callee.fi not in found or not g.name.startswith("_"):
                            found[callee.fi] = g
        for co, entry in found.items():
            try:
                cpaths = run_method(p, co)
            except Exception:
                continue
            has_out = any(e.kind == "call" and isinstance(e.data["term"].args[0], Term) and e.data["term"].args[0].op == "attr" and e.data["term"].args[0].args[1] in OUTPUT_OPS and "self" in show(e.data["term"].args[0].args[0]) for pa in cpaths for e in pa.events)
            if has_out:
                out.append((ci, co, entry))
    _SENDERS[id(p)] = out
    return out


def rule_lock(ctx):
    p = ctx.p
    ss = senders(p)
    ctx.floor("C19.LOCK", "sender coroutines", len(ss), 3)
    for ci, co, entry in ss:
        paths = run_method(p, co)
        ctx.paths_enumerated += len(paths)
        bad = False
        lock_names = set()
        for pa in paths:
            outs = [e for e in pa.events if e.kind == "call" and isinstance(e.data["term"].args[0], Term) and e.data["term"].args[0].op == "attr" and e.data["term"].args[0].args[1] in OUTPUT_OPS and show(e.data["term"].args[0].args[0]).startswith("self.")]
            if not outs:
                continue
            frames = []
            for e in outs:
                w = [c for c in e.ctx if c[0] == "with"]
                if any(c[0] == "wait_for" for c in e.ctx):
                    ctx.violated("C19.LOCK", co.short, f"{show(e.data['term'])[:50]} runs under asyncio.wait_for/shield: when the wait is abandoned (timeout) the lock is released while the write is still in flight (writes through a thread pool are not cancelled), so the next message overtakes or cuts into it", fi=co, node=e.node, text=f"abandonable:{e.data['term'].args[0].args[1]}")
                    bad = True
                if not w:
                    ctx.violated("C19.LOCK", co.short, f"{show(e.data['term'])[:50]} is performed outside any per-connection lock: two send tasks of one connection can interleave or reorder their output", fi=co, node=e.node, text=f"unlocked:{e.data['term'].args[0].args[1]}")
                    bad = True
                else:
                    # the dynamic instance of the region: the with statement plus the iterations of the loops around it
                    # (a lock taken inside a loop is taken - and released - once per iteration)
                    k = max(i_ for i_, c in enumerate(e.ctx) if c[0] == "with")
                    frames.append((w[-1][0], w[-1][1], (id(w[-1][2]),) + tuple((c[1], c[2]) for c in e.ctx[:k] if c[0] == "loop")))
                    lock_names.update(w[-1][1])
            # the operations of one message complete in program order only if each is awaited before the next is started:
            # handing their awaitables to gather / wait / create_task starts them together (a flush may finish before the
            # write it was meant to push out)
            out_terms = [e.data["term"] for e in outs]
            for e in pa.events:
                if e.kind == "call" and isinstance(e.data.get("callee"), Foreign) and e.data["callee"].dotted.split(".")[-1] in ("gather", "wait", "create_task", "ensure_future", "as_completed", "TaskGroup"):
                    handed = [t for t in out_terms if any(a is t or mentions(a, lambda x, t=t: x is t) for a in list(e.data.get("args") or []) + list((e.data.get("kwargs") or {}).values()))]
                    if handed and len(out_terms) > 1:
                        ctx.violated("C19.LOCK", co.short, f"{[show(t)[:40] for t in handed]} are started together through asyncio.{e.data['callee'].dotted.split('.')[-1]} instead of being awaited one after the other: the operations of one message ({[show(t)[:30] for t in out_terms]}) can complete out of order (a flush before the write it belongs to leaves the message in the buffer)", fi=co, node=e.node, text=f"concurrent-ops:{e.data['callee'].dotted.split('.')[-1]}")
                        bad = True
            if frames and len({f[2] for f in frames}) != 1:
                ctx.violated("C19.LOCK", co.short, "the output operations of one message are spread over several lock regions: another message can get in between", fi=co, text="split-lock")
                bad = True
            enters = [e for e in pa.events if e.kind == "with-enter"]
            for e in enters:
                if not e.data["is_async"]:
                    ctx.violated("C19.LOCK", co.short, "the lock is taken with a synchronous 'with' inside a coroutine", fi=co, node=e.node, text="sync-with")
                    bad = True
        # lock provenance
        init = ci.methods.get("__init__")
        for ln in sorted(lock_names):
            attr = ln.split(".")[-1]
            if not ln.startswith("self."):
                ctx.violated("C19.LOCK", co.short, f"the lock {ln} is not an attribute of the connection", fi=co, text=f"lock-not-self:{ln}")
                bad = True
                continue
            if attr in ci.class_attrs or any(attr in c.class_attrs for c in ci.mro):
                ctx.violated("C19.LOCK", ci.short, f"{attr} is a class-level lock: it is shared by all connections, so a stalled connection delays the others", ci=ci, text=f"class-lock:{attr}")
                bad = True
                continue
            okp = False
            if init is not None:
                for pa in run_method(p, init):
                    for e in pa.events:
                        if e.kind == "store" and e.data.get("attr") == attr and show(e.data["base"]) == "self":
                            v = e.data["value"]
                            if isinstance(v, Term) and v.op == "call" and isinstance(v.args[0], Foreign) and v.args[0].dotted == "asyncio.Lock":
                                okp = True
            if not okp:
                ctx.violated("C19.LOCK", ci.short, f"{attr} is not created as asyncio.Lock() in the connection's constructor", ci=ci, text=f"lock-provenance:{attr}")
                bad = True
        if not bad:
            ctx.holds("C19.LOCK", co.short, f"all output operations inside one 'async with {sorted(lock_names)}' region; per-instance asyncio.Lock()", fi=co)


def rule_serialize(ctx):
    p = ctx.p
    for ci, co, entry in senders(p):
        if entry is None:
            ctx.violated("C19.SERIALIZE", co.short, "no plain function schedules this sender with create_task", fi=co, text="no-entry")
            continue
        paths = run_method(p, entry)
        ctx.paths_enumerated += len(paths)
        bad = False
        for pa in paths:
            ts = [e for e in pa.events if e.kind == "call" and is_call(e.data["term"], method="to_string")]
            tasks = pa.calls(method="create_task")
            if pa.outcome == "return" and not tasks and any(isinstance(e.data["callee"], Fn) and e.data["callee"].fi.name == "close" and show(e.data["callee"].self_val) == "self" for e in pa.calls(method="close")):
                continue  # the connection is torn down instead of being written to: nothing to order
            if pa.outcome != "return" or len(tasks) != 1 or len(ts) != 1:
                ctx.violated("C19.SERIALIZE", entry.short, f"{len(ts)} serialisations / {len(tasks)} tasks per routed message (expected 1/1)", fi=entry, text=f"counts:{len(ts)}:{len(tasks)}")
                bad = True
                continue
            if ts[0].idx > tasks[0].idx:
                ctx.violated("C19.SERIALIZE", entry.short, "the message is serialised after the task is created (inside the coroutine it would see later state)", fi=entry, text="late-serialise")
                bad = True
            coro = tasks[0].data["args"][0] if tasks[0].data["args"] else None
            payload = coro.args[1][0] if isinstance(coro, Term) and coro.op == "call" and coro.args[1] else None
            if not (isinstance(coro, Term) and is_call(coro, method=co.name)) or payload is None or not mentions(payload, lambda t: t is ts[0].data["term"]):
                ctx.violated("C19.SERIALIZE", entry.short, f"the task does not carry the bytes serialised at routing time: {show(coro)[:60] if coro is not None else None}", fi=entry, text="payload")
                bad = True
            if show(ts[0].data["term"].args[0]).split(".")[0] not in ("message", "msg"):
                ctx.violated("C19.SERIALIZE", entry.short, "what is serialised is not the routed message", fi=entry, text="wrong-message")
                bad = True
        # the coroutine writes (only) its parameter; chunked writes inside the lock region are still whole and ordered
        cpaths = run_method(p, co)
        pname = co.params()[1] if len(co.params()) > 1 else None
        for pa in cpaths:
            if any(e.kind == "loop-enter" and e.data["symbolic"] and e.data["n"] == 0 for e in pa.events):
                continue
            ws = [e for e in pa.events if e.kind == "call" and isinstance(e.data["term"].args[0], Term) and e.data["term"].args[0].op == "attr" and e.data["term"].args[0].args[1] in ("write", "writelines", "sendall")]
            if not ws:
                ctx.violated("C19.SERIALIZE", co.short, "the sender coroutine has a path that writes nothing", fi=co, text="write:0")
                bad = True
            for w in ws:
                a = w.data["args"][0] if w.data["args"] else None
                if a is None or not mentions(a, lambda t: isinstance(t, Term) and t.op == "param" and t.args[0] == pname):
                    ctx.violated("C19.SERIALIZE", co.short, f"something other than the payload handed over at routing time is written: {show(a)[:50] if a is not None else None}", fi=co, text="write-arg")
                    bad = True
                elif mentions(a, lambda t: isinstance(t, Term) and t.op == "call" and is_call(t, method="to_string")):
                    ctx.violated("C19.SERIALIZE", co.short, "the message is serialised inside the coroutine (after routing), so it may reflect later state", fi=co, text="late-serialise-in-coroutine")
                    bad = True
        if not bad:
            ctx.holds("C19.SERIALIZE", entry.short, "to_string() at routing time -> one task carrying those bytes -> written inside the lock region", fi=entry)


def rule_nonblock(ctx):
    p = ctx.p
    for ci, co, entry in senders(p):
        if entry is None:
            continue
        bad = []
        if entry.is_async:
            bad.append("is a coroutine")
        for n in walk_no_nested(entry.node):
            if isinstance(n, ast.Await):
                bad.append("awaits")
            if isinstance(n, ast.Call) and isinstance(n.func, ast.Attribute) and n.func.attr in ("write", "drain", "flush", "sleep", "run_until_complete", "result", "acquire"):
                bad.append(f"calls {n.func.attr}()")
            if isinstance(n, (ast.With, ast.AsyncWith)):
                bad.append("takes a lock")
        ctx.check(not bad, "C19.NONBLOCK", entry.short, "plain function without await, lock or blocking I/O", f"the router-facing entry {', '.join(bad)}: a slow connection delays the router and every other connection", fi=entry, text=f"blocking:{bad[:1]}")


def rule_sibling(ctx):
    p = ctx.p
    ss = senders(p)
    shapes = {}
    for ci, co, entry in ss:
        ops = []
        for pa in run_method(p, co):
            for e in pa.events:
                if e.kind == "call" and isinstance(e.data["term"].args[0], Term) and e.data["term"].args[0].op == "attr" and e.data["term"].args[0].args[1] in OUTPUT_OPS:
                    ops.append(("locked" if any(c[0] == "with" for c in e.ctx) else "unlocked"))
        shapes[co.short] = (entry is not None and not entry.is_async, tuple(sorted(set(ops))))
    vals = set(shapes.values())
    ctx.check(len(vals) == 1 and len(ss) >= 3, "C19.SIBLING", "senders", f"{len(ss)} senders share the shape {list(vals)[0] if len(vals) == 1 else vals}", f"the senders disagree: {shapes}", text=f"siblings:{sorted(vals)}")


EXPLANATION = EXPLANATION + ' C19.LOCK also requires the output operations of one message to be awaited one after the other: handing their awaitables together to gather / wait / create_task lets a flush complete before its write.'

RULES = [
    ("C19.LOCK", rule_lock, "all output operations of a message inside one async-with on a per-instance asyncio.Lock"),
    ("C19.SERIALIZE", rule_serialize, "serialise at routing time, one task per message carrying those bytes, one write"),
    ("C19.NONBLOCK", rule_nonblock, "router-facing entries do not await, lock or block"),
    ("C19.SIBLING", rule_sibling, "the three senders agree"),
]
