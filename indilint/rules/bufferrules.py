"""Path rules over the framing buffer (shared by C02, C08, C11)."""
from __future__ import annotations

from typing import List, Optional

from ..absint import Builtin, Cls, Const, Fn, Foreign, Interp, Obj, Term, Tup, explore, is_call, mentions, run_method, show, subterms
from ..model import Undecided
from .common import path_text

BUF = "indi.transport.buffer.Buffer"
LATIN1 = {"latin1", "latin-1", "latin_1", "iso-8859-1", "iso8859-1", "l1", "iso_8859_1", "8859", "cp819"}


def buf_cls(p):
    return p.cls(BUF)


def _is_data_read(t) -> bool:
    """term is (a read of) the buffer text: self.data / self.buffer.getvalue()"""
    s = show(t)
    return s in ("self.data", "self.buffer.getvalue()")


def lower_bound(it: Interp, t) -> Optional[int]:
    if isinstance(t, Const):
        if t.v is None:
            return 0
        if isinstance(t.v, int) and not isinstance(t.v, bool):
            return t.v
        return None
    if isinstance(t, Term):
        lo, hi = it.bounds_of(t)
        if lo is not None:
            return lo
        if t.op == "binop" and t.args[0] == "+":
            a, b = lower_bound(it, t.args[1]), lower_bound(it, t.args[2])
            if a is not None and b is not None:
                return a + b
        if t.op == "call" and isinstance(t.args[0], Builtin) and t.args[0].name == "min":
            lbs = [lower_bound(it, x) for x in t.args[1]]
            if all(x is not None for x in lbs):
                return min(lbs)
        if t.op == "call" and isinstance(t.args[0], Builtin) and t.args[0].name == "max":
            lbs = [lower_bound(it, x) for x in t.args[1]]
            known = [x for x in lbs if x is not None]
            if known:
                return max(known)
    return None


def classify_store(it: Interp, v):
    """-> (kind, amount): ('suffix', k) data[k:] with k >= amount ; ('empty', None) ; ('same', 0) ; ('unknown', None)"""
    if isinstance(v, Const) and v.v == "":
        return "empty", None
    if isinstance(v, Term) and v.op == "sub" and isinstance(v.args[1], Term) and v.args[1].op == "slice" and _is_data_read(v.args[0]):
        lo, hi, st = v.args[1].args
        if hi is not None and not (isinstance(hi, Const) and hi.v is None):
            return "unknown", None
        if st is not None and not (isinstance(st, Const) and st.v in (None, 1)):
            return "unknown", None
        if lo is None:
            return "same", 0
        lb = lower_bound(it, lo)
        if lb is None or lb < 0:
            return "unknown", None
        return "suffix", lb
    if _is_data_read(v):
        return "same", 0
    return "unknown", None


def data_stores(pa):
    return [e for e in pa.events if e.kind == "store" and e.data.get("attr") == "data" and show(e.data["base"]) == "self"]


_ROLES = {}


class RolesUnknown(Undecided):
    """The buffer is not organised into the helper roles the symbolic rules extend over (scan / resynchroniser / drop):
    those rules then fall back to the end-to-end catalogue (process_e2e)."""


def roles(p):
    """The buffer's private helpers, identified by what they do rather than by name (helpers they call count as theirs):
       FIND   - the method that (directly or through private helpers) hands a prefix to IndiMessage.from_string,
       RESYNC - the innermost method that consults the known start tags and truncates the buffer,
       DROP1  - a method other than process whose own body truncates and then calls RESYNC (may not exist: None).
    """
    import ast as _ast
    key = id(p)
    if key in _ROLES:
        return _ROLES[key]
    B = buf_cls(p)
    pub = {"process", "append", "__init__"}
    cand = [fi for n, fi in B.methods.items() if n not in pub]
    byname = {fi.name: fi for fi in cand}

    def own_calls(fi):
        return {n.func.attr for n in _ast.walk(fi.node) if isinstance(n, _ast.Call) and isinstance(n.func, _ast.Attribute) and isinstance(n.func.value, _ast.Name) and n.func.value.id == "self" and n.func.attr in byname}

    def closure(fi, seen=None):
        seen = seen if seen is not None else set()
        for c in own_calls(fi):
            if c not in seen:
                seen.add(c)
                closure(byname[c], seen)
        return seen

    def calls_attr(fi, attr):
        return any(isinstance(n, _ast.Call) and isinstance(n.func, _ast.Attribute) and n.func.attr == attr for n in _ast.walk(fi.node))

    def mentions_self(fi, attr):
        return any(isinstance(n, _ast.Attribute) and n.attr == attr and isinstance(n.value, _ast.Name) and n.value.id == "self" for n in _ast.walk(fi.node))

    def stores_data(fi):
        return any(isinstance(n, _ast.Attribute) and n.attr == "data" and isinstance(n.ctx, _ast.Store) and isinstance(n.value, _ast.Name) and n.value.id == "self" for n in _ast.walk(fi.node))

    mod_private = {ci.name: ci for ci in p.classes.values() if ci.module is B.module and ci is not B and ci.name.startswith("_")}

    def private_methods(fi, seen=None):
        """Methods of the module's private classes that a buffer method mentions (collaborators its work is delegated to)."""
        seen = seen if seen is not None else {}
        for n in _ast.walk(fi.node):
            if isinstance(n, _ast.Name) and n.id in mod_private and n.id not in seen:
                ci = mod_private[n.id]
                seen[n.id] = ci
                for sub in [ci] + [s for s in mod_private.values() if ci in s.mro[1:]]:
                    seen[sub.name] = sub
                    for m in sub.methods.values():
                        private_methods(m, seen)
        return seen

    def trans(fi, pred):
        if pred(fi) or any(pred(byname[c]) for c in closure(fi)):
            return True
        for g in [fi] + [byname[c] for c in closure(fi)]:
            for ci in private_methods(g).values():
                if any(pred(m) for m in ci.methods.values()):
                    return True
        return False

    find = [fi for fi in cand if trans(fi, lambda f_: calls_attr(f_, "from_string") or calls_attr(f_, "from_xml"))]
    find = [fi for fi in find if not any(byname[c] in find for c in closure(fi))] or find
    tagged = [fi for fi in cand if stores_data(fi) and trans(fi, lambda f_: mentions_self(f_, "allowed_tags"))]
    if not tagged:
        # the tag list may have been digested by the constructor (a compiled pattern, a set of openers): the
        # resynchroniser is then the innermost helper that truncates the buffer without being the scan
        tagged = [fi for fi in cand if stores_data(fi) and fi not in find]
    # innermost: does not call another candidate of the same kind
    resync = [fi for fi in tagged if not any(byname[c] in tagged for c in closure(fi))]
    if len(find) != 1 or len(resync) != 1:
        raise RolesUnknown(f"buffer helper roles not identified (from_string callers: {[f.name for f in find]}, resynchronisers: {[f.name for f in resync]})")
    drop = [fi for fi in cand if fi is not resync[0] and fi is not find[0] and resync[0].name in own_calls(fi) and stores_data(fi)]
    r = {"FIND": find[0].name, "RESYNC": resync[0].name, "DROP1": drop[0].name if len(drop) == 1 else None}
    _ROLES[key] = r
    parser_aliases(p)
    return r


def explore_process(ctx, inline=("FIND", "DROP1"), may_raise=False, max_while=2, explicit_only=False):
    p = ctx.p
    B = buf_cls(p)
    f = B.find_method("process")
    if f is None:
        raise Undecided("Buffer.process not found")

    R = roles(p)
    inline = tuple(R.get(n, n) for n in inline)

    def pol(fi, node):
        return fi.cls is B and fi.name in inline
    # private helpers are inlined by the engine; the resynchroniser (and, where a rule asks for it, other helpers it does
    # not list) stay observable as calls: their contract is decided separately (check_discard)
    keep = {R["RESYNC"]} | ({R[k] for k in ("FIND", "DROP1") if R.get(k) and R[k] not in inline} if explicit_only else set())

    def raiser(ev):
        callee = ev.data.get("callee")
        if isinstance(callee, Foreign) and callee.dotted.endswith(".fromstring"):
            return "ParseError"
        if isinstance(callee, Fn) and callee.fi.name in ("from_string", "from_xml") and callee.fi.module.name.startswith("indi.message"):
            return "Exception"
        if isinstance(callee, Term) and callee.op == "attr" and callee.args[1] in ("from_string", "from_xml"):
            recv = callee.args[0]
            if isinstance(recv, Term) and recv.op == "attr" and recv.args[1] in _PARSER_ALIASES and show(recv.args[0]) == "self":
                return "Exception"
        return None

    opts = {"inline": pol, "max_while": max_while, "keep_calls": keep}
    if may_raise:
        opts["call_may_raise"] = raiser
    paths = run_method(p, f, opts=opts, max_paths=20000)
    ctx.paths_enumerated += len(paths)
    return f, paths


def outer_loop_id(pa, f):
    """Loop id of the first while loop that belongs to process itself."""
    for e in pa.events:
        if e.kind in ("loop-iter", "loop-exit", "loop-bound", "loop-back") and e.fn is f:
            return e.data["loop"]
    return None


def iteration_segments(pa, f):
    """Yield (iteration index, events, how) for the outer loop of process: how in 'back' | 'break' | 'cond' | 'return' | 'raise' | 'open'."""
    lid = outer_loop_id(pa, f)
    if lid is None:
        return
    cur = None
    evs: List = []
    for e in pa.events:
        if e.fn is f and e.data.get("loop") == lid:
            if e.kind == "loop-iter":
                cur = e.data["it"]
                evs = []
                continue
            if e.kind == "loop-back" and cur is not None:
                yield cur, evs, "back"
                cur = None
                continue
            if e.kind == "loop-exit":
                if cur is not None:
                    yield cur, evs, e.data["how"]
                cur = None
                continue
            if e.kind == "loop-bound":
                cur = None
                continue
        if cur is not None:
            evs.append(e)
    if cur is not None:
        yield cur, evs, {"return": "return", "raise": "raise"}.get(pa.outcome, "open")


def callback_calls(evs):
    return [e for e in evs if e.kind == "call" and isinstance(e.data["callee"], Term) and e.data["callee"].op == "param" and e.data["callee"].args[0] == "callback"]


def grow_events(evs):
    out = []
    for e in evs:
        if e.kind == "call" and (is_call(e.data["term"], method="append") or is_call(e.data["term"], method="write")):
            recv = show(e.data["term"].args[0])
            if recv.startswith("self.") or recv.startswith("self.buffer"):
                out.append(e)
    return out


def over_threshold(a_) -> bool:
    """Does this assumption establish 'length > threshold' (in any spelling: l > t true, l <= t false, t < l true, t >= l false)?"""
    c = a_.data["cond"]
    if not (isinstance(c, Term) and c.op == "cmp" and len(c.args) >= 3):
        return False
    TH = "max_buffer_size_before_frontal_cleanup"
    op, l, r = c.args[0], show(c.args[1]), show(c.args[2])
    truth = a_.data["truth"]
    if TH in r and TH not in l:
        return (op in (">", ">=") and truth) or (op in ("<=", "<") and not truth)
    if TH in l and TH not in r:
        return (op in ("<", "<=") and truth) or (op in (">=", ">") and not truth)
    return False


def threshold_none_path(pa) -> Optional[bool]:
    """True: the path assumed the threshold disabled (None); False: enabled; None: not tested."""
    for e in pa.assumes():
        s = show(e.data["cond"])
        if "max_buffer_size_before_frontal_cleanup" in s and "is not None" in s:
            return not e.data["truth"]
        if "max_buffer_size_before_frontal_cleanup" in s and "is None" in s:
            return e.data["truth"]
    return None


def check_progress(ctx, rule, only_threshold_none=False):
    """Every iteration that loops back shrank the buffer by >= 1 and did not grow it."""
    f, paths = explore_process(ctx)
    bad = False
    nseg = 0
    for pa in paths:
        if only_threshold_none and threshold_none_path(pa) is not True:
            continue
        for it_idx, evs, how in iteration_segments(pa, f):
            if how != "back":
                continue
            nseg += 1
            shr = 0
            unknown = None
            for e in evs:
                if e.kind == "store" and e.data.get("attr") == "data" and show(e.data["base"]) == "self":
                    k, amt = classify_store(pa.interp, e.data["value"])
                    if k == "suffix":
                        shr += amt
                    elif k == "unknown":
                        unknown = e
            g = grow_events(evs)
            cbs = callback_calls(evs)
            if g:
                ctx.violated(rule, f.short, "the buffer is appended to inside the processing loop", fi=f, node=g[0].node, text="grow-in-loop")
                bad = True
            if unknown is not None:
                ctx.undecided(rule, f.short, f"buffer assignment of unrecognised shape: {show(unknown.data['value'])[:80]}", fi=f)
                bad = True
            elif shr < 1:
                tn = threshold_none_path(pa)
                what = "an iteration of the processing loop returns to the loop head without consuming a single character"
                if tn is True:
                    what += " (path with the junk-recovery threshold disabled)"
                if cbs:
                    what += f"; the consumer is called with {show(cbs[0].data['args'][0]) if cbs[0].data['args'] else '?'}"
                ctx.violated(rule, f.short, what + ": process() never terminates on that input", fi=f, text=f"no-progress:{'threshold-None' if tn else 'threshold'}", witness=path_text_short(evs))
                bad = True
    ctx.counters[f"{rule}:loop-back segments"] = nseg
    if nseg == 0:
        ctx.undecided(rule, f.short, "no iteration that loops back was explored", fi=f)
    elif not bad:
        ctx.holds(rule, f.short, f"{nseg} loop-back segments over {len(paths)} paths: each consumes >= 1 character and appends nothing", fi=f)
    return f, paths


def path_text_short(evs, limit=10):
    return [repr(e)[:110] for e in evs if e.kind in ("store", "call", "assume")][:limit]


def check_find_progress(ctx, rule):
    """Inner loop of _find_message_in_buffer: the scan position strictly increases per iteration."""
    p = ctx.p
    B = buf_cls(p)
    f = B.find_method(roles(p)["FIND"])
    if f is None:
        raise Undecided("the buffer's find helper was not found")
    def raiser(ev):
        callee = ev.data.get("callee")
        if isinstance(callee, Foreign) and callee.dotted.endswith(".fromstring"):
            return "ParseError"
        if isinstance(callee, Fn) and callee.fi.name in ("from_string", "from_xml"):
            return "Exception"
        return None

    paths = run_method(p, f, opts={"max_while": 2, "call_may_raise": raiser})
    ctx.paths_enumerated += len(paths)
    bad = False
    nsteps = 0
    if any(pa.outcome == "raise" for pa in paths):
        ctx.violated(rule, f.short, "a parser exception escapes the scan loop", fi=f, text="scan-raises")
        bad = True
    for pa in paths:
        tests = [e for e in pa.assumes() if isinstance(e.data["cond"], Term) and e.data["cond"].op == "cmp" and e.node is not None and any(c[0] == "loop" for c in e.ctx) and e.data["cond"].args[0] in ("<", "<=") and "len(" in show(e.data["cond"].args[2])]
        seq = [e.data["cond"].args[1] for e in tests]
        for a, b in zip(seq, seq[1:]):
            nsteps += 1
            ok = False
            if isinstance(b, Term) and b.op == "binop" and b.args[0] == "+":
                base, inc = b.args[1], b.args[2]
                if isinstance(inc, Const) and isinstance(inc.v, int) and inc.v >= 1 and isinstance(base, Term) and is_call(base, method="find"):
                    args = base.args[1]
                    start_ok = len(args) >= 2 and (args[1] is a or (isinstance(a, Const) and isinstance(args[1], Const) and a.v == args[1].v))
                    lo, hi = pa.interp.bounds_of(base)
                    blo, _ = pa.interp.bounds_of(b)
                    # found: find(...) >= 0, or equivalently the new position find(...) + 1 is known to be >= 1
                    if start_ok and ((lo is not None and lo >= 0) or (blo is not None and blo >= 1)):
                        ok = True
            if not ok:
                ctx.violated(rule, f.short, f"the scan position does not provably advance between two iterations: {show(a)[:40]} -> {show(b)[:60]}", fi=f, text="scan-no-advance")
                bad = True
    if nsteps == 0:
        ctx.undecided(rule, f.short, "no two consecutive scan iterations explored", fi=f)
    elif not bad:
        ctx.holds(rule, f.short, f"{nsteps} iteration steps: position = find('>', previous position) + 1 with the not-found case returned before", fi=f)


_PARSER_ALIASES = set()  # attributes of a Buffer that its constructor binds to the message base class (an injected collaborator)


def parser_aliases(p):
    """Attributes through which a buffer reaches the message parser: found on a buffer built by the real constructor
    (any attribute whose value is a message class)."""
    key = ("aliases", id(p))
    if key in _ROLES:
        return _ROLES[key]
    found = set()

    def run(it: Interp):
        o = constructed_buffer(it, p, "")
        for k, v in o.attrs.items():
            if isinstance(v, Cls) and v.ci.module.name.startswith("indi.message"):
                found.add(k)
        return Const(None)

    try:
        explore(p, run, {"inline": lambda fi, node: False})
    except Undecided:
        pass
    _ROLES[key] = found
    _PARSER_ALIASES.clear()
    _PARSER_ALIASES.update(found)
    return found


def parsed_prefix(t):
    """The text a message term was parsed from: IndiMessage.from_string(<text>) or IndiMessage.from_xml(ET.fromstring(<text>))
    (also through an attribute of the buffer that its constructor binds to the message class)."""
    if isinstance(t, Term) and t.op == "call" and isinstance(t.args[0], Term) and t.args[0].op == "attr" and t.args[0].args[1] in ("from_string", "from_xml") and t.args[1]:
        recv = t.args[0].args[0]
        if isinstance(recv, Term) and recv.op == "attr" and recv.args[1] in _PARSER_ALIASES and show(recv.args[0]) == "self":
            nm_ = t.args[0].args[1]
            if nm_ == "from_string":
                return t.args[1][0]
            x = t.args[1][0]
            if isinstance(x, Term) and x.op == "call" and isinstance(x.args[0], Foreign) and x.args[0].dotted.endswith("fromstring") and x.args[1]:
                return x.args[1][0]
            return None
    if not (isinstance(t, Term) and t.op == "call" and isinstance(t.args[0], Fn) and t.args[0].fi.module.name.startswith("indi.message") and t.args[1]):
        return None
    nm = t.args[0].fi.name
    if nm == "from_string":
        return t.args[1][0]
    if nm == "from_xml":
        x = t.args[1][0]
        if isinstance(x, Term) and x.op == "call" and isinstance(x.args[0], Foreign) and x.args[0].dotted.endswith("fromstring") and x.args[1]:
            return x.args[1][0]
        if isinstance(x, Obj) and x.label == "<Element>" and "__text__" in x.attrs:
            return x.attrs["__text__"]  # an element the constant-text XML model produced (check_find)
    return None


def message_parse_calls(evs):
    """[(call event, text it parses)] for the message-parser calls among the events."""
    out = []
    for e in evs:
        if e.kind == "call":
            pfx = parsed_prefix(e.data["term"])
            if pfx is not None:
                out.append((e, pfx))
    return out


def prefix_end(pfx):
    """END of a prefix data[:END], else None."""
    if isinstance(pfx, Term) and pfx.op == "sub" and isinstance(pfx.args[1], Term) and pfx.args[1].op == "slice" and pfx.args[1].args[0] is None and _is_data_read(pfx.args[0]):
        return pfx.args[1].args[1]
    return None


def check_guard(ctx, rule):
    """The consumer is called only with a message parsed by IndiMessage.from_string."""
    f, paths = explore_process(ctx)
    bad = False
    n = 0
    for pa in paths:
        for e in callback_calls(pa.events):
            n += 1
            a = e.data["args"][0] if e.data["args"] else None
            ok = parsed_prefix(a) is not None
            if not ok:
                ctx.violated(rule, f.short, f"the consumer is called with {show(a) if a is not None else None}, which is not a parsed protocol message", fi=f, node=e.node, text=f"callback-arg:{show(a)[:30] if a is not None else None}")
                bad = True
            if len(e.data["args"]) != 1 or e.data["kwargs"]:
                ctx.violated(rule, f.short, "the consumer is not called with exactly the message", fi=f, node=e.node, text="callback-arity")
                bad = True
    if n == 0:
        ctx.violated(rule, f.short, "the consumer is never called", fi=f, text="no-callback")
    elif not bad:
        ctx.holds(rule, f.short, f"{n} consumer calls over {len(paths)} paths, each with a message the parser built from buffer text", fi=f)


def check_contain(ctx, rule):
    """Parser exceptions do not escape process (the consumer's own exceptions are the consumer's)."""
    f, paths = explore_process(ctx, may_raise=True, max_while=1)
    bad = False
    nr = 0
    for pa in paths:
        implicit = [e for e in pa.events if e.kind == "raise" and e.data.get("implicit")]
        nr += len(implicit)
        if pa.outcome == "raise" and implicit:
            ctx.violated(rule, f.short, f"an exception {show(implicit[-1].data['value'])[:70]} escapes Buffer.process", fi=f, node=implicit[-1].node, text=f"escape:{show(implicit[-1].data['value'])[:40]}")
            bad = True
    if nr == 0:
        ctx.undecided(rule, f.short, "no parser call found on the paths of process", fi=f)
    elif not bad:
        ctx.holds(rule, f.short, f"{nr} raising parser calls explored, all handled inside the framing code", fi=f)


def check_bound(ctx, rule):
    """With the threshold enabled every exit of the loop leaves <= threshold characters."""
    f, paths = explore_process(ctx)
    bad = False
    n = 0
    for pa in paths:
        tn = threshold_none_path(pa)
        for it_idx, evs, how in iteration_segments(pa, f):
            if how != "break":
                continue
            if tn is True:
                continue
            n += 1
            # after the last buffer store of the segment there must be a failed 'data_len > threshold' test
            last_store = max([e.idx for e in evs if e.kind == "store" and e.data.get("attr") == "data"] + [-1])
            okb = False
            TH = "self.max_buffer_size_before_frontal_cleanup"
            LEN = ("self.data_len", "len(self.data)", "self.buffer.tell()")
            for e in evs:
                if e.kind == "assume" and e.idx > last_store:
                    c = e.data["cond"]
                    if isinstance(c, Term) and c.op == "cmp":
                        l, r = show(c.args[1]), show(c.args[2])
                        op = c.args[0]
                        if l in LEN and r == TH:      # len OP threshold
                            if (op in (">", ">=") and not e.data["truth"]) or (op in ("<=", "<") and e.data["truth"] and op == "<=") or (op == "<" and e.data["truth"]):
                                okb = True
                        if r in LEN and l == TH:      # threshold OP len
                            if (op in ("<", "<=") and not e.data["truth"]) or (op in (">=", ">") and e.data["truth"]):
                                okb = True
            # leaving the loop because the buffer is empty retains nothing
            tail = [e for e in evs if e.kind == "assume" and e.idx > last_store]
            if tail and show(tail[-1].data["cond"]) in LEN and not tail[-1].data["truth"]:
                okb = True
            if tn is None and not okb:
                # threshold not even consulted on this break path
                pass
            if not okb:
                ctx.violated(rule, f.short, "the loop is left with the threshold enabled without having established buffer length <= threshold: a peer can pin more memory than the threshold", fi=f, text="break-unbounded", witness=path_text_short(evs))
                bad = True
    if n == 0:
        ctx.undecided(rule, f.short, "no break path with the threshold enabled explored", fi=f)
    elif not bad:
        ctx.holds(rule, f.short, f"{n} break segments with the threshold enabled, each after 'length > threshold' was found false", fi=f)


def check_consume(ctx, rule):
    """Exact-prefix consumption, once, before the callback."""
    f, paths = explore_process(ctx)
    bad = False
    n = 0
    for pa in paths:
        for it_idx, evs, how in iteration_segments(pa, f):
            cbs = callback_calls(evs)
            if len(cbs) > 1:
                ctx.violated(rule, f.short, f"{len(cbs)} consumer calls in one iteration", fi=f, text="callback-twice")
                bad = True
            if not cbs:
                continue
            n += 1
            cb = cbs[0]
            msg = cb.data["args"][0] if cb.data["args"] else None
            if not (isinstance(msg, Term) and msg.op == "call" and msg.args[1]):
                ctx.violated(rule, f.short, f"the consumer is reached with {show(msg) if msg is not None else None}: no parsed prefix was consumed on this path (something other than a sent message is delivered)", fi=f, text=f"no-prefix:{show(msg)[:20] if msg is not None else None}")
                bad = True
                continue
            src = parsed_prefix(msg)
            end = prefix_end(src) if src is not None else None
            if end is None:
                ctx.violated(rule, f.short, f"the delivered message is not parsed from a prefix of the buffer: {show(src if src is not None else msg)[:60]}", fi=f, text="not-prefix")
                bad = True
                continue
            stores = [e for e in evs if e.kind == "store" and e.data.get("attr") == "data" and show(e.data["base"]) == "self"]
            consume = [e for e in stores if isinstance(e.data["value"], Term) and e.data["value"].op == "sub" and isinstance(e.data["value"].args[1], Term) and e.data["value"].args[1].op == "slice" and e.data["value"].args[1].args[0] is end]
            if len(consume) != 1 or len(stores) != 1:
                ctx.violated(rule, f.short, f"the buffer is not truncated by exactly the length of the parsed prefix ({[show(e.data['value'])[:50] for e in stores]} vs prefix end {show(end)[:40]}): characters are lost or delivered twice", fi=f, text="consume-mismatch")
                bad = True
                continue
            if consume[0].idx > cb.idx:
                ctx.violated(rule, f.short, "the message is handed to the consumer before it is removed from the buffer: a raising consumer causes re-delivery", fi=f, text="consume-after-callback")
                bad = True
            # nothing modifies the buffer between the scan and the truncation
            findcall = [e for e in evs if e.kind == "call" and is_call(e.data["term"], method=roles(ctx.p)["FIND"])]
            if findcall:
                between = [e for e in evs if findcall[0].idx < e.idx < consume[0].idx and ((e.kind == "store" and e.data.get("attr") in ("data", "buffer") and show(e.data["base"]) == "self") or (e.kind == "call" and not e.data.get("inlined") and any(is_call(e.data["term"], method=m) for m in (roles(ctx.p)["RESYNC"], "append", "write"))))]
                if between:
                    ctx.violated(rule, f.short, "the buffer is modified between locating the message and removing it", fi=f, text="modified-between")
                    bad = True
    if n == 0:
        ctx.undecided(rule, f.short, "no delivering iteration explored", fi=f)
    elif not bad:
        ctx.holds(rule, f.short, f"{n} delivering iterations: parsed prefix data[:end], truncation data[end:] with the same end, once, before the consumer", fi=f)


def _find_leaves(t, out):
    """Leaves of a min()/conditional combination."""
    if isinstance(t, Term) and t.op == "call" and isinstance(t.args[0], Builtin) and t.args[0].name == "min":
        for x in t.args[1]:
            _find_leaves(x, out)
    elif isinstance(t, Term) and t.op == "ifexp":
        _find_leaves(t.args[1], out)
        _find_leaves(t.args[2], out)
    else:
        out.append(t)


def stringio_model(it, callee, args, kw):
    """io.StringIO as used by the buffer (constructor, write, getvalue, tell) on constant text."""
    if isinstance(callee, Foreign) and callee.dotted.split(".")[-1] == "StringIO":
        return Obj(None, {"text": Const(args[0].v if args and isinstance(args[0], Const) and isinstance(args[0].v, str) else "")}, label="<StringIO>")
    if isinstance(callee, Term) and callee.op == "attr" and isinstance(callee.args[0], Obj) and callee.args[0].label == "<StringIO>":
        o, m = callee.args[0], callee.args[1]
        if m == "write" and args and isinstance(args[0], Const) and isinstance(args[0].v, str):
            o.attrs["text"] = Const(o.attrs["text"].v + args[0].v)
            return Const(len(args[0].v))
        if m == "getvalue":
            return o.attrs["text"]
        if m == "tell":
            return Const(len(o.attrs["text"].v))
    return None


CAT_TAGS = ["getProperties", "oneLight", "setLightVector"]
CAT_PIECES = ["x", "<", ">", "<foo", "<getProperties", "<oneLight", "<setLightVector", " a='1'>", "</foo>"]
# a known start tag followed by every character that may legally follow a tag name, with an end tag behind it
CAT_LAYOUTS = [pre + "<" + t + sep + "a='1'>v</" + t + ">" for t in ["getProperties", "oneLight", "setLightVector"] for sep in (" ", "\n", "\t", "\r\n", "\n  ") for pre in ("", "x")] + ["<" + t + tail for t in ["getProperties", "setLightVector"] for tail in ("/>", ">", "></" + t + ">")]
# every proper prefix of every known start tag, alone and behind junk: a message whose opening tag is cut anywhere by the
# transport must be kept whole (the rest arrives with the next read)
CAT_PARTIALS = [pre + ("<" + t)[:k] for t in ["getProperties", "oneLight", "setLightVector"] for k in range(1, len(t) + 1) for pre in ("", "x", "x>", "<foo a='1'>")]


def resync_oracle(data: str) -> str:
    """What is left after resynchronisation: everything from the earliest known start tag; without one, everything from
    the last '<' (it may be the beginning of a message still arriving); without any '<', nothing."""
    pos = [data.find("<" + t) for t in CAT_TAGS if data.find("<" + t) >= 0]
    if pos:
        return data[min(pos):]
    r = data.rfind("<")
    return data[r:] if r >= 0 else ""


def constructed_buffer(it, p, text, only=None):
    """A Buffer produced by abstractly running its real constructor against a registry that holds exactly the three
    catalogue tags (GetProperties, the top-level OneLight, SetLightVector - seeded through the real register decorator),
    then filled with ``text`` through the public append().  Whatever the constructor derives from the tag list exists
    as the code computes it."""
    from ..absint import Cls, Frame
    from .c03 import seed_registry
    Bc = buf_cls(p)
    regs = [p.cls("indi.message.get_properties.GetProperties"), p.cls("indi.message.one_light.OneLight"), p.cls("indi.message.sets.SetLightVector")]
    if [lower(c.name) for c in regs] != CAT_TAGS:
        raise Undecided("catalogue tags do not match the message classes")
    if only is not None:
        regs = [c for c in regs if lower(c.name) in only]
    saved = dict(it.opts)
    n = len(it.events)
    try:
        seed_registry(it, p, regs)
        it.opts["inline"] = lambda fi, node: fi.cls is Bc or fi.name in ("all_message_classes", "tag_name")
        it.opts["instantiate"] = lambda ci: ci is Bc
        it.opts["foreign_model"] = stringio_model
        o = it.apply(Cls(Bc), [], {}, [], None, Frame(None, Bc.module, {}), False)
        if not isinstance(o, Obj):
            raise Undecided("Buffer() did not yield an abstract object")
        ap = Bc.find_method("append")
        if ap is None:
            raise Undecided("Buffer.append not found")
        it.run_function(Fn(ap, o), [Const(text)], {})
    finally:
        del it.events[n:]
        it.opts.clear()
        it.opts.update(saved)
    o.label = "buf"
    return o


def lower(name):
    return name[:1].lower() + name[1:]


def buffer_text(it, p, o):
    """The buffer's content read through the public 'data' view."""
    from .common import public_get
    saved = it.opts.get("foreign_model")
    it.opts["foreign_model"] = stringio_model
    try:
        v = public_get(it, o, "data")
    finally:
        if saved is None:
            it.opts.pop("foreign_model", None)
        else:
            it.opts["foreign_model"] = saved
    return v


def resync_catalogue(ctx, f, depth=3):
    """The resynchroniser evaluated by the abstract interpreter on a catalogue of constant buffer contents (all
    concatenations of up to 'depth' pieces: junk, '<', '>', unknown and known start tags, attribute text, an end tag) with a
    three-tag vocabulary in which one tag is a prefix-free sibling of another ('oneLight' inside 'setLightVector' messages).
    -> (number evaluated, [(input, got, expected)])"""
    import itertools as _it
    p = ctx.p
    Bc = buf_cls(p)
    inputs = [""]
    for k in range(1, depth + 1):
        inputs.extend("".join(c) for c in _it.product(CAT_PIECES, repeat=k))
    inputs.extend(CAT_PARTIALS)
    inputs.extend(CAT_LAYOUTS)
    mism = []
    n = 0
    for s_ in inputs:
        def run(it: Interp, s_=s_):
            o = constructed_buffer(it, p, s_)
            it.o = o
            try:
                return it.run_function(Fn(f, o), [], {})
            finally:
                it.left = buffer_text(it, p, o)

        paths = explore(p, run, {"inline": lambda fi, node: fi.cls is Bc, "foreign_model": stringio_model, "max_for": 12, "max_while": 12, "max_steps": 200000})
        ctx.paths_enumerated += len(paths)
        n += 1
        want = resync_oracle(s_)
        if len(paths) != 1:
            mism.append((s_, f"{len(paths)} paths (not decided by constant evaluation)", want))
            if len(mism) > 5:
                break
            continue
        pa = paths[0]
        left = getattr(pa.interp, "left", None)
        got = left.v if pa.outcome == "return" and isinstance(left, Const) and isinstance(left.v, str) else f"<{pa.outcome}: {show(pa.value)[:40] if pa.value is not None else ''}>"
        if got != want:
            mism.append((s_, got, want))
            if len(mism) > 5:
                break
    return n, mism


def check_discard(ctx, rule):
    """Provenance of every buffer truncation outside the consumption."""
    p = ctx.p
    B = buf_cls(p)
    f = B.find_method(roles(p)["RESYNC"])
    # decider: constant evaluation on the catalogue; the symbolic provenance analysis below, where it recognises the idioms,
    # upgrades the statement from the catalogue to every input
    ncat, mism = resync_catalogue(ctx, f, depth=3 if ctx.tier != "thorough" else 4)
    ctx.counters[f"{rule}:resynchroniser catalogue inputs"] = ncat
    for s_, got, want in mism[:3]:
        undec = "paths (not decided" in str(got)
        (ctx.undecided if undec else ctx.violated)(rule, f.short, f"on buffer content {s_!r} the resynchroniser leaves {got!r}, expected {want!r} (everything from the earliest known start tag; else from the last '<'; else nothing): " + ("a message in front of the cut is lost" if len(str(got)) < len(want) else "junk in front of a message is kept, or a partially received message is cut"), **({"fi": f} if undec else {"fi": f, "text": "resync-catalogue:" + ("short" if len(str(got)) < len(want) else "long"), "witness": s_}))
    sym_findings = []

    class _Collect:
        def violated(self, rule_, inst, msg, **kw):
            sym_findings.append(msg)

    real_ctx, ctx = ctx, _Collect()
    paths = run_method(p, f, opts={"max_for": 2})
    real_ctx.paths_enumerated += len(paths)
    bad = False
    n = 0
    for pa in paths:
        it = pa.interp
        tagfinds = [e.data["term"] for e in pa.events if e.kind == "call" and is_call(e.data["term"], method="find") and e.data["args"] and "allowed_tags" in show(e.data["args"][0])]
        rfinds = [e.data["term"] for e in pa.events if e.kind == "call" and is_call(e.data["term"], method="rfind")]
        found = [t for t in tagfinds if it.bounds_of(t)[0] is not None and it.bounds_of(t)[0] >= 0]
        notfound = [t for t in tagfinds if it.bounds_of(t)[1] is not None and it.bounds_of(t)[1] < 0]
        for e in data_stores(pa):
            n += 1
            v = e.data["value"]
            kind, amt = classify_store(it, v)
            if kind == "empty":
                ok = len(notfound) == len(tagfinds) and rfinds and all(it.bounds_of(t)[1] is not None and it.bounds_of(t)[1] < 0 for t in rfinds)
                if not ok:
                    ctx.violated(rule, f.short, "the whole buffer is discarded on a path where a known tag or a '<' may be present: a partially received message is cut", fi=f, node=e.node, text="discard-all")
                    bad = True
                continue
            if kind != "suffix":
                ctx.violated(rule, f.short, f"buffer assignment of unexpected shape {show(v)[:60]}", fi=f, node=e.node, text=f"shape:{kind}")
                bad = True
                continue
            lo = v.args[1].args[0]
            leaves = []
            _find_leaves(lo, leaves)
            if all(any(l is t for t in tagfinds) for l in leaves):
                # earliest known tag: every leaf found, and every found tag is a leaf (min over all found)
                if not all(it.bounds_of(l)[0] is not None and it.bounds_of(l)[0] >= 0 for l in leaves) or not all(any(t is l for l in leaves) for t in found):
                    ctx.violated(rule, f.short, f"the buffer is cut at {show(lo)[:70]}, which is not the earliest known tag found on this path: a message before it is lost", fi=f, node=e.node, text="not-earliest-tag")
                    bad = True
            elif len(leaves) == 1 and any(leaves[0] is t for t in rfinds) and show(leaves[0].args[1][0]) == "'<'":
                if found:
                    ctx.violated(rule, f.short, "the buffer is cut at the last '<' although a known tag was found: everything between them is lost", fi=f, node=e.node, text="rfind-with-tag")
                    bad = True
            else:
                ctx.violated(rule, f.short, f"the buffer is cut at {show(lo)[:70]}: not at the earliest known tag nor at the last '<' - a partially received message can be cut into, so delivery depends on fragmentation", fi=f, node=e.node, text=f"provenance:{show(lo)[:40]}")
                bad = True
        # a path that leaves the buffer untouched must have established that nothing in front can be dropped:
        # the earliest known tag is at position 0, or no known tag exists and the last '<' is at position 0
        if pa.outcome == "return" and not data_stores(pa):
            n += 1
            zero_terms = []
            for e in pa.assumes():
                c = e.data["cond"]
                if isinstance(c, Term) and c.op == "cmp" and isinstance(c.args[1], Term) and it.bounds_of(c.args[1]) == (0, 0):
                    zero_terms.append(c.args[1])
            def _leaves_in(t, pool):
                ls = []
                _find_leaves(t, ls)
                return bool(ls) and all(any(l is x for x in pool) for l in ls)
            tag_at_zero = any(it.bounds_of(t) == (0, 0) for t in tagfinds) or any(_leaves_in(t, tagfinds) for t in zero_terms)
            none_found = bool(tagfinds) and len(notfound) == len(tagfinds)
            rf_zero = any(it.bounds_of(t) == (0, 0) for t in rfinds) or any(_leaves_in(t, rfinds) for t in zero_terms)
            empty_tags = not tagfinds and any(e.kind == "loop-enter" and e.data["n"] == 0 for e in pa.events)
            if not (tag_at_zero or ((none_found or empty_tags) and rf_zero)):
                conds = [f"{show(e.data['cond'])[:40]}={e.data['truth']}" for e in pa.assumes()][:4]
                ctx.violated(rule, f.short, f"a path returns without trimming the buffer although it has not established that the earliest known tag (or the only '<') is at position 0 (assumptions: {conds}): junk in front of a valid message is kept, so the message behind it is not delivered until the threshold forces a cleanup - never, when the threshold is disabled", fi=f, text=f"untrimmed:{conds[:1]}")
                bad = True
        # loop over the tags: complete unless position 0 was found
        for ex in [e for e in pa.events if e.kind == "loop-exit" and e.data["how"] == "break"]:
            zero = [a for a in pa.assumes() if a.data["truth"] and isinstance(a.data["cond"], Term) and a.data["cond"].op == "cmp" and a.data["cond"].args[0] == "==" and show(a.data["cond"].args[2]) == "0"]
            if not zero and not any(it.bounds_of(t) == (0, 0) for t in tagfinds):
                ctx.violated(rule, f.short, "the search over the known tags stops early without having found position 0", fi=f, text="tags-early-exit")
                bad = True
    ctx = real_ctx
    if not mism:
        if n and not sym_findings:
            ctx.holds(rule, f.short, f"{n} truncations over {len(paths)} symbolic paths: earliest known tag, else last '<', else discard-all only when neither exists (all inputs); {ncat} catalogue inputs agree", fi=f)
        else:
            ctx.holds(rule, f.short, f"{ncat} catalogue inputs: what is left is everything from the earliest known start tag, else from the last '<', else nothing (the symbolic provenance analysis does not recognise this way of writing the search, so the statement is limited to the catalogue)", fi=f)
    # the blind frontal drop, wherever it is written (inline, in a helper, as _discard(1)): every truncation performed in an
    # iteration of process() - the resynchroniser aside - is either the removal of a scanned prefix (decided by
    # CONSUME / RECOVER) or drops exactly one character; the latter only after 'length > threshold' was established on a
    # path with the threshold enabled, and it is followed by a resynchronisation before the next scan.
    fp, ppaths = explore_process(ctx)
    R = roles(p)
    okc = True
    why = None
    ndrop = 0
    for pa in ppaths:
        for it_idx, evs, how in iteration_segments(pa, fp):
            for e in evs:
                if not (e.kind == "store" and e.data.get("attr") == "data" and show(e.data["base"]) == "self"):
                    continue
                v = e.data["value"]
                lo = v.args[1].args[0] if isinstance(v, Term) and v.op == "sub" and isinstance(v.args[1], Term) and v.args[1].op == "slice" else None
                if not (isinstance(lo, Const) and isinstance(lo.v, int)):
                    # a symbolic cut must be the end of a prefix that the scan of this iteration handed to the message
                    # parser (delivered: CONSUME, rejected: RECOVER); anything else drops text nobody looked at
                    ends = [show(prefix_end(pfx)) for x, pfx in message_parse_calls(evs) if x.idx < e.idx and prefix_end(pfx) is not None]
                    if lo is None or show(lo) not in ends:
                        okc, why = False, f"the buffer is cut at {show(lo)[:60] if lo is not None else show(v)[:60]}, which is neither the end of a prefix handed to the message parser in this iteration nor the single-character drop: text that may belong to a valid message is discarded unseen"
                    continue
                ndrop += 1
                if classify_store(pa.interp, v) != ("suffix", 1) or lo.v != 1:
                    okc, why = False, f"a constant truncation {show(v)[:40]} that is not the single-character drop"
                    continue
                guards = [a_ for a_ in pa.assumes() if a_.idx < e.idx and any(x is a_ for x in evs) and over_threshold(a_)]
                if not guards or threshold_none_path(pa) is True:
                    okc, why = False, "the single-character drop is reachable without 'length > threshold' having been established in that iteration (or with the threshold disabled)"
                if not any(x.kind == "call" and is_call(x.data["term"], method=R["RESYNC"]) and x.idx > e.idx for x in evs):
                    okc, why = False, "the single-character drop is not followed by a resynchronisation in the same iteration"
    others = [fi for fi in p.functions if fi.cls is not B and any(isinstance(n_, __import__("ast").Attribute) and n_.attr == "data" and isinstance(n_.ctx, __import__("ast").Store) and "buffer" in __import__("ast").unparse(n_.value) for n_ in __import__("ast").walk(fi.node))]
    if others:
        okc, why = False, f"the buffer text is assigned from outside the buffer class ({others[0].short})"
    ctx.check(okc and ndrop > 0, rule, f"{fp.short} frontal drop", "one character, only when no message was found and length > enabled threshold, then resynchronise", f"blind frontal drop: {why or 'no single-character drop found on any path (junk that imitates an element start could never be skipped)'}", fi=fp, text="cleanup-beginning-guard")


def check_tags(ctx, rule):
    """The framing's known tags are the parser's registry, not a second list: the same buffer content is resynchronised
    under a registry of three message classes and under a registry holding only one of them - what counts as a known
    start tag must follow."""
    p = ctx.p
    Bc = buf_cls(p)
    f = Bc.find_method(roles(p)["RESYNC"])
    init = Bc.methods.get("__init__") or f
    text = "x<oneLight a='1'><getProperties"
    got = {}
    for only in (None, ("getProperties",)):
        def run(it: Interp, only=only):
            o = constructed_buffer(it, p, text, only=only)
            it.run_function(Fn(f, o), [], {})
            it.left = buffer_text(it, p, o)
            return Const(None)

        paths = explore(p, run, {"inline": lambda fi, node: fi.cls is Bc, "foreign_model": stringio_model, "max_for": 12, "max_while": 12})
        ctx.paths_enumerated += len(paths)
        if len(paths) != 1 or paths[0].outcome != "return" or not isinstance(paths[0].interp.left, Const):
            ctx.undecided(rule, init.short, "resynchronisation under a reduced registry not decided by constant evaluation", fi=init)
            return
        got[only] = paths[0].interp.left.v
    want = {None: "<oneLight a='1'><getProperties", ("getProperties",): "<getProperties"}
    ctx.check(got == want, rule, init.short, "known tags = tag names of the registered message classes (decided under two registries)", f"the framing's known-tag list does not follow the parser's registry: with all three catalogue classes registered {text!r} is cut to {got.get(None)!r}, with only GetProperties registered to {got.get(('getProperties',))!r} (expected {want[None]!r} and {want[('getProperties',)]!r}) - a second hand-written list drifts from what the parser accepts", fi=init, text="allowed-tags")


def check_append(ctx, rule):
    """The buffer as a text accumulator, through its public operations only: append(x) adds x at the end, 'data = x'
    replaces the text, 'data' shows the whole text and data_len its length - evaluated on every sequence of up to three
    operations over constant texts on a buffer built by the real constructor (whatever it stores the text in)."""
    import ast
    import itertools as _it
    p = ctx.p
    Bc = buf_cls(p)
    f = Bc.find_method("append")
    if f is None or Bc.find_setter("data") is None or Bc.find_getter("data") is None or Bc.find_getter("data_len") is None:
        raise Undecided("Buffer lacks append / data / data_len")
    # pieces that are nothing but a line break or a blank are pieces like any other: where the stream is cut must not matter
    ops = [("append", " <a"), ("append", "b> \n"), ("append", ""), ("append", "\n"), ("append", "\r\n"), ("append", " "), ("set", "x"), ("set", ""), ("drop1", None)]
    seqs = [s for k in (1, 2, 3) for s in _it.product(ops, repeat=k)]
    bad = None
    n = 0
    from ..absint import Frame
    from .common import public_get
    for seq in seqs:
        n += 1

        def run(it: Interp, seq=seq):
            o = constructed_buffer(it, p, "")
            saved = it.opts.get("foreign_model")
            it.opts["foreign_model"] = stringio_model
            it.trace = []
            try:
                for kind, arg in seq:
                    if kind == "append":
                        it.run_function(Fn(f, o), [Const(arg)], {})
                    elif kind == "set":
                        it.exec_block(ast.parse("o.data = v").body, Frame(None, Bc.module, {"o": o, "v": Const(arg)}))
                    else:
                        it.exec_block(ast.parse("o.data = o.data[1:]").body, Frame(None, Bc.module, {"o": o}))
                    it.trace.append((public_get(it, o, "data"), public_get(it, o, "data_len")))
            finally:
                if saved is None:
                    it.opts.pop("foreign_model", None)
                else:
                    it.opts["foreign_model"] = saved
            return Const(None)

        paths = explore(p, run, {"inline": lambda fi, node: fi.cls is Bc, "foreign_model": stringio_model})
        ctx.paths_enumerated += len(paths)
        text = ""
        exp = []
        for kind, arg in seq:
            text = text + arg if kind == "append" else (arg if kind == "set" else text[1:])
            exp.append((text, len(text)))
        if len(paths) != 1 or paths[0].outcome != "return":
            bad = (seq, f"not decided by constant evaluation ({len(paths)} paths)", None)
            break
        got = [(d.v if isinstance(d, Const) else show(d)[:30], l.v if isinstance(l, Const) else show(l)[:30]) for d, l in paths[0].interp.trace]
        if got != exp:
            bad = (seq, got, exp)
            break
    if bad is not None and bad[2] is None:
        ctx.undecided(rule, f.short, f"the operation sequence {bad[0]} is {bad[1]}", fi=f)
    else:
        ctx.check(bad is None, rule, f.short, f"{n} sequences of append / data = x / data = data[1:] on constant texts: data and data_len show exactly the accumulated text", f"after {bad and bad[0]} the buffer shows (data, data_len) = {bad and bad[1]}, expected {bad and bad[2]}: received text is lost, duplicated or mis-measured", fi=f, text="append", witness=str(bad and bad[0]))


def check_aux(ctx, rule):
    """Framing state must be the buffer text alone - or every cached scan attribute must be
    re-initialised whenever the front of the buffer is dropped (a stale offset skips characters)."""
    import ast

    p = ctx.p
    Bc = buf_cls(p)
    base = {"buffer", "max_buffer_size_before_frontal_cleanup", "allowed_tags", "data"}
    init = Bc.methods.get("__init__")
    stored = {}
    for fi in list(Bc.methods.values()) + list(Bc.setters.values()) + list(Bc.getters.values()):
        for n_ in ast.walk(fi.node):
            tg = []
            if isinstance(n_, ast.Assign):
                tg = n_.targets
            elif isinstance(n_, (ast.AugAssign, ast.AnnAssign)):
                tg = [n_.target]
            for t in tg:
                for sub in ast.walk(t):
                    if isinstance(sub, ast.Attribute) and isinstance(sub.value, ast.Name) and sub.value.id == "self" and isinstance(sub.ctx, ast.Store) and sub.attr not in base:
                        stored.setdefault(sub.attr, []).append(fi)
    if not any(any(fi is not init for fi in fs) for fs in stored.values()):
        ctx.holds(rule, Bc.short, "the framing state is the buffer text alone (no cached scan attributes)", ci=Bc)
        return
    init_vals = {}
    for pa in run_method(p, init):
        for e in pa.events:
            if e.kind == "store" and e.data.get("attr") in stored and show(e.data["base"]) == "self":
                init_vals[e.data["attr"]] = e.data["value"]
    setter = Bc.find_setter("data")
    for attr in sorted(stored):
        if all(fi is init for fi in stored[attr]):
            continue  # written by the constructor only: configuration derived once (e.g. from the tag list), not scan state
        iv = init_vals.get(attr)
        if iv is None or not isinstance(iv, Const):
            ctx.undecided(rule, Bc.short, f"cached attribute {attr} has no constant initial value", ci=Bc)
            continue

        def resets(pa, after_idx):
            return any(e.kind == "store" and e.data.get("attr") == attr and show(e.data["base"]) == "self" and isinstance(e.data["value"], Const) and e.data["value"].v == iv.v and e.idx > after_idx for e in pa.events)

        # the data setter itself resets it -> every truncation is covered
        if setter is not None and all(resets(pa, -1) for pa in run_method(p, setter) if pa.outcome == "return"):
            ctx.holds(rule, f"{Bc.short}.{attr}", "re-initialised by the data setter on every assignment of the buffer text", ci=Bc)
            continue
        bad = False
        nst = 0
        for fi in list(Bc.methods.values()):
            if fi.name in ("__init__", "append"):
                continue
            for pa in run_method(p, fi, opts={"max_for": 2, "max_while": 1}):
                if pa.outcome != "return":
                    continue
                for e in data_stores(pa):
                    k, amt = classify_store(pa.interp, e.data["value"])
                    if k == "same":
                        continue
                    nst += 1
                    if not resets(pa, e.idx):
                        ctx.violated(rule, fi.short, f"the cached scan state '{attr}' is not re-initialised after the buffer text is replaced by {show(e.data['value'])[:50]} on one path of {fi.name}: the next scan starts at a stale offset and skips (or re-reads) characters, so delivery depends on how the stream was cut", fi=fi, node=e.node, text=f"stale:{attr}:{fi.name}:{show(e.data['value'])[:30]}")
                        bad = True
        if not bad:
            ctx.holds(rule, f"{Bc.short}.{attr}", f"re-initialised after each of the {nst} buffer truncations on every path", ci=Bc)


def check_recover(ctx, rule):
    """A prefix that is well-formed XML (a complete element) but is rejected by the message parser can never
    become a message by waiting for more data: it must be consumed, otherwise it blocks everything behind it
    until the threshold forces a cleanup - for ever when the threshold is disabled."""
    f, paths = explore_process(ctx, may_raise=True, max_while=1)
    bad = False
    n = 0
    for pa in paths:
        import ast as _ast
        rej = [e for e in pa.events if e.kind == "raise" and e.data.get("implicit") and e.node is not None and any(k in _ast.unparse(e.node) for k in ("from_string", "from_xml"))]
        if not rej:
            continue
        for it_idx, evs, how in iteration_segments(pa, f):
            seg_rej = [e for e in evs if e in rej]
            if not seg_rej:
                continue
            n += 1
            last = seg_rej[-1]
            # ... and by exactly its own length: the slice must start where the rejected prefix ended
            calls_ = [(x, pfx) for x, pfx in message_parse_calls(evs) if x.idx < last.idx]
            own = [e for e in evs if e.idx > last.idx and e.kind == "store" and e.data.get("attr") == "data" and show(e.data["base"]) == "self"]
            if calls_ and own:
                pend = prefix_end(calls_[-1][1])
                v = own[0].data["value"]
                start = v.args[1].args[0] if isinstance(v, Term) and v.op == "sub" and isinstance(v.args[1], Term) and v.args[1].op == "slice" and v.args[1].args[1] is None else None
                if pend is None or start is None or show(pend) != show(start) or len(own) != 1:
                    ctx.violated(rule, f.short, f"the rejected complete element data[:{show(pend)[:40] if pend is not None else '?'}] is removed by truncating to {show(v)[:50]}: not exactly the rejected element (characters of the following message are lost, or part of the element stays)", fi=f, text="rejected-not-exact")
                    bad = True
            if how not in ("break", "return"):
                continue
            consumed = False
            for e in evs:
                if e.idx > last.idx and e.kind == "store" and e.data.get("attr") == "data" and show(e.data["base"]) == "self":
                    k, amt = classify_store(pa.interp, e.data["value"])
                    if k == "suffix" and amt >= 1:
                        consumed = True
            tn = threshold_none_path(pa)
            if not consumed:
                ctx.violated(rule, f.short, "a complete (well-formed) element that the message parser rejects is left at the head of the buffer when process() gives up: every valid message behind it is blocked until more than the threshold has accumulated" + (" - for ever on this path, where the threshold is disabled" if tn else ""), fi=f, node=last.node, text=f"invalid-element-retained:{'threshold-None' if tn else 'threshold'}", witness='<newSwitchVector device="D" name="S"><oneSwitch name="A">Maybe</oneSwitch></newSwitchVector> followed by a valid getProperties')
                bad = True
    if n == 0:
        ctx.undecided(rule, f.short, "no path with a rejected complete element explored", fi=f)
    elif not bad:
        ctx.holds(rule, f.short, f"{n} iterations with a rejected complete element: it is consumed before process() waits for more data", fi=f)


# ------------------------------------------------------------------ regex literals: no exponential backtracking
def regex_literals(p, prefixes):
    """Every regex handed to the re module in the modules selected by ``prefixes``: [(function-or-None, module, call node,
    pattern or None)].  The pattern argument is resolved through constants, local/module-level names and loops over
    literal tuples; None = not resolved (reported in the evidence, never a verdict)."""
    import ast
    out = []
    for mod in p.modules.values():
        if not mod.name.startswith(prefixes):
            continue
        re_names = {n for n, b in mod.ns.items() if b[0] == "import" and b[1] == "re" and b[2] is None}
        re_funcs = {n for n, b in mod.ns.items() if b[0] == "import" and b[1] == "re" and b[2] in ("match", "fullmatch", "search", "compile", "sub", "split", "findall", "finditer")}
        if not re_names and not re_funcs:
            continue
        consts = {}
        seqs = {}

        def note(scope_node, table_c, table_s):
            for n in ast.walk(scope_node):
                if isinstance(n, ast.Assign) and len(n.targets) == 1 and isinstance(n.targets[0], ast.Name):
                    v = n.value
                    if isinstance(v, ast.Constant) and isinstance(v.value, str):
                        table_c.setdefault(n.targets[0].id, []).append(v.value)
                    elif isinstance(v, (ast.Tuple, ast.List)) and v.elts and all(isinstance(e, ast.Constant) and isinstance(e.value, str) for e in v.elts):
                        table_s.setdefault(n.targets[0].id, []).extend(e.value for e in v.elts)
                if isinstance(n, (ast.For, ast.comprehension)) and isinstance(n.target, ast.Name):
                    it_ = n.iter
                    if isinstance(it_, (ast.Tuple, ast.List)) and all(isinstance(e, ast.Constant) and isinstance(e.value, str) for e in it_.elts):
                        table_c.setdefault(n.target.id, []).extend(e.value for e in it_.elts)
                    elif isinstance(it_, ast.Name):
                        table_c.setdefault(n.target.id, []).append(("seq", it_.id))

        note(mod.tree, consts, seqs)

        def resolve(arg):
            if isinstance(arg, ast.Constant) and isinstance(arg.value, str):
                return [arg.value]
            if isinstance(arg, ast.Name):
                got = []
                for v in consts.get(arg.id, []):
                    if isinstance(v, tuple):
                        got.extend(seqs.get(v[1], [None]))
                    else:
                        got.append(v)
                return got or [None]
            return [None]

        owners = {}
        for fi in p.functions:
            if fi.module is mod:
                for n in ast.walk(fi.node):
                    owners.setdefault(id(n), fi)
        for n in ast.walk(mod.tree):
            if not (isinstance(n, ast.Call) and n.args):
                continue
            fn = n.func
            hit = (isinstance(fn, ast.Attribute) and isinstance(fn.value, ast.Name) and fn.value.id in re_names and fn.attr in ("match", "fullmatch", "search", "compile", "sub", "split", "findall", "finditer")) or (isinstance(fn, ast.Name) and fn.id in re_funcs)
            if hit:
                for pat in resolve(n.args[0]):
                    out.append((owners.get(id(n)), mod, n, pat))
    return out


def check_regex(ctx, rule, prefixes, what):
    """No regex applied to peer-supplied text can backtrack exponentially: an unbounded repeat whose iteration is ambiguous
    (some word splits into iterations in two ways) followed by anything that can fail makes matching time exponential in
    the input length - a few dozen characters of junk stall the receiver for good."""
    from ..reglang import exponential_repeats
    # the detector must fire on a known-bad pattern and be silent on a known-good one, on every run
    if not exponential_repeats(r"^(\d+[:; ]?)+$") or exponential_repeats(r"^\d+([:; ]\d{2})*$"):
        raise Undecided("the ambiguity detector fails its built-in positive/negative examples")
    lits = regex_literals(ctx.p, prefixes)
    n = unresolved = 0
    bad = False
    seen = set()
    for fi, mod, node, pat in lits:
        where = fi.short if fi is not None else mod.relpath
        if pat is None:
            unresolved += 1
            continue
        if (where, pat) in seen:
            continue
        seen.add((where, pat))
        n += 1
        try:
            hits = exponential_repeats(pat)
        except Undecided:
            unresolved += 1
            continue
        for desc, w in hits:
            bad = True
            ctx.violated(rule, where, f"the pattern {pat!r} iterates a group that matches {w!r} both as one iteration and as several: on {w!r} repeated n times followed by a character that makes the match fail, matching takes 2^n steps - {what}", fi=fi, node=node, text=f"regex:{pat}", witness=(w * 20) + "!")
    ctx.counters[rule + ":regex literals analysed"] = n
    ctx.counters[rule + ":regex arguments not resolved to a literal"] = unresolved
    if not bad:
        ctx.holds(rule, f"regex literals in {', '.join(prefixes)}", f"{n} regex literals: no unbounded repeat with an ambiguous iteration ({unresolved} pattern arguments not resolved to a literal)")


# ------------------------------------------------------------------ the scan for a complete element, on constant buffers
FIND_CASES = [
    '<getProperties version="1.7"/>',
    '<getProperties version="1.7"/><getProperties device="x"/>',
    '<getProperties version="1.7"></getProperties>',
    '<setLightVector device="d" name="n"><oneLight name="a">Ok</oneLight></setLightVector>',
    '<setLightVector device="d" name="n"><oneLight name="a">Ok</oneLight><oneLight name="b">Busy</oneLight></setLightVector><getProperties/>',
    # markup characters in character data and attribute values (an unbalanced quote in text, '>' inside a value)
    '<setLightVector device="d" name="n"><oneLight name="a">8"</oneLight></setLightVector>',
    '<setLightVector device="d" name="n"><oneLight name="a">12\' 30"</oneLight></setLightVector>',
    '<setLightVector device="d" name="n"><oneLight name="a">it\'s</oneLight></setLightVector>',
    '<getProperties device="a>b" version="1.7"/>',
    "<getProperties device='a\"b' version='1.7'/>",
    '<getProperties device="a&gt;b"/>',
    '<setLightVector device="d" name="n"><oneLight name="a">x &gt; y &amp; "z</oneLight></setLightVector>',
    '<getProperties><!-- > " --></getProperties>',
    '<oneLight name="a"><![CDATA[> " <]]></oneLight>',
    '<getProperties\n  version="1.7"\n/>\n<getProperties/>',
    # still arriving: nothing to deliver yet
    '<getProperties version="1.7"',
    '<setLightVector device="d" name="n"><oneLight name="a">Ok</oneLight>',
    '<setLightVector device="d" name="n"><oneLight name="a">8"</oneLight>',
    '<getProperties device="a>',
    # a complete message followed by the beginning of the next
    '<getProperties/><setLightVec',
    '<getProperties/>x',
    '<oneLight name="a">"</oneLight><oneLight name="b">"</oneLight>',
    # text outside ASCII, as the transports hand it over (bytes decoded as latin1) and as a program may feed it
    '<getProperties device="caf\xe9"/>',
    '<setLightVector device="d" name="n"><oneLight name="a">5\xb0 \xc3\xa9</oneLight></setLightVector>',
    '<getProperties device="\u03a9"/><getProperties/>',
]


def _et_model(it, callee, args, kw):
    """xml.etree.ElementTree.fromstring on CONSTANT text: decided by the standard library's parser (stdlib code on a
    constant; no repository code runs) - an element object, or ParseError."""
    r = stringio_model(it, callee, args, kw)
    if r is not None:
        return r
    if isinstance(callee, Foreign) and callee.dotted.split(".")[-1] == "fromstring" and args and isinstance(args[0], Const) and isinstance(args[0].v, (str, bytes)):
        import xml.etree.ElementTree as _ET
        from ..absint import _Raise
        try:
            _ET.fromstring(args[0].v)
        except _ET.ParseError:
            it.emit("raise", getattr(it, "cur_stmt", None), value=Term("exc", "ParseError"), implicit=True)
            raise _Raise(Term("exc", "ParseError"), getattr(it, "cur_stmt", None))
        return Obj(None, {"__text__": args[0]}, label="<Element>")
    return None


def find_oracle(data: str):
    """The first prefix that ends with '>' and is a well-formed XML document - what a scan over every '>' must find."""
    import xml.etree.ElementTree as _ET
    e = 0
    while True:
        e = data.find(">", e)
        if e < 0:
            return None
        e += 1
        try:
            _ET.fromstring(data[:e])
            return e
        except _ET.ParseError:
            continue


def check_find(ctx, rule):
    """Every '>' is a candidate end of the first element and none may be passed over: evaluated on constant buffer
    contents (quotes and '>' in text and attribute values, comments, CDATA, incomplete elements), the scan must hand exactly
    the first well-formed prefix to the message parser and report its end - or report that nothing is complete yet."""
    p = ctx.p
    Bc = buf_cls(p)
    f = Bc.find_method(roles(p)["FIND"])
    if f is None:
        raise Undecided("the buffer's find helper was not found")
    bad = False
    n = 0
    for s_ in FIND_CASES:
        n += 1

        def run(it: Interp, s_=s_):
            o = constructed_buffer(it, p, s_)
            return it.run_function(Fn(f, o), [], {})

        # the message parser's entry (from_string) is part of the scan: what it hands to from_xml must be the element parsed
        # from exactly the prefix text
        paths = explore(p, run, {"inline": lambda fi, node: fi.cls is Bc or (fi.name == "from_string" and fi.module.name.startswith("indi.message")), "foreign_model": _et_model, "max_while": 40, "max_for": 12, "max_steps": 200000})
        ctx.paths_enumerated += len(paths)
        want = find_oracle(s_)
        if len(paths) != 1:
            ctx.undecided(rule, f.short, f"the scan of the constant buffer {s_!r} is not decided by constant evaluation ({len(paths)} paths)", fi=f)
            bad = True
            continue
        pa = paths[0]
        v = pa.value
        got_end, got_pfx = "?", None
        if pa.outcome == "return" and isinstance(v, Tup) and len(v.items) == 2:
            m, e = v.items
            got_end = e.v if isinstance(e, Const) else "?"
            px = parsed_prefix(m)
            got_pfx = px.v if isinstance(px, Const) else (None if isinstance(m, Const) and m.v is None else "?")
        exp_end, exp_pfx = (want, s_[:want]) if want is not None else (None, None)
        if (got_end, got_pfx) != (exp_end, exp_pfx):
            what = (f"parses a re-encoded copy {got_pfx!r} of the text instead of the text itself (characters outside ASCII are lost, altered or make a valid message unparsable)" if isinstance(got_pfx, bytes) else f"delivers {got_pfx!r} (end {got_end})") if got_pfx not in (None, "?") else (f"reports nothing complete (end {got_end})" if pa.outcome == "return" else f"raises {show(pa.value)[:40] if pa.value is not None else ''}")
            ctx.violated(rule, f.short, f"on the buffer {s_!r} the scan {what}; the first complete element is {exp_pfx!r}" + (": a complete message is passed over and stays undelivered (and blocks what follows it)" if exp_pfx is not None and got_pfx != exp_pfx and not isinstance(got_pfx, bytes) else ""), fi=f, text="find:" + ("missed" if exp_pfx is not None else "spurious"), witness=s_)
            bad = True
    ctx.counters[rule + ":constant buffers scanned"] = n
    if not bad:
        ctx.holds(rule, f.short, f"{n} constant buffer contents: the scan hands exactly the first well-formed prefix to the message parser, or nothing while the element is incomplete", fi=f)


# ------------------------------------------------------------------ one receive buffer per connection
def connection_classes(p):
    """Classes under indi.transport whose constructor creates a receive buffer (found by abstract construction)."""
    Bc = buf_cls(p)
    out = []
    for mod in p.modules.values():
        if not mod.name.startswith("indi.transport"):
            continue
        for ci in mod.classes.values():
            if ci is Bc or ci.find_method("__init__") is None:
                continue
            if any(isinstance(n_, __import__("ast").Name) and n_.id == Bc.name for n_ in __import__("ast").walk(ci.node)):
                out.append(ci)
    return out


def check_own_buffer(ctx, rule):
    """Framing state is per connection: two connections constructed one after the other (same interpreter state, every
    optional argument omitted as the library's own call sites do) must not share a receive buffer - with a shared buffer
    the bytes of two peers interleave into one text, and a partial message left by a dead connection poisons the others."""
    p = ctx.p
    Bc = buf_cls(p)
    from ..absint import Cls, Frame, Lst, Dct
    classes = connection_classes(p)
    n = 0
    for ci in classes:
        sig = p.init_chain_signature(ci)

        def run(it: Interp, ci=ci, sig=sig):
            it.made = []
            for k in (1, 2):
                o = it.apply(Cls(ci), [], {n_: Obj(None, label=f"<{n_}{k}>") for n_ in sig.required()}, [], None, Frame(None, ci.module, {}), False)
                it.made.append(o)
            return Const(None)

        paths = explore(p, run, {"inline": lambda fi, node: fi.cls is Bc and fi.name == "__init__", "instantiate": lambda k_: k_ is Bc or k_ is ci, "foreign_model": stringio_model})
        ctx.paths_enumerated += len(paths)
        verdict = None
        seen_bufs = 0
        for pa in paths:
            if pa.outcome != "return":
                continue
            a, b = pa.interp.made
            if not (isinstance(a, Obj) and isinstance(b, Obj)):
                verdict = "?"
                break

            def bufs(o):
                out, todo, seen = [], [o], set()
                while todo:
                    x = todo.pop()
                    if id(x) in seen:
                        continue
                    seen.add(id(x))
                    if isinstance(x, Obj):
                        if x.cls is Bc:
                            out.append(x)
                            continue
                        if x is o:
                            todo.extend(x.attrs.values())
                    elif isinstance(x, (Lst,)):
                        todo.extend(x.items)
                    elif isinstance(x, Dct):
                        todo.extend(v for _, v in x.pairs)
                return out

            ba, bb = bufs(a), bufs(b)
            seen_bufs = max(seen_bufs, len(ba))
            if any(x is y for x in ba for y in bb):
                verdict = "shared"
        if verdict == "?" or seen_bufs == 0:
            continue  # not a class that owns a buffer (e.g. the listener that creates handlers)
        n += 1
        init = ci.find_method("__init__")
        ctx.check(verdict is None, rule, f"{init.short}[{ci.name}]", "every connection constructs its own receive buffer", f"two {ci.name} connections constructed one after the other hold the SAME receive buffer object (a default argument or class attribute evaluated once): the bytes of different peers are framed as one text - a write split over two reads is corrupted by another connection's data, and what a dead connection left unfinished blocks the others", fi=init, text=f"shared-buffer:{ci.name}", witness=f"{ci.name}(...); {ci.name}(...)")
    ctx.floor(rule, "connection classes owning a receive buffer", n, 3)


# ------------------------------------------------------------------ end-to-end catalogue (shape-independent)
_G = "<getProperties version='1.7'/>"
_S = "<setLightVector device='d' name='n'><oneLight name='a'>Ok</oneLight></setLightVector>"
_L = "<oneLight name='a'>Ok</oneLight>"
E2E_STREAMS = [
    "", "   ", "junk without any tag", _G, _S, _G + _S, _S + _G + _G, "junk" + _G, _G + "junk", "x<y " + _G, ">>" + _G + ">",
    _G + "<foo/>" + _S, "<foo a='1'>" + _G, "<foo/>", "<bar>text</bar>" + _S, _S + "\n" + _G + "\n", "<?xml version='1.0'?>\n" + _G,
    "<getPropertiesX/>" + _G, _G[:10], _G + _S[:20], _S[:-1], "<foo a='1' b='2'>never closed " + "x" * 30, _L + _G,
    "<setLightVector device='d' name='n'>" + "<oneLight name='a'>Ok</oneLight>" * 3, _G + "<" , "<<<" + _S + "<", "<foo>" + _G + "</foo>",
    '<oneLight name="a">8" x > y</oneLight>' + _G, "<getProperties version='1.7'\n device='d'\n/>" + _S, "<getProperties<oneLight name='a'>Ok</oneLight>",
]
E2E_THRESHOLDS = [None, 2048, 8]


def _root_tag(text):
    import xml.etree.ElementTree as _ET
    try:
        return _ET.fromstring(text).tag
    except _ET.ParseError:
        return None


def e2e_oracle(text, threshold):
    """What framing must do with one buffer content (reference written from the property, independent of the code's
    organisation): resynchronise on the first known start tag (else the last '<', else nothing); repeatedly take the first
    '>'-terminated well-formed prefix, deliver it if it is a message of a known kind, remove exactly it and
    resynchronise; when nothing is complete, give up one leading character at a time while the text is longer than the
    threshold, else wait.  -> (delivered prefixes, text retained)."""
    out = []
    d = resync_oracle(text)
    while d:
        end = find_oracle(d) if len(d) > 1 else None
        if end is None:
            if threshold is not None and len(d) > threshold:
                d = resync_oracle(d[1:])
                continue
            break
        pfx, d = d[:end], resync_oracle(d[end:])
        if _root_tag(pfx) in CAT_TAGS:
            out.append(pfx)
    return out, d


def process_e2e(ctx):
    """Buffer.process evaluated as a whole (constant evaluation of the buffer module on a buffer built by the real
    constructor; ElementTree folded on constants; the message constructor replaced by 'known root tag or raise') on the
    catalogue E2E_STREAMS x E2E_THRESHOLDS, compared with e2e_oracle.  -> ("holds" | "violated" | "undecided", detail, n)"""
    cached = getattr(ctx, "_e2e", None)
    if cached is not None:
        return cached
    from ..absint import _Raise
    p = ctx.p
    Bc = buf_cls(p)
    f = Bc.find_method("process")
    TH = "max_buffer_size_before_frontal_cleanup"
    n = 0
    res = None
    for text in E2E_STREAMS:
        for th in E2E_THRESHOLDS:
            n += 1
            got = {}

            def eff(it, callee, args, kwargs, ev):
                if isinstance(callee, Fn) and callee.fi.name == "from_xml" and callee.fi.module.name.startswith("indi.message") and args:
                    el = args[0]
                    src = el.attrs.get("__text__") if isinstance(el, Obj) else None
                    tag = _root_tag(src.v) if isinstance(src, Const) else None
                    if tag in CAT_TAGS:
                        return Obj(None, {"__closed__": Const(True)}, label="msg:" + (src.v if isinstance(src.v, str) else src.v.decode("latin1")))
                    x = Term("exc", "Exception", "Invalid message")
                    it.emit("raise", ev.node, value=x, implicit=True)
                    raise _Raise(x, ev.node)
                return None

            def run(it: Interp, text=text, th=th, got=got):
                o = constructed_buffer(it, p, text)
                if TH not in o.attrs:
                    raise Undecided(f"a constructed buffer has no attribute {TH}")
                o.attrs[TH] = Const(th)
                cb = Obj(None, label="<consumer>")
                k = len(it.events)
                it.run_function(Fn(f, o), [cb], {})
                got["delivered"] = [e.data["args"][0].label[4:] if e.data["args"] and isinstance(e.data["args"][0], Obj) and e.data["args"][0].label.startswith("msg:") else "?" for e in it.events[k:] if e.kind == "call" and e.data.get("callee") is cb]
                left = buffer_text(it, p, o)
                got["left"] = left.v if isinstance(left, Const) else "?"
                return Const(None)

            try:
                paths = explore(p, run, {"inline": lambda fi, node: fi.cls is Bc or fi.module is Bc.module or (fi.name == "from_string" and fi.module.name.startswith("indi.message")), "foreign_model": _et_model, "call_effect": eff, "max_while": 400, "max_for": 40, "max_steps": 400000, "max_depth": 12})
            except Undecided as u:
                res = ("undecided", f"processing the constant buffer {text[:40]!r} (threshold {th}) is not decided by constant evaluation: {u}", n)
                break
            ctx.paths_enumerated += len(paths)
            if len(paths) != 1 or "delivered" not in got and paths[0].outcome == "return":
                res = ("undecided", f"processing the constant buffer {text[:40]!r} (threshold {th}) is not decided by constant evaluation ({len(paths)} paths)", n)
                break
            want = e2e_oracle(text, th)
            if paths[0].outcome != "return":
                res = ("violated", f"processing the buffer {text[:60]!r} (threshold {th}) raises {show(paths[0].value)[:50] if paths[0].value is not None else ''}; expected deliveries {[w[:30] for w in want[0]]}", n)
                break
            if (got["delivered"], got["left"]) != want:
                res = ("violated", f"processing the buffer {text[:60]!r} (threshold {th}) delivers {[g[:30] for g in got['delivered']]} and retains {got['left'][:40]!r}; framing requires deliveries {[w[:30] for w in want[0]]} and retained text {want[1][:40]!r}", n)
                break
        if res is not None:
            break
    if res is None:
        res = ("holds", f"{n} buffer contents x thresholds processed end to end: deliveries and retained text as framing requires", n)
    ctx._e2e = res
    return res


def with_e2e_fallback(fn):
    """A rule that extends over all inputs through the buffer's helper roles: when this buffer is not organised into those
    roles, the rule is decided on the end-to-end catalogue instead (and says so)."""
    import functools

    @functools.wraps(fn)
    def w(ctx, rule, *a, **k):
        try:
            return fn(ctx, rule, *a, **k)
        except RolesUnknown as u:
            verdict, detail, n = process_e2e(ctx)
            f = buf_cls(ctx.p).find_method("process")
            if verdict == "holds":
                ctx.holds(rule, f.short, f"decided on the end-to-end catalogue only ({detail}); the extension to all inputs through the helper roles is not available for a buffer organised like this one ({u})", fi=f)
            elif verdict == "violated":
                ctx.violated(rule, f.short, detail, fi=f, text="e2e")
            else:
                ctx.undecided(rule, f.short, detail, fi=f)
    return w


check_progress = with_e2e_fallback(check_progress)
check_find_progress = with_e2e_fallback(check_find_progress)
check_guard = with_e2e_fallback(check_guard)
check_contain = with_e2e_fallback(check_contain)
check_bound = with_e2e_fallback(check_bound)
check_consume = with_e2e_fallback(check_consume)
check_discard = with_e2e_fallback(check_discard)
check_recover = with_e2e_fallback(check_recover)
check_find = with_e2e_fallback(check_find)
check_tags = with_e2e_fallback(check_tags)
