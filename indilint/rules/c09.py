"""C09 - switch properties always satisfy their rule."""
from __future__ import annotations

import ast
import itertools

from ..absint import Cls, Const, Dct, Fn, Interp, Lst, Obj, Term, Tup, explore, is_call, show
from ..model import Undecided, walk_no_nested
from .. import protocol_tables as T

EXPLANATION = (
    "The invariant is inductive: if every transition available to the property's operations goes through the rule function and has the "
    "effect the rule prescribes, every reachable state and every published update satisfies the rule. The check decides the induction "
    "step exhaustively over a finite abstract domain, by constant evaluation of the source (no execution): C09.STEP abstractly interprets "
    "the Switch value setter - with check_value_type, check_value, the vocabulary check and SwitchVector.apply_rule inlined - on an "
    "abstract vector of 3 switches for every rule x every configuration (2^3) x every written switch x {On, Off, invalid}, and compares "
    "the post-state with the oracle table (others cleared / forced back On iff no other On / unchanged), checks that the written switch "
    "is On after an On-write, that an invalid value raises before any store, and that the update is published after all stores. The abstract "
    "vector is built by interpreting the real definition and instance constructors, so auxiliary fields exist as the code initialises them. "
    "C09.REACH closes the step relation under write sequences: every reachable (switch values, auxiliary state) state is explored from all 8 "
    "initial configurations and each transition is compared with the rule table (a cached selection that goes stale is caught here). C09.BOOL: "
    "bool_value assigns On/Off through the value property. C09.BULK: the selected_value(s) setters are interpreted with everything "
    "inlined on the same domain (all subsets as selection) and the post-state must be the rule-consistent result of the equivalent "
    "sequence of single writes; unknown names raise before any change. C09.GATE: every store to an element's _value in the driver package "
    "lies in the setter, the rule function, __init__ or the documented reset_* functions, and nothing reachable from the operations calls "
    "reset_*. C09.WIRE: a client write reaches the element through set_value -> value property (C14.MSG). C09.SIZES: the same step table "
    "on constructed vectors of 1, 2 and 4 switches - the rule may not depend on the vector's size (a OneOfMany vector of one cannot be "
    "switched off). C09.VETO: 120 client writes through set_value with a handler model behind raise_event: when the Write handlers run "
    "nothing has changed yet, a vetoed write changes and publishes nothing, an accepted one follows the rule table - validation that has "
    "side effects (the switch rule lives in check_value) must not run before the veto is known."
)
NOT_DECIDED = "initial configurations (several default_on under OneOfMany); enumeration of whole histories is replaced by the induction."
ASSUMPTIONS = ["switch elements do not override __eq__ (identity in 'el != sender')", "a multi-element client write is applied element by element (decided by C06.KEY)"]
TRUSTED = ["CPython ast", "indilint abstract interpreter"]

ON, OFF = "On", "Off"
NAMES = ["A", "B", "C"]
KEYS = ["a", "b", "c"]  # attribute keys differ from wire names on purpose


def _classes(p):
    return (
        p.cls("indi.device.properties.instance.vectors.SwitchVector"),
        p.cls("indi.device.properties.instance.elements.Switch"),
    )


def _instantiate_policy(ci):
    return ci.module.name.startswith("indi.device.properties.") or ci.qualname == "indi.device.events.EventSourceDefinition"


_SWITCH_SRC = '''
from indi.device import Driver, properties


class DevA(Driver):
    grp = properties.Group(
        "GRP",
        vectors=dict(
            sw=properties.SwitchVector(
                "SW",
                rule={rule!r},
                elements=dict(
                    a=properties.Switch("A", default={a!r}),
                    b=properties.Switch("B", default={b!r}),
                    c=properties.Switch("C", default={c!r}),
                ),
            )
        ),
    )
'''


def make_world(p, rule, config, it=None):
    """Abstract switch vector of three elements inside a driver, all built by abstractly running the real machinery
    (definition constructors in a class body, the metaclass, Driver.__init__, the instance constructors), so that any
    field a constructor sets exists.  Objects are located through their public names."""
    from .driverworld import _reachable_objs, build_drivers
    if it is None:
        raise Undecided("make_world needs the interpreter")
    src = _SWITCH_SRC.format(rule=rule, a=config[0], b=config[1], c=config[2])
    saved_cw = it.opts.get("closed_world")
    it.opts["closed_world"] = True
    try:
        drivers = build_drivers(it, p, names=(("DevA", "DEVA"),), src=src)
    finally:
        if saved_cw is None:
            it.opts.pop("closed_world", None)
        else:
            it.opts["closed_world"] = saved_cw
    by = {o.label: o for o in _reachable_objs(drivers["DEVA"])}
    vec = by.get("vec:DEVA.SW")
    els = [by.get(f"el:DEVA.SW.{n}") for n in NAMES]
    if vec is None or any(e is None for e in els):
        raise Undecided("the constructed driver does not hold the switch vector SW with elements A, B, C")
    for e, n in zip(els, NAMES):
        e.label = f"sw{n}"
    vec.label = "vector"
    return vec, els


def make_world_n(p, rule, config, it):
    """Same as make_world for a vector of len(config) switches (1..4): the rule must not depend on the vector's size."""
    from .driverworld import _reachable_objs, build_drivers
    names = ["A", "B", "C", "D"][: len(config)]
    els_src = "\n".join(f"                    {n.lower()}=properties.Switch({n!r}, default={v!r})," for n, v in zip(names, config))
    src = _SWITCH_SRC.split("                elements=dict(")[0] + "                elements=dict(\n" + els_src + "\n                ),\n            )\n        ),\n    )\n"
    src = src.format(rule=rule)
    saved_cw = it.opts.get("closed_world")
    it.opts["closed_world"] = True
    try:
        drivers = build_drivers(it, p, names=(("DevA", "DEVA"),), src=src)
    finally:
        if saved_cw is None:
            it.opts.pop("closed_world", None)
        else:
            it.opts["closed_world"] = saved_cw
    by = {o.label: o for o in _reachable_objs(drivers["DEVA"])}
    vec = by.get("vec:DEVA.SW")
    els = [by.get(f"el:DEVA.SW.{n}") for n in names]
    if vec is None or any(e is None for e in els):
        raise Undecided(f"the constructed driver does not hold the switch vector SW with elements {names}")
    return vec, els


def oracle_step(rule, config, idx, written):
    cfg = list(config)
    others_on = any(v == ON for j, v in enumerate(cfg) if j != idx)
    cleared, result = T.SWITCH_EFFECT[(rule, written)]
    if cleared:
        cfg = [OFF] * len(cfg)
    if result == "On-iff-no-other-On":
        cfg[idx] = OFF if others_on else ON
    else:
        cfg[idx] = result
    return tuple(cfg)


def _inline_policy(p):
    sv, sw = _classes(p)
    el = p.cls("indi.device.properties.instance.elements.Element")

    def pol(fi, node):
        if fi.module.name == "indi.message.checks":
            return True
        if fi.cls in (sw, el) and fi.name in ("check_value", "check_value_type", "value", "bool_value", "name"):
            return True
        if fi.cls is sv and fi.name in ("apply_rule", "selected_values", "selected_value", "name"):
            return True
        return False

    return pol


def _value_field(p):
    from .common import backing_field
    return backing_field(p, "indi.device.properties.instance.elements.Element", "value")


VAL = None  # the element field behind the public 'value' property; discovered from the getter by _init


def _init(p):
    global VAL
    VAL = _value_field(p)


def _state(els):
    return tuple(show(e.attrs[VAL]).strip("'") for e in els)


def rule_step(ctx):
    p = ctx.p
    _init(p)
    sv, sw = _classes(p)
    setter = sw.find_setter("value")
    if setter is None:
        raise Undecided("Switch value setter not found")
    pol = _inline_policy(p)
    n = 0
    bad = 0
    for rule in ("OneOfMany", "AtMostOne", "AnyOfMany"):
        for config in itertools.product((ON, OFF), repeat=3):
            for idx in range(3):
                for written in (ON, OFF, "Maybe", None):
                    n += 1
                    holder = {}

                    def run(it: Interp):
                        vec, els = make_world(p, rule, config, it)
                        holder["els"] = els
                        it.els = els
                        return it.run_function(Fn(setter, els[idx]), [Const(written)], {})

                    paths = explore(p, run, {"inline": pol, "assert_forks": True, "max_depth": 8})
                    ctx.paths_enumerated += len(paths)
                    row = f"rule={rule} state={dict(zip(NAMES, config))} write {NAMES[idx]}={written}"
                    if len(paths) != 1:
                        ctx.undecided("C09.STEP", setter.short, f"{len(paths)} paths for a fully concrete row [{row}] (a condition was not decided by constant evaluation)", fi=setter)
                        bad += 1
                        continue
                    pa = paths[0]
                    after = _state(pa.interp.els)
                    if written not in (ON, OFF):
                        if pa.outcome != "raise":
                            ctx.violated("C09.STEP", setter.short, f"an invalid switch value {written!r} is accepted", fi=setter, text=f"invalid-accepted:{written}", witness=row)
                            bad += 1
                        elif after != tuple(config):
                            ctx.violated("C09.STEP", setter.short, "an invalid switch value changes state before it is rejected", fi=setter, text="invalid-partial", witness=row)
                            bad += 1
                        continue
                    if pa.outcome != "return":
                        ctx.violated("C09.STEP", setter.short, f"a valid write raises: {show(pa.value) if pa.value is not None else ''}", fi=setter, text=f"raises:{rule}:{written}", witness=row)
                        bad += 1
                        continue
                    exp = oracle_step(rule, config, idx, written)
                    if after != exp:
                        ctx.violated("C09.STEP", setter.short, f"[{row}] leaves {dict(zip(NAMES, after))}, the rule prescribes {dict(zip(NAMES, exp))}", fi=setter, text=f"effect:{rule}:{written}", witness=row)
                        bad += 1
                        continue
                    # publication after every store
                    stores = [e for e in pa.events if e.kind == "store" and e.data.get("attr") == VAL]
                    sends = pa.calls(method="send_message")
                    renders = pa.calls(method="to_set_message")
                    if len(sends) != 1 or len(renders) != 1 or (stores and renders[0].idx < max(s.idx for s in stores)):
                        ctx.violated("C09.STEP", setter.short, f"the update is not published exactly once after all switch stores (sends={len(sends)})", fi=setter, text="publish-order", witness=row)
                        bad += 1
                    if n % 97 == 1:
                        ctx.sample({"rule": "C09.STEP", "row": row, "after": dict(zip(NAMES, after))})
                    # a fault while the update is being published (a client connection failing) must not leave a
                    # rule-violating state behind either: same row, with the publication made to raise
                    fpaths = explore(p, run, {"inline": pol, "assert_forks": True, "max_depth": 8, "call_may_raise": lambda ev: "ConnectionError" if is_call(ev.data["term"], method="send_message") else None})
                    ctx.paths_enumerated += len(fpaths)
                    for fp in fpaths:
                        if fp.outcome != "raise":
                            continue
                        fafter = _state(fp.interp.els)
                        non, non_before = sum(1 for v in fafter if v == ON), sum(1 for v in config if v == ON)
                        broken = (rule == "OneOfMany" and non_before == 1 and non != 1) or (rule in ("OneOfMany", "AtMostOne") and non_before <= 1 and non > 1) or (rule == "AnyOfMany" and any(a != b for j, (a, b) in enumerate(zip(fafter, config)) if j != idx))
                        if broken:
                            ctx.violated("C09.STEP", setter.short, f"[{row}] with the publication failing leaves {dict(zip(NAMES, fafter))}: a delivery fault during the update leaves a state that violates the {rule} rule", fi=setter, text=f"fault:{rule}:{written}", witness=row + " ; send_message raises")
                            bad += 1
    ctx.counters["C09.STEP:rows"] = n
    if not bad:
        ctx.holds("C09.STEP", setter.short, f"{n} rows (3 rules x 8 states x 3 switches x 4 written values) agree with the rule table; publication after all stores", fi=setter)
    ctx.exhaustive_domains.append("3 rules x 2^3 configurations x 3 written switches x {On, Off, invalid, None}")


def rule_sizes(ctx):
    """The rule holds for vectors of every size, in particular the degenerate ones: a OneOfMany vector with a single
    switch cannot be switched off, an invalid value is rejected whatever the size."""
    p = ctx.p
    _init(p)
    sv, sw = _classes(p)
    setter = sw.find_setter("value")
    pol = _inline_policy(p)
    n = bad = 0
    for size in (1, 2, 4):
        for rule in ("OneOfMany", "AtMostOne", "AnyOfMany"):
            for config in itertools.product((ON, OFF), repeat=size):
                if size == 4 and sum(1 for v in config if v == ON) > 2:
                    continue
                for idx in range(size):
                    for written in (ON, OFF, "Maybe"):
                        n += 1

                        def run(it: Interp):
                            vec, els = make_world_n(p, rule, config, it)
                            it.els = els
                            return it.run_function(Fn(setter, els[idx]), [Const(written)], {})

                        paths = explore(p, run, {"inline": pol, "assert_forks": True, "max_depth": 8})
                        ctx.paths_enumerated += len(paths)
                        nm = ["A", "B", "C", "D"][:size]
                        row = f"{size}-switch vector rule={rule} state={dict(zip(nm, config))} write {nm[idx]}={written}"
                        if len(paths) != 1:
                            ctx.undecided("C09.SIZES", setter.short, f"{len(paths)} paths for a fully concrete row [{row}]", fi=setter)
                            bad += 1
                            continue
                        pa = paths[0]
                        after = _state(pa.interp.els)
                        if written not in (ON, OFF):
                            if pa.outcome != "raise" or after != tuple(config):
                                ctx.violated("C09.SIZES", setter.short, f"[{row}] an invalid switch value is accepted or changes state", fi=setter, text=f"invalid:{size}", witness=row)
                                bad += 1
                            continue
                        exp = oracle_step(rule, config, idx, written)
                        if pa.outcome != "return" or after != exp:
                            got = dict(zip(nm, after)) if pa.outcome == "return" else "an exception"
                            ctx.violated("C09.SIZES", setter.short, f"[{row}] leaves {got}, the rule prescribes {dict(zip(nm, exp))}", fi=setter, text=f"effect:{size}:{rule}:{written}", witness=row)
                            bad += 1
    ctx.counters["C09.SIZES:rows"] = n
    if not bad:
        ctx.holds("C09.SIZES", setter.short, f"{n} rows over vectors of 1, 2 and 4 switches agree with the rule table", fi=setter)
    ctx.exhaustive_domains.append("vector sizes 1, 2, 4 (<= 2 On) x 3 rules x configurations x written switch x {On, Off, invalid}")


def rule_veto(ctx):
    """A client write goes through set_value: the Write handlers run first and may veto.  Evaluated on the constructed
    vector with a handler model behind raise_event: (a) when the handler is entered nothing has changed yet - a handler
    that inspects the property sees the state before the write; (b) a vetoed write changes nothing and publishes nothing,
    so the rule cannot be broken by validation side effects that run before the veto is known."""
    p = ctx.p
    _init(p)
    sv, sw = _classes(p)
    el = p.cls("indi.device.properties.instance.elements.Element")
    f = sw.find_method("set_value")
    if f is None:
        raise Undecided("set_value not found")
    base_pol = _inline_policy(p)
    wcls = p.cls("indi.device.events.Write")

    def pol(fi, node):
        return base_pol(fi, node) or (fi.cls in (sw, el) and fi.name in ("set_value", "set_value_from_message")) or (fi.module.name == "indi.device.events" and fi.name == "__init__") or (fi.kind == "getter" and fi.module.name.startswith("indi.device.properties.instance"))

    n = bad = 0
    for rule in ("OneOfMany", "AtMostOne", "AnyOfMany"):
        for config in ((ON, OFF, OFF), (OFF, ON, OFF), (OFF, OFF, OFF), (ON, ON, OFF)):
            if rule != "AnyOfMany" and sum(1 for v in config if v == ON) > 1:
                continue
            for idx in range(3):
                for written in (ON, OFF):
                    for veto in (True, False):
                        n += 1

                        def effect(it, callee, args, kwargs, ev):
                            if callee.fi.name == "raise_event" and args and isinstance(args[0], Obj) and args[0].cls is wcls:
                                it.at_write = _state(it.els)
                                it.sent_before_write = len([e for e in it.events if e.kind == "call" and is_call(e.data["term"], method="send_message")])
                                if veto:
                                    args[0].attrs["prevent_default"] = Const(True)
                                return Const(None)
                            return None

                        def run(it: Interp):
                            vec, els = make_world(p, rule, config, it)
                            it.els = els
                            it.at_write = None
                            del it.events[:]
                            return it.run_function(Fn(f, els[idx]), [Const(written)], {})

                        paths = explore(p, run, {"inline": pol, "assert_forks": True, "max_depth": 9, "call_effect": effect, "instantiate": lambda ci: ci.module.name == "indi.device.events"})
                        ctx.paths_enumerated += len(paths)
                        row = f"rule={rule} state={dict(zip(NAMES, config))} client write {NAMES[idx]}={written}" + (" vetoed by a Write handler" if veto else "")
                        if len(paths) != 1 or paths[0].outcome != "return":
                            ctx.undecided("C09.VETO", f.short, f"[{row}] not decided by constant evaluation ({len(paths)} paths{'' if len(paths) != 1 else ', ' + paths[0].outcome})", fi=f)
                            bad += 1
                            continue
                        pa = paths[0]
                        if pa.interp.at_write is None:
                            ctx.violated("C09.VETO", f.short, f"[{row}] no Write event reaches the handlers", fi=f, text="no-write-event", witness=row)
                            bad += 1
                            continue
                        if pa.interp.at_write != tuple(config) or pa.interp.sent_before_write:
                            ctx.violated("C09.VETO", f.short, f"[{row}] when the Write handlers run the switches are already {dict(zip(NAMES, pa.interp.at_write))}: state changes before the handlers (and before a possible veto)", fi=f, text=f"changed-before-write:{rule}", witness=row)
                            bad += 1
                            continue
                        after = _state(pa.interp.els)
                        if veto:
                            if after != tuple(config) or pa.calls(method="send_message"):
                                ctx.violated("C09.VETO", f.short, f"[{row}] leaves {dict(zip(NAMES, after))}: a vetoed write must change and publish nothing", fi=f, text=f"veto-ignored:{rule}", witness=row)
                                bad += 1
                        else:
                            exp = oracle_step(rule, config, idx, written)
                            if after != exp:
                                ctx.violated("C09.VETO", f.short, f"[{row}] leaves {dict(zip(NAMES, after))}, the rule prescribes {dict(zip(NAMES, exp))}", fi=f, text=f"effect:{rule}:{written}", witness=row)
                                bad += 1
    ctx.counters["C09.VETO:rows"] = n
    if not bad:
        ctx.holds("C09.VETO", f.short, f"{n} client writes (vetoed and not): handlers see the state before the write; a veto leaves it untouched; otherwise the rule table", fi=f)


def _aux_state(vec, els):
    """Everything the vector/elements hold besides the switch values and the construction-time links."""
    skip = {VAL}  # construction-time links render as stable labels and never change
    out = []
    for o in [vec] + list(els):
        for k, v in sorted(o.attrs.items()):
            if k in skip or k.startswith("__"):
                continue
            out.append((o.label, k, show(v)))
    return tuple(out)


def rule_reach(ctx):
    """Reachable-state closure under single writes: every transition must follow the rule table.  Needed because the
    rule function may keep auxiliary state (e.g. a cached selection); the one-step check only sees constructed states."""
    p = ctx.p
    _init(p)
    sv, sw = _classes(p)
    setter = sw.find_setter("value")
    pol = _inline_policy(p)
    ops = [(i, w) for i in range(3) for w in (ON, OFF)]
    total_states = total_trans = 0
    bad = 0
    max_depth = 4 if ctx.tier == "thorough" else 3
    for rule in ("OneOfMany", "AtMostOne", "AnyOfMany"):
        seen = {}
        frontier = []
        for config in itertools.product((ON, OFF), repeat=3):
            frontier.append((config, ()))
        while frontier:
            config, seq = frontier.pop(0)
            for op in ([None] if not seq and (config, ()) not in seen else []) + ops:
                cand = seq + ((op,) if op is not None else ())
                if len(cand) > max_depth:
                    continue

                def run(it: Interp, config=config, cand=cand):
                    vec, els = make_world(p, rule, config, it)
                    it.els, it.vec = els, vec
                    it.trace = [(_state(els), _aux_state(vec, els))]
                    for (idx, w) in cand:
                        it.run_function(Fn(setter, els[idx]), [Const(w)], {})
                        it.trace.append((_state(els), _aux_state(vec, els)))
                    return Const(None)

                paths = explore(p, run, {"inline": pol, "assert_forks": True, "max_depth": 10})
                ctx.paths_enumerated += len(paths)
                if len(paths) != 1 or paths[0].outcome != "return":
                    why = f"{len(paths)} paths" if len(paths) != 1 else f"raises {show(paths[0].value)[:40]}"
                    ctx.undecided("C09.REACH", setter.short, f"write sequence {cand} from {config} under {rule} is not decided by constant evaluation ({why})", fi=setter)
                    bad += 1
                    continue
                tr = paths[0].interp.trace
                if cand:
                    pre, post = tr[-2][0], tr[-1][0]
                    idx, w = cand[-1]
                    total_trans += 1
                    exp = oracle_step(rule, pre, idx, w)
                    if post != exp:
                        ctx.violated("C09.REACH", setter.short, f"rule={rule}: from initial {dict(zip(NAMES, config))} the writes {[(NAMES[i], w_) for i, w_ in cand]} reach {dict(zip(NAMES, pre))} and then leave {dict(zip(NAMES, post))}; the rule prescribes {dict(zip(NAMES, exp))}", fi=setter, text=f"reach:{rule}:{w}", witness=f"{rule}: {config} then {[(NAMES[i], w_) for i, w_ in cand]}")
                        bad += 1
                        continue
                key = tr[-1]
                if key not in seen:
                    seen[key] = cand
                    if cand or True:
                        frontier.append((config, cand)) if cand else None
        total_states += len(seen)
    ctx.counters["C09.REACH:reachable (values, auxiliary) states"] = total_states
    ctx.counters["C09.REACH:transitions checked"] = total_trans
    if not bad:
        ctx.holds("C09.REACH", setter.short, f"{total_states} reachable (values, auxiliary-state) states, {total_trans} transitions (depth <= {max_depth}) all follow the rule table", fi=setter)
    ctx.exhaustive_domains.append("reachable-state closure per rule from all 8 initial configurations (sequence depth bounded)")


def rule_bool(ctx):
    p = ctx.p
    _init(p)
    sv, sw = _classes(p)
    f = sw.find_setter("bool_value")
    g = sw.find_getter("bool_value")
    if f is None or g is None:
        raise Undecided("bool_value property not found")
    ok = True
    for val, exp in ((Const(True), ON), (Const(False), OFF), (Const(1), ON), (Const(0), OFF)):
        def run(it: Interp):
            vec, els = make_world(p, "AnyOfMany", (OFF, OFF, OFF), it)
            return it.run_function(Fn(f, els[0]), [val], {})

        paths = explore(p, run, {"inline": lambda fi, node: False})
        for pa in paths:
            st = [e for e in pa.events if e.kind == "store"]
            if pa.outcome != "return" or len(st) != 1 or st[0].data.get("attr") != "value" or show(st[0].data["value"]) != repr(exp):
                ok = False
    ctx.check(ok, "C09.BOOL", f.short, "bool_value = x assigns On/Off through the value property", "bool_value does not assign exactly On (truthy) / Off (falsy) through the value property", fi=f, text="bool-setter")
    ok = True
    for v, exp in ((ON, True), (OFF, False)):
        def run(it: Interp):
            vec, els = make_world(p, "AnyOfMany", (v, OFF, OFF), it)
            return it.run_function(Fn(g, els[0]), [], {})

        paths = explore(p, run, {"inline": _inline_policy(p)})
        for pa in paths:
            t = pa.interp.truth_of(pa.value) if pa.outcome == "return" else None
            if t is not exp:
                ok = False
    ctx.check(ok, "C09.BOOL", g.short, "bool_value reads On as true", "bool_value getter does not map On/Off to true/false", fi=g, text="bool-getter")


def _apply_sequence(rule, config, ops):
    cfg = tuple(config)
    for idx, w in ops:
        cfg = oracle_step(rule, cfg, idx, w)
    return cfg


def rule_bulk(ctx):
    p = ctx.p
    _init(p)
    sv, sw = _classes(p)
    f = sv.find_setter("selected_values")
    f1 = sv.find_setter("selected_value")
    if f is None or f1 is None:
        raise Undecided("selected_value(s) setters not found")
    pol = _inline_policy(p)
    n = 0
    bad = 0
    for rule in ("OneOfMany", "AtMostOne", "AnyOfMany"):
        for config in itertools.product((ON, OFF), repeat=3):
            for r in range(0, 4):
                for sel in itertools.combinations(range(3), r):
                    for single in ((False, True) if len(sel) == 1 else (False,)):
                        n += 1
                        fn = f1 if single else f
                        arg = Const(NAMES[sel[0]]) if single else Lst([Const(NAMES[i]) for i in sel])

                        def run(it: Interp):
                            vec, els = make_world(p, rule, config, it)
                            it.els = els
                            return it.run_function(Fn(fn, vec), [arg], {})

                        paths = explore(p, run, {"inline": pol, "assert_forks": True, "max_depth": 10})
                        ctx.paths_enumerated += len(paths)
                        row = f"rule={rule} state={dict(zip(NAMES, config))} select {[NAMES[i] for i in sel]}" + (" (selected_value)" if single else "")
                        if len(paths) != 1:
                            ctx.undecided("C09.BULK", fn.short, f"{len(paths)} paths for concrete row [{row}]", fi=fn)
                            bad += 1
                            continue
                        pa = paths[0]
                        if pa.outcome != "return":
                            ctx.violated("C09.BULK", fn.short, f"bulk selection raises: {show(pa.value) if pa.value is not None else ''}", fi=fn, text=f"raises:{'single' if single else 'multi'}", witness=row)
                            bad += 1
                            continue
                        after = _state(pa.interp.els)
                        # equivalent sequence of single writes, in element order, only where the value differs
                        cfg = tuple(config)
                        for i in range(3):
                            want = ON if i in sel else OFF
                            if cfg[i] != want:
                                cfg = oracle_step(rule, cfg, i, want)
                        if after != cfg:
                            ctx.violated("C09.BULK", fn.short, f"[{row}] leaves {dict(zip(NAMES, after))}, expected {dict(zip(NAMES, cfg))} (every switch set to 'name in selection' through the rule)", fi=fn, text=f"effect:{rule}", witness=row)
                            bad += 1
            # unknown name
            def run(it: Interp):
                vec, els = make_world(p, rule, config, it)
                it.els = els
                return it.run_function(Fn(f, vec), [Lst([Const("A"), Const("NOPE")])], {})

            paths = explore(p, run, {"inline": pol, "assert_forks": True, "max_depth": 10})
            for pa in paths:
                if pa.outcome != "raise" or _state(pa.interp.els) != tuple(config):
                    ctx.violated("C09.BULK", f.short, "an unknown switch name does not raise before any change", fi=f, text="unknown-name", witness=f"rule={rule} select ['A','NOPE']")
                    bad += 1
    ctx.counters["C09.BULK:rows"] = n
    if not bad:
        ctx.holds("C09.BULK", f.short, f"{n} rows (3 rules x 8 states x all selections) equal the rule-consistent result", fi=f)
    g = sv.find_getter("selected_values")
    ok = True
    for config in itertools.product((ON, OFF), repeat=3):
        def run(it: Interp):
            vec, els = make_world(p, "AnyOfMany", config, it)
            return it.run_function(Fn(g, vec), [], {})

        paths = explore(p, run, {"inline": pol})
        for pa in paths:
            want = [n_ for n_, v in zip(NAMES, config) if v == ON]
            got = [x.v for x in pa.value.items] if pa.outcome == "return" and isinstance(pa.value, (Tup, Lst)) and all(isinstance(x, Const) for x in pa.value.items) else None
            if got != want:
                ok = False
    ctx.check(ok, "C09.BULK", g.short, "selected_values lists exactly the On switches by name", "selected_values getter does not list exactly the switches that are On", fi=g, text="getter")


def rule_gate(ctx):
    p = ctx.p
    _init(p)
    n = 0
    allowed = {
        ("Element", "__init__"), ("Element", "value"), ("Element", "reset_value"),
        ("Switch", "reset_bool_value"), ("SwitchVector", "apply_rule"),
    }
    # a private helper is inside the gate when every function that calls it is (helpers extracted from the setter)
    devfns = [fi for fi in p.functions if fi.module.name.startswith("indi.device")]

    def callers_of(name):
        # calls and references to the bound method (a strategy method picked first and called through a variable)
        return [g for g in devfns if g.name != name and any(isinstance(n_, ast.Attribute) and n_.attr == name and isinstance(n_.ctx, ast.Load) for n_ in ast.walk(g.node))]

    def inside(fi, depth=0):
        key = (fi.cls.name if fi.cls else None, fi.name)
        if key == ("Element", "value"):
            return fi.kind == "setter"
        if key in allowed:
            return True
        private_cls = fi.cls is not None and fi.cls.name.startswith("_") and not fi.cls.name.startswith("__")
        if depth < 4 and ((fi.name.startswith("_") and not fi.name.startswith("__")) or private_cls):
            cs = callers_of(fi.name)
            return bool(cs) and all(inside(g, depth + 1) for g in cs)
        return False

    for fi in p.functions:
        if not fi.module.name.startswith("indi.device"):
            continue
        for node in walk_no_nested(fi.node):
            if isinstance(node, (ast.Assign, ast.AugAssign, ast.AnnAssign)):
                tg = node.targets if isinstance(node, ast.Assign) else [node.target]
                for t in tg:
                    for sub in ast.walk(t):
                        if isinstance(sub, ast.Attribute) and sub.attr == VAL and isinstance(sub.ctx, ast.Store):
                            n += 1
                            ctx.check(inside(fi), "C09.GATE", fi.short, "store inside the gate", f"{fi.short} writes an element's _value outside the value setter / rule function: the switch rule is bypassed", fi=fi, node=node)
            if isinstance(node, ast.Call) and isinstance(node.func, ast.Name) and node.func.id == "setattr" and len(node.args) >= 2 and isinstance(node.args[1], ast.Constant) and node.args[1].value == VAL:
                n += 1
                ctx.violated("C09.GATE", fi.short, "setattr(..., '_value', ...) bypasses the switch rule", fi=fi, node=node)
    ctx.floor("C09.GATE", "_value stores", n, 2)
    # reset_* are not reachable from the property's operations
    ops = []
    sv, sw = _classes(p)
    el = p.cls("indi.device.properties.instance.elements.Element")
    vec = p.cls("indi.device.properties.instance.vectors.Vector")
    drv = p.cls("indi.device.driver.Driver")
    roots = [el.find_setter("value"), sw.find_setter("bool_value"), sv.find_setter("selected_value"), sv.find_setter("selected_values"), el.find_method("set_value"), el.find_method("set_value_from_message"), vec.find_method("from_new_message"), drv.find_method("message_from_client"), sv.find_method("apply_rule"), sw.find_method("check_value")]
    for r in roots:
        if r is None:
            raise Undecided("operation root not found")
        calls = [n_ for n_ in walk_no_nested(r.node) if isinstance(n_, ast.Call) and isinstance(n_.func, ast.Attribute) and n_.func.attr.startswith("reset_")]
        ctx.check(not calls, "C09.GATE", f"{r.short} !-> reset_*", "no reset_* call", f"{r.short} calls {calls and calls[0].func.attr}: a raw store becomes reachable from the property's operations", fi=r, text=f"reset:{r.name}")


# a client write addressed to one property reaches that property's switches (and no other vector's)
IMPORTS = [('C06', 'C06.KEY'), ('C07', 'C07.META')]  # C07.META: what is published shows every switch's own current state (no stale part)

RULES = [
    ("C09.STEP", rule_step, "induction step: every single write leaves the vector in the state the rule table prescribes; invalid values raise; publication after stores"),
    ("C09.SIZES", rule_sizes, "the same step table for vectors of 1, 2 and 4 switches (degenerate sizes included)"),
    ("C09.VETO", rule_veto, "client writes through set_value with a Write handler: pre-state at handler time, veto leaves everything untouched"),
    ("C09.REACH", rule_reach, "closure of reachable (values, auxiliary state) states under single writes: every transition follows the rule table"),
    ("C09.BOOL", rule_bool, "bool_value maps to On/Off through the value property"),
    ("C09.BULK", rule_bulk, "selected_value(s) setters = rule-consistent sequence of single writes over all elements"),
    ("C09.GATE", rule_gate, "no raw store to _value outside setter / rule function / __init__ / reset_*; reset_* unreachable from the operations"),
]
