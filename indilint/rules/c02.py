"""C02 - stream framing is lossless, ordered and independent of fragmentation."""
from __future__ import annotations

import ast

from ..absint import Const, Fn, Term, is_call, run_method, show
from ..model import Undecided
from . import bufferrules as B
from .common import receive_loops

EXPLANATION = (
    'Decides the structural skeleton of the framing contract. C02.LOOP: every receive loop (role query: async function under indi/transport '
    'awaiting read/readline inside a while) is enumerated; on every path from a non-empty read to the back edge there is exactly one '
    'buffer.append(chunk or total decode of it) followed by exactly one buffer.process(bound consumer), and the only exit is the empty-read '
    'break. C02.DECODE: every bytes<->text conversion on the wire uses a total single-byte codec (latin-1 aliases), so it can neither raise nor '
    'merge bytes across a chunk boundary. C02.APPEND: append writes exactly its argument once; the data setter/getter/length are exact. '
    'C02.CONSUME: on every path reaching the consumer the buffer was truncated by exactly the end of the parsed prefix (same term), once, before '
    'the call, with no modification in between. C02.DISCARD: the resynchroniser (identified by role: the innermost helper that consults the known '
    'start tags and truncates) is evaluated by the interpreter on a catalogue of 820 constant buffer contents (all concatenations of up to three '
    "pieces: junk, '<', '>', unknown and known start tags, attribute text, an end tag): what is left must be everything from the earliest known "
    "start tag, else from the last '<', else nothing; where the symbolic provenance analysis recognises the way the search is written it extends "
    'the statement to every input. Every other truncation inside process() must be explained: it cuts at the end of a prefix that the scan of the '
    "same iteration handed to the message parser, or it drops exactly one character, only after 'length > threshold' was established with the "
    "threshold enabled, and is followed by a resynchronisation. C02.TAGS: the known-tag list is computed from the parser's registry. Imported "
    'C11.RECOVER: a complete element that the message parser rejects is removed by exactly its own length (nothing of the message behind it is '
    'lost). C02.AUX: the scan depends on the buffer text alone; any cached scan attribute must be re-initialised after every truncation on every '
    'path (a stale resume offset makes delivery depend on where the stream was cut).'
    " C02.TRUTHY: if the framing loop tests the parsed message for truthiness, no message class may define __bool__/__len__ (a message that is falsy - e.g. one without children - would be discarded as 'no message')."
    " C02.FIND: the scan for a complete element is evaluated on 22 constant buffer contents (quotes and '>' in character data and attribute values, comments, CDATA, incomplete elements; ElementTree.fromstring on a constant is folded with the standard library's parser): it must hand exactly the first well-formed prefix to the message parser and report its end, or nothing while the element is incomplete - no '>' candidate may be passed over. C02.OWN: two connection objects of every transport class, constructed one after the other in one interpreter state (parameter defaults evaluated once, as Python does), never share a receive buffer."
)
NOT_DECIDED = "that the 'parse every >-terminated prefix' test is right for every XML spelling and partition (expat's behaviour on prefixes)."
ASSUMPTIONS = ["latin-1 decoding is total and byte-wise", "StringIO.write appends when the stream is never repositioned (checked: no seek/read)"]
TRUSTED = ["CPython ast", "indilint abstract interpreter"]


def rule_loop(ctx):
    p = ctx.p
    loops = receive_loops(p)
    ctx.floor("C02.LOOP", "receive loops", len(loops), 3)
    for L in loops:
        fi, wh = L
        paths = run_method(p, fi, self_val=L.self_val, opts={"max_while": 2})
        ctx.paths_enumerated += len(paths)
        bad = False
        nseg = 0
        for pa in paths:
            if pa.outcome == "raise":
                ctx.violated("C02.LOOP", L.short, "the receive loop raises by itself", fi=fi, text="raises")
                bad = True
                continue
            cur = None
            seg = []
            for e in pa.events:
                if e.kind == "loop-iter" and e.fn is fi:
                    cur, seg = e.data["it"], []
                    continue
                if e.kind in ("loop-back", "loop-exit") and e.fn is fi and cur is not None:
                    nseg += 1
                    # suspension points of the iteration (an await of an inlined private helper is not one itself)
                    reads = [x for x in seg if x.kind == "await" and not (isinstance(x.data["value"], Term) and x.data["value"].op == "awaited-result")]
                    apps = [x for x in seg if x.kind == "call" and is_call(x.data["term"], method="append") and "buffer" in show(x.data["term"].args[0])]
                    procs = [x for x in seg if x.kind == "call" and is_call(x.data["term"], method="process") and "buffer" in show(x.data["term"].args[0])]
                    empty = [x for x in seg if x.kind == "assume" and isinstance(x.data["cond"], Term) and x.data["cond"].op == "await"]
                    if e.kind == "loop-exit":
                        if e.data["how"] == "break":
                            if not (empty and not empty[0].data["truth"]) or apps or procs:
                                ctx.violated("C02.LOOP", L.short, "the receive loop is left other than on an empty read (or after buffering data)", fi=fi, text="exit")
                                bad = True
                        cur = None
                        continue
                    if len(reads) != 1:
                        ctx.violated("C02.LOOP", L.short, f"{len(reads)} reads in one iteration", fi=fi, text="reads")
                        bad = True
                    chunk = reads[0].data["value"] if reads else None
                    if len(apps) != 1 or len(procs) != 1 or apps[0].idx > procs[0].idx:
                        ctx.violated("C02.LOOP", L.short, f"a received chunk is followed by {len(apps)} buffer.append and {len(procs)} buffer.process calls (expected exactly one of each, in that order): data is lost, duplicated or delivered late", fi=fi, text=f"append-process:{len(apps)}:{len(procs)}")
                        bad = True
                    else:
                        a = apps[0].data["args"][0] if apps[0].data["args"] else None
                        s = show(a) if a is not None else ""
                        base = s.split(".decode(")[0]
                        okarg = a is not None and (base == "await " + show(chunk) or base == "(await " + show(chunk) + ")") if chunk is not None else False
                        if not okarg:
                            ctx.violated("C02.LOOP", L.short, f"what is appended ({s[:60]}) is not the chunk that was read", fi=fi, text="append-arg")
                            bad = True
                        cbarg = procs[0].data["args"][0] if procs[0].data["args"] else None
                        if not (isinstance(cbarg, Fn) and show(cbarg.self_val) == "self"):
                            ctx.violated("C02.LOOP", L.short, f"buffer.process is not given a bound consumer of this connection: {show(cbarg)[:40] if cbarg is not None else None}", fi=fi, text="consumer")
                            bad = True
                    conds = [x for x in seg if x.kind == "assume" and not (isinstance(x.data["cond"], Term) and x.data["cond"].op == "await")]
                    if conds:
                        ctx.violated("C02.LOOP", L.short, f"buffering/processing of a chunk is conditional on {show(conds[0].data['cond'])[:60]}", fi=fi, text=f"conditional:{show(conds[0].data['cond'])[:30]}")
                        bad = True
                    cur = None
                    continue
                if cur is not None:
                    seg.append(e)
        if nseg == 0:
            ctx.undecided("C02.LOOP", L.short, "no loop iteration explored", fi=fi)
        elif not bad:
            ctx.holds("C02.LOOP", L.short, f"{nseg} iteration segments: read -> append(chunk) -> process(consumer); exit only on empty read", fi=fi)


def rule_decode(ctx):
    p = ctx.p
    n = 0
    for fi in p.functions:
        if not fi.module.name.startswith("indi.transport"):
            continue
        for node in ast.walk(fi.node):
            if isinstance(node, ast.Call) and isinstance(node.func, ast.Attribute) and node.func.attr in ("decode", "encode"):
                n += 1
                codec = None

                def const_of(e_):
                    if isinstance(e_, ast.Constant):
                        return e_.value
                    v_ = p.const_value(fi.module, e_)  # a module-level constant such as ENCODING = "latin1"
                    return v_ if isinstance(v_, str) else None

                if node.args:
                    codec = const_of(node.args[0])
                for k in node.keywords:
                    if k.arg == "encoding":
                        codec = const_of(k.value)
                ok = isinstance(codec, str) and codec.lower() in B.LATIN1
                ctx.check(ok, "C02.DECODE", fi.short, f"codec {codec!r} is total and byte-wise", f"the wire codec is {codec!r}: a multi-byte or partial codec can raise on some byte strings and makes decoding depend on where the stream is cut", fi=fi, node=node)
    ctx.floor("C02.DECODE", "codec call sites", n, 3)


def rule_append(ctx):
    B.check_append(ctx, "C02.APPEND")


def rule_consume(ctx):
    B.check_consume(ctx, "C02.CONSUME")


def rule_discard(ctx):
    B.check_discard(ctx, "C02.DISCARD")


def rule_truthy(ctx):
    """Buffer.process decides 'was a message parsed?' by the truthiness of what the scan returned.  That is only right if
    every protocol message object is truthy: a message class (or a base) that defines __bool__ or __len__ - say, 'a vector is
    a sized container of its parts' - makes some well-formed messages (a vector without children) falsy, and the buffer
    silently discards them."""
    from .common import concrete_message_classes, msg_base
    p = ctx.p
    tested = False
    try:
        f, paths = B.explore_process(ctx)
        for pa in paths:
            for e in pa.assumes():
                c = e.data["cond"]
                if isinstance(c, Term) and B.parsed_prefix(c) is not None:
                    tested = True  # 'if message:' / 'if not message:' on the parsed message itself
    except B.RolesUnknown:
        # a buffer organised differently: assume it may test the parsed message for truthiness (every shape so far did)
        tested = True
    # the sending side has the same idiom: Driver.send_message(msg) forwards 'if ... and msg'
    sm = p.cls("indi.device.driver.Driver").find_method("send_message")
    sender_tested = False
    if sm is not None:
        pname = sm.params()[1] if len(sm.params()) > 1 else None
        for pa in run_method(p, sm):
            for e in pa.assumes():
                c = e.data["cond"]
                if isinstance(c, Term) and c.op == "param" and c.args[0] == pname:
                    sender_tested = True
    where = " and ".join(filter(None, ["Buffer.process tests the parsed message for truthiness and discards it instead of delivering it" if tested else "", "Driver.send_message tests the message for truthiness and silently does not send it" if sender_tested else ""]))
    tested = tested or sender_tested
    base = msg_base(p)
    bad = []
    for ci in concrete_message_classes(p):
        for k in ci.mro:
            if k.module.name.startswith("indi.") and any(d in k.methods for d in ("__bool__", "__len__")):
                bad.append((ci, k))
                break
    if bad and tested:
        ci, k = bad[0]
        ctx.violated("C02.TRUTHY", ci.short, f"{k.name} defines {'__bool__' if '__bool__' in k.methods else '__len__'}: a well-formed <{ci.name[0].lower() + ci.name[1:]}> can be falsy (e.g. the definition of a property all of whose elements are disabled), and {where} ({len(bad)} message classes affected)", ci=k, text=f"falsy-message:{k.name}", witness=f"{ci.name} without children")
    elif bad:
        ctx.holds("C02.TRUTHY", base.short, "some message classes define __bool__/__len__, but the buffer does not test parsed messages for truthiness", ci=base)
    else:
        ctx.holds("C02.TRUTHY", base.short, f"no message class defines __bool__/__len__: every parsed message is truthy (the buffer's 'message found' test {'relies on it' if tested else 'does not even rely on it'})", ci=base)


def rule_tags(ctx):
    B.check_tags(ctx, "C02.TAGS")


def rule_aux(ctx):
    B.check_aux(ctx, "C02.AUX")


# a rejected complete element must be removed by exactly its own length, or characters of the message behind it are lost
IMPORTS = [('C11', 'C11.RECOVER')]

def rule_find(ctx):
    B.check_find(ctx, "C02.FIND")


def rule_e2e(ctx):
    """Shape-independent: Buffer.process as a whole on the end-to-end catalogue (see bufferrules.process_e2e)."""
    verdict, detail, n = B.process_e2e(ctx)
    f = B.buf_cls(ctx.p).find_method("process")
    ctx.counters["C02.E2E:buffer contents x thresholds"] = n
    if verdict == "holds":
        ctx.holds("C02.E2E", f.short, detail, fi=f)
    elif verdict == "violated":
        ctx.violated("C02.E2E", f.short, detail, fi=f, text="e2e")
    else:
        ctx.undecided("C02.E2E", f.short, detail, fi=f)


def rule_own(ctx):
    B.check_own_buffer(ctx, "C02.OWN")


EXPLANATION = EXPLANATION + " C02.APPEND's operation sequences include pieces that are nothing but a line break or a blank (where the stream is cut must not matter)."

EXPLANATION = EXPLANATION + " When a buffer is not organised into the helper roles (scan / resynchroniser / frontal drop) through which the symbolic rules extend over all inputs, those rules are decided on an end-to-end catalogue instead and say so: Buffer.process as a whole is evaluated on 30 constant buffer contents x 3 thresholds (valid messages, junk before/between/after, unknown and partial elements, unclosed junk beyond the threshold, quotes and '>' in text, multi-line spellings) and compared with a reference written from the property."

EXPLANATION = EXPLANATION + " C02.E2E: that end-to-end catalogue is also evaluated on every run, whatever the shape of the buffer: deliveries (which prefixes, in which order) and the text retained afterwards must be what framing requires."

RULES = [
    ("C02.E2E", rule_e2e, "Buffer.process as a whole on 30 constant buffer contents x 3 thresholds: deliveries and retained text as framing requires"),
    ("C02.OWN", rule_own, "every connection object constructs its own receive buffer (no buffer shared through a default argument / class attribute)"),
    ("C02.FIND", rule_find, "the scan for a complete element, on constant buffers: exactly the first well-formed prefix is parsed; no '>' candidate is passed over"),
    ("C02.LOOP", rule_loop, "receive loops: read -> exactly one append(chunk) -> exactly one process(consumer); exit only on empty read"),
    ("C02.DECODE", rule_decode, "wire codec is a total single-byte codec"),
    ("C02.APPEND", rule_append, "append / data setter / getter / length are exact"),
    ("C02.CONSUME", rule_consume, "exact-prefix consumption, once, before the consumer"),
    ("C02.DISCARD", rule_discard, "provenance of every other truncation (earliest tag / last '<' / empty / one char under threshold guard)"),
    ("C02.TRUTHY", rule_truthy, "every message object is truthy (the buffer tests the parsed message for truthiness)"),
    ("C02.TAGS", rule_tags, "known tags computed from the parser's registry"),
    ("C02.AUX", rule_aux, "no cached scan state, or it is re-initialised after every truncation of the buffer on every path"),
]
