"""C07 - getProperties is answered with exactly the definitions asked for; every emitted message re-parses."""
from __future__ import annotations

from ..absint import Builtin, Cls, Const, Dct, Fn, Interp, Lst, Obj, Term, Tup, explore, is_call, mentions, run_method, show, subterms
from ..model import ClassInfo, Undecided, UNKNOWN
from .common import abstract_construct, lower_first, sym, is_sym
from .driverworld import IE, IV, _reachable_objs, build_drivers, make_driver, make_vector

EXPLANATION = (
    'C07.META: on a driver constructed from an analysis-only definition with three properties whose every metadata field is pairwise distinct, '
    'and whose state and element values were moved away from the declared defaults through the public setters, every '
    "to_def_message/to_set_message (five kinds) is evaluated: each message field and each part carries the property's / element's own current "
    'value (device, name, label, group, state, perm, timeout, rule; element name, label, format/min/max/step, the value - numbers rendered as '
    'num_to_str(own value, own format)). C07.BRANCH: Driver.message_from_client is abstractly interpreted on two drivers constructed in one '
    'interpreter state (class-level objects are shared in the model as in Python) for getProperties with name in {absent, empty, existing, '
    'unknown, prefix, other case, only on the other driver}: the definitions sent must be exactly those of all properties of the addressed driver '
    '(absent/empty name) or of the named one, each once, in table order, and nothing for an unknown name; Driver.send_message drops None and '
    'routes anything else once with the driver as sender. C07.DISABLED: every to_def_message/to_set_message implementation is evaluated on a '
    'property constructed for each (vector enabled, group enabled) in {T,F}^2 with one disabled element: a disabled property answers with '
    'delProperty(device, name) / no update, an enabled one with its message listing exactly its enabled elements in order. C07.EMIT: every '
    "constructor call of a message or part class made by the driver's emitters is checked, per concrete class binding, against the effective "
    'constructor signature: all required parameters supplied; every keyword reaches a named parameter (not **junk); no *required* XML attribute '
    "can receive None (to_xml omits None, the re-parse would fail) - nullability comes from the definition classes' defaults, computed by "
    'abstract construction; the value= argument is a wire scalar, not a values.BLOB object. C07.SIBLING: the keyword sets of the three definition '
    'emitters and the two update emitters agree up to the parameters their message class lacks.'
    ' C07.META evaluates every property under three histories (value set; set, rendered, then refreshed with reset_value; set, rendered, then set again): anything a renderer memoises must follow the current value.'
    " C07.ADDRESS: for a constructed Driver and a constructed Proxy subclass (whose accepts() is a catch-all because it forwards), the router's test accepts(name) followed by the device's own message_from_client elicits definitions only for requests that name no device or this device (5 names each)."
)
NOT_DECIDED = "values in every reachable state (data); that is covered for numbers by C10 and for BLOBs by C08."
ASSUMPTIONS = ["to_xml omits None attributes and writes str() of the others (decided by C03.WRITE)", "router addressing decides which devices see the request (C04)"]
TRUSTED = ["CPython ast", "indilint abstract interpreter"]

KINDS = ("Number", "Text", "Switch", "Light", "BLOB")


def _drv_method(p, name):
    return p.cls("indi.device.driver.Driver").find_method(name)


def rule_branch(ctx):
    p = ctx.p
    from .driverworld import build_drivers
    f = _drv_method(p, "message_from_client")
    gp = p.cls("indi.message.get_properties.GetProperties")
    # two drivers in one process (built by interpreting the real constructors); requests go to DEVA
    own = ["V1", "V2", "V22", "V3", "V4", "V5"]  # V5 is declared disabled: it answers (with delProperty), it is not skipped
    cases = [(None, own), ("", own), ("V2", ["V2"]), ("NOPE", []), ("V3", ["V3"]), ("V", []), ("v2", []), ("V22", ["V22"]), ("W9", [])]
    bad = False
    for name, expect in cases:
        def run(it: Interp):
            drivers = build_drivers(it, p)
            it.drivers = drivers
            msg = Obj(gp, {"device": Const("DEVA"), "name": Const(name), "version": Const("1.7"), "__closed__": Const(True)}, label="getProperties")
            return it.run_function(Fn(f, drivers["DEVA"]), [msg], {})

        paths = explore(p, run, {"inline": lambda fi, node: False})
        ctx.paths_enumerated += len(paths)
        if len(paths) != 1:
            ctx.undecided("C07.BRANCH", f.short, f"getProperties(name={name!r}) not decided by constant evaluation ({len(paths)} paths)", fi=f)
            bad = True
            continue
        for pa in paths:
            if pa.outcome != "return":
                ctx.violated("C07.BRANCH", f.short, f"getProperties(name={name!r}) raises: {show(pa.value) if pa.value is not None else ''}", fi=f, text=f"raises:{name}")
                bad = True
                continue
            sends = pa.calls(method="send_message")
            got = []
            for e in sends:
                a = e.data["args"][0] if e.data["args"] else None
                if isinstance(a, Term) and is_call(a, method="to_def_message") and isinstance(a.args[0], Fn):
                    got.append(show(a.args[0].self_val).replace("vec:", ""))
                else:
                    got.append(f"?{show(a)[:30] if a is not None else None}")
            want = [f"DEVA.{v}" for v in expect]
            if got != want:
                ctx.violated("C07.BRANCH", f.short, f"getProperties(device=DEVA, name={name!r}) is answered by DEVA with definitions of {got}, expected {want} (a second driver DEVB with properties V1, W9 exists in the same process)", fi=f, text=f"answer:{name}:{got}", witness=f"drivers DEVA(V1,V2,V22,V3,V4,V5) and DEVB(V1,W9); <getProperties device='DEVA' name={name!r}>")
                bad = True
    if not bad:
        ctx.holds("C07.BRANCH", f.short, f"{len(cases)} request shapes answered with exactly the requested definitions of the addressed driver (two drivers constructed in one process)", fi=f)
    # send_message drops None and forwards everything else with the driver as sender
    sm = _drv_method(p, "send_message")
    for arg, expect_calls in ((Const(None), 0), (Obj(None, label="<msg>"), 1)):
        def run(it: Interp):
            drv = build_drivers(it, p, names=(("DevA", "DEVA"),), router=Obj(None, label="<router>"))["DEVA"]
            it.drv = drv
            return it.run_function(Fn(sm, drv), [arg], {})

        paths = explore(p, run, {"inline": lambda fi, node: False})
        ok = all(pa.outcome == "return" and len(pa.calls(method="process_message")) == expect_calls for pa in paths)
        if expect_calls:
            for pa in paths:
                for e in pa.calls(method="process_message"):
                    a = e.data["args"]
                    if not (len(a) == 2 and a[0] is arg and a[1] is pa.interp.drv):
                        ok = False
        ctx.check(ok, "C07.BRANCH", f"{sm.short}[{'None' if expect_calls == 0 else 'message'}]", "None dropped / message routed with the driver as sender", "Driver.send_message does not drop None / route the message with itself as sender exactly once", fi=sm, text=f"send:{expect_calls}")


_ADDR_SRC = '''
from indi.device import Driver, properties
from indi.device.proxy import Proxy


class DevA(Driver):
    grp = properties.Group("GRP", vectors=dict(v1=properties.TextVector("V1", elements=dict(a=properties.Text("A")))))


class Rem(Proxy):
    address = "remote.example"
'''


def rule_address(ctx):
    """Who answers a getProperties is decided by the router's test (device.accepts(name)) followed by the device's own
    handling: for every device class of the library - the plain Driver and the Proxy, whose accepts() is a catch-all
    because it forwards everything - a definition is elicited only by a request that names no device or this device."""
    p = ctx.p
    from .driverworld import build_drivers
    gp = p.cls("indi.message.get_properties.GetProperties")
    bad = False
    n = 0
    for target, dname in (("DevA", "DEVA"), ("Rem", "REMOTE")):
        for device in (None, "DEVA", "REMOTE", "NOPE", ""):
            n += 1

            def run(it: Interp):
                drivers = build_drivers(it, p, names=(("DevA", "DEVA"), ("Rem", "REMOTE")), src=_ADDR_SRC, extra_classes=("indi.device.proxy.Proxy",))
                d = drivers[dname]
                msg = Obj(gp, {"device": Const(device), "name": Const(None), "version": Const("1.7"), "__closed__": Const(True)}, label="getProperties")
                acc = it.run_function(Fn(d.cls.find_method("accepts"), d), [Const(device)], {})
                t = it.truth_of(acc)
                if t is None:
                    raise Undecided(f"{d.cls.name}.accepts({device!r}) not decided")
                del it.events[:]
                if t:
                    it.run_function(Fn(d.cls.find_method("message_from_client"), d), [msg], {})
                return Const(None)

            paths = explore(p, run, {"inline": lambda fi, node: (fi.name in ("accepts", "message_from_client") or fi.kind == "getter") and fi.module.name.startswith("indi.device")})
            ctx.paths_enumerated += len(paths)
            f = p.cls("indi.device.proxy.Proxy" if target == "Rem" else "indi.device.driver.Driver").find_method("message_from_client")
            if len(paths) != 1 or paths[0].outcome != "return":
                ctx.undecided("C07.ADDRESS", f.short, f"getProperties(device={device!r}) to {dname} not decided by constant evaluation ({len(paths)} paths)", fi=f)
                bad = True
                continue
            defs = [e for e in paths[0].calls(method="send_message") if e.data["args"] and is_call(e.data["args"][0], method="to_def_message")]
            want = device is None or device == dname
            if bool(defs) != want:
                what = f"answers with {len(defs)} definition(s)" if defs else "stays silent"
                ctx.violated("C07.ADDRESS", f.short, f"a getProperties naming device {device!r} reaches {dname} ({'a Proxy' if target == 'Rem' else 'a Driver'}) and it {what}; a definition is due " + ("exactly" if want else "only") + " when the request names no device or this device", fi=f, text=f"address:{target}:{device}", witness=f"<getProperties device={device!r}> with devices DEVA (Driver) and REMOTE (Proxy)")
                bad = True
    if not bad:
        ctx.holds("C07.ADDRESS", "Driver / Proxy", f"{n} (device class x addressed name) cases: definitions only from the device that is addressed (or from all when no device is named)")


def _inline_getters(p):
    def pol(fi, node):
        return fi.kind == "getter" and fi.module.name.startswith("indi.device") and fi.name in ("enabled", "group", "device", "name")
    return pol


_DISABLED_SRC = '''
from indi.device import Driver, properties


class DevA(Driver):
    grp = properties.Group(
        "GRP",
        enabled={gen},
        vectors=dict(
            v=properties.{kind}Vector(
                "V1",
                enabled={ven},
                elements=dict(a=properties.{kind}("A"), b=properties.{kind}("B", enabled=False), c=properties.{kind}("C")),
            )
        ),
    )
'''


def rule_disabled(ctx):
    p = ctx.p
    n = 0
    for kind in KINDS:
        vcls = p.cls(f"{IV}.{kind}Vector")
        for meth in ("to_def_message", "to_set_message"):
            f = vcls.find_method(meth)
            inst = f"{f.short}[{kind}Vector]"
            bad = False
            for ven in (True, False):
                for gen in (True, False):
                    n += 1

                    src = _DISABLED_SRC.format(kind=kind, ven=ven, gen=gen)

                    def run(it: Interp):
                        drivers = build_drivers(it, p, names=(("DevA", "DEVA"),), src=src)
                        vec = [o for o in _reachable_objs(drivers["DEVA"]) if o.label == "vec:DEVA.V1"]
                        if len(vec) != 1:
                            raise Undecided("constructed driver does not hold exactly one vector V1")
                        return it.run_function(Fn(f, vec[0]), [], {})

                    paths = explore(p, run, {"inline": _inline_getters(p)})
                    ctx.paths_enumerated += len(paths)
                    for pa in paths:
                        row = f"vector enabled={ven} group enabled={gen}"
                        if pa.outcome != "return":
                            ctx.violated("C07.DISABLED", inst, f"{meth} raises for [{row}]", fi=f, text=f"raises:{ven}:{gen}")
                            bad = True
                            continue
                        v = pa.value
                        on = ven and gen
                        if not on:
                            if meth == "to_set_message":
                                if not (isinstance(v, Const) and v.v is None):
                                    ctx.violated("C07.DISABLED", inst, f"a disabled property still renders an update ({show(v)[:50]}) for [{row}]", fi=f, text="set-when-disabled", witness=row)
                                    bad = True
                            else:
                                okd = isinstance(v, Term) and v.op == "call" and isinstance(v.args[0], Cls) and v.args[0].ci.name == "DelProperty"
                                kw = dict((k, x) for k, x in v.args[2]) if okd else {}
                                if not okd or show(kw.get("device", Const(0))) != "'DEVA'" or show(kw.get("name", Const(0))) != "'V1'":
                                    ctx.violated("C07.DISABLED", inst, f"a disabled property is answered with {show(v)[:60]} instead of delProperty(device, name) for [{row}]", fi=f, text="def-when-disabled", witness=row)
                                    bad = True
                            continue
                        want_cls = p.class_constant(vcls, "def_message_class" if meth == "to_def_message" else "set_message_class")
                        if not (isinstance(v, Term) and v.op == "call" and isinstance(v.args[0], Cls) and v.args[0].ci is want_cls):
                            ctx.violated("C07.DISABLED", inst, f"an enabled property renders {show(v)[:60]} instead of {getattr(want_cls, 'name', want_cls)}", fi=f, text="wrong-class")
                            bad = True
                            continue
                        kw = dict((k, x) for k, x in v.args[2])
                        ch = kw.get("children")
                        part_meth = meth
                        items = ch.items if isinstance(ch, (Lst, Tup)) else None
                        got = []
                        if items is not None:
                            for x in items:
                                if isinstance(x, Term) and is_call(x, method=part_meth) and isinstance(x.args[0], Fn):
                                    got.append(show(x.args[0].self_val))
                                else:
                                    got.append("?")
                        if got != ["el:DEVA.V1.A", "el:DEVA.V1.C"]:
                            ctx.violated("C07.DISABLED", inst, f"children are {got if items is not None else show(ch)[:40]}, expected the enabled elements A and C in order (B is disabled)", fi=f, text="children", witness=row)
                            bad = True
                        if show(kw.get("device", Const(0))) != "'DEVA'" or show(kw.get("name", Const(0))) != "'V1'" or show(kw.get("state", Const(0))) != "'Ok'":
                            ctx.violated("C07.DISABLED", inst, f"device/name/state are not the vector's own: {show(v)[:80]}", fi=f, text="identity")
                            bad = True
            if not bad:
                ctx.holds("C07.DISABLED", inst, "delProperty / None when vector or group is disabled; otherwise its message with exactly the enabled elements in order", fi=f)
    ctx.counters["C07.DISABLED:evaluations"] = n


# ----------------------------------------------------------------------------- EMIT
def _definition_nullability(ctx):
    """For each definition class: attributes that are None when the optional constructor arguments are omitted."""
    p = ctx.p
    out = {}
    for modname in ("indi.device.properties.definition.elements", "indi.device.properties.definition.vectors", "indi.device.properties.definition.group"):
        for ci in p.module(modname).classes.values():
            sig = p.init_chain_signature(ci)
            kw = {n_: sym(n_) for n_ in sig.required()}
            if "elements" in sig.named():
                kw["elements"] = Dct([(Const("x"), Obj(None, label="<el>"))])
            try:
                res = abstract_construct(p, ci, kw, inline_prefixes=("indi.device.properties.definition.", "indi.device.events."), extra_opts={"closed_world": False})
            except Undecided:
                continue
            nullable = set()
            attrs = set()
            for pa, o in res:
                if pa.outcome != "return" or o is None:
                    continue
                for k, v in o.attrs.items():
                    attrs.add(k)
                    if isinstance(v, Const) and v.v is None:
                        nullable.add(k)
            out[ci.qualname] = (attrs, nullable)
    return out


def _definition_class_for(p, inst_ci: ClassInfo):
    for modname in ("indi.device.properties.definition.elements", "indi.device.properties.definition.vectors"):
        for ci in p.module(modname).classes.values():
            v = p.class_constant(ci, "instance_class")
            if v is inst_ci:
                return ci
    return None


def _nullable_arg(v, defn_null, value_types):
    """May this argument term be None?  (None literal; a definition attribute whose default is None)"""
    if isinstance(v, Const):
        return v.v is None
    if isinstance(v, Term) and v.op == "attr" and isinstance(v.args[0], Term) and v.args[0].op == "attr" and v.args[0].args[1] == "_definition":
        return v.args[1] in defn_null
    return False


def _check_ctor_call(ctx, rule, inst, f, call_term, defn_null, value_types, part: bool):
    p = ctx.p
    ci = call_term.args[0].ci
    sig = p.init_chain_signature(ci)
    named = sig.named()
    kws = [(k, x) for k, x in call_term.args[2]]
    ok = True
    if call_term.args[1]:
        ctx.undecided(rule, inst, "positional arguments at an emit site", fi=f)
        return False
    given = {k for k, _ in kws if k}
    for r in sig.required():
        if r not in given:
            ctx.violated(rule, inst, f"{ci.name}(...) is called without the required parameter '{r}': TypeError at emit time", fi=f, text=f"{ci.name}:missing:{r}", witness=f"{ci.name}({', '.join(sorted(given))})")
            ok = False
    for k, x in kws:
        if k is None:
            ctx.undecided(rule, inst, "**kwargs at an emit site", fi=f)
            ok = False
            continue
        if k not in named:
            ctx.violated(rule, inst, f"keyword '{k}' does not reach a parameter of {ci.name} (it is swallowed by **junk and never reaches the wire)", fi=f, text=f"{ci.name}:junk:{k}")
            ok = False
            continue
        prm = named[k]
        if prm.required and k not in ("value", "children") and _nullable_arg(x, defn_null, value_types):
            ctx.violated(rule, inst, f"required XML attribute '{k}' of <{lower_first(ci.name)}> can be None here ({show(x)[:50]}): to_xml omits it and the library's own parser rejects the message", fi=f, text=f"{ci.name}:nullable:{k}", witness=f"<{lower_first(ci.name)}> emitted without {k}=")
            ok = False
        if k == "value" and part:
            # wire scalar?
            if isinstance(x, Term) and x.op == "attr" and x.args[1] == "value" and show(x.args[0]) == "self":
                objs = [t for t in value_types if isinstance(t, ClassInfo)]
                if objs:
                    ctx.violated(rule, inst, f"value= receives the element's value object ({objs[0].name}); to_xml renders it with str(), i.e. '<{objs[0].qualname} object at 0x...>'", fi=f, text=f"{ci.name}:non-scalar-value", witness=f"<{lower_first(ci.name)}>&lt;{objs[0].qualname} object at 0x..&gt;</{lower_first(ci.name)}>")
                    ok = False
    return ok


def rule_emit(ctx):
    p = ctx.p
    defn = _definition_nullability(ctx)
    n = 0
    for kind in KINDS:
        ecls = p.cls(f"{IE}.{kind}")
        dcls = _definition_class_for(p, ecls)
        if dcls is None:
            ctx.undecided("C07.EMIT", ecls.short, "no definition class binds this instance class", ci=ecls)
            continue
        attrs, nullable = defn.get(dcls.qualname, (set(), set()))
        vt = p.class_constant(ecls, "allowed_value_types")
        vt = vt if isinstance(vt, tuple) else ()
        for meth in ("to_def_message", "to_set_message"):
            f = ecls.find_method(meth)
            inst = f"{f.short}[{kind}]"
            paths = run_method(p, f, self_val=Term("param", "self", hint=ecls))
            ctx.paths_enumerated += len(paths)
            ok = True
            for pa in paths:
                if pa.outcome != "return":
                    continue
                v = pa.value
                if not (isinstance(v, Term) and v.op == "call" and isinstance(v.args[0], Cls)):
                    ctx.undecided("C07.EMIT", inst, f"emitter does not return a constructor call: {show(v)[:60]}", fi=f)
                    ok = False
                    continue
                want = p.class_constant(ecls, "def_message_class" if meth == "to_def_message" else "set_message_class")
                if v.args[0].ci is not want:
                    ctx.violated("C07.EMIT", inst, f"emits {v.args[0].ci.name}, the class binding says {getattr(want, 'name', want)}", fi=f, text=f"{kind}:{meth}:class")
                    ok = False
                n += 1
                # attributes read from the definition must exist there
                for t in subterms(v):
                    if isinstance(t, Term) and t.op == "attr" and isinstance(t.args[0], Term) and t.args[0].op == "attr" and t.args[0].args[1] == "_definition" and show(t.args[0].args[0]) == "self":
                        if attrs and t.args[1] not in attrs:
                            ctx.violated("C07.EMIT", inst, f"reads self._definition.{t.args[1]}, which {dcls.name} definitions do not have", fi=f, text=f"{kind}:nodef:{t.args[1]}")
                            ok = False
                if not _check_ctor_call(ctx, "C07.EMIT", inst, f, v, nullable, vt, part=True):
                    ok = False
            if ok:
                ctx.holds("C07.EMIT", inst, "constructor call agrees with the part class's signature; no required attribute can be None; scalar value", fi=f)
    for kind in KINDS:
        vcls = p.cls(f"{IV}.{kind}Vector")
        dcls = _definition_class_for(p, vcls)
        attrs, nullable = defn.get(dcls.qualname, (set(), set())) if dcls else (set(), set())
        for meth in ("to_def_message", "to_set_message"):
            f = vcls.find_method(meth)
            inst = f"{f.short}[{kind}Vector]"
            paths = run_method(p, f, self_val=Term("param", "self", hint=vcls))
            ctx.paths_enumerated += len(paths)
            ok = True
            for pa in paths:
                if pa.outcome != "return" or not (isinstance(pa.value, Term) and pa.value.op == "call" and isinstance(pa.value.args[0], Cls)):
                    continue
                n += 1
                if not _check_ctor_call(ctx, "C07.EMIT", inst, f, pa.value, nullable, (), part=False):
                    ok = False
            if ok:
                ctx.holds("C07.EMIT", inst, "constructor call agrees with the message class's signature", fi=f)
    ctx.floor("C07.EMIT", "emit-site x class bindings", n, 25)


def rule_sibling(ctx):
    p = ctx.p

    def kwset(kind, meth):
        vcls = p.cls(f"{IV}.{kind}Vector")
        f = vcls.find_method(meth)
        paths = run_method(p, f, self_val=Term("param", "self", hint=vcls))
        out = None
        for pa in paths:
            v = pa.value
            if pa.outcome == "return" and isinstance(v, Term) and v.op == "call" and isinstance(v.args[0], Cls) and v.args[0].ci.name != "DelProperty":
                out = {k for k, _ in v.args[2] if k}
        return f, out

    f0, base_def = kwset("Text", "to_def_message")
    f1, sw = kwset("Switch", "to_def_message")
    f2, li = kwset("Light", "to_def_message")
    if None in (base_def, sw, li):
        raise Undecided("definition emitters not resolved")
    ctx.check(sw == base_def | {"rule"}, "C07.SIBLING", f1.short, "switch definition = base keywords + rule", f"SwitchVector.to_def_message passes {sorted(sw)}, the base emitter passes {sorted(base_def)} (+rule expected)", fi=f1, text=f"switch:{sorted(sw ^ (base_def | {'rule'}))}")
    ctx.check(li == base_def - {"perm", "timeout"}, "C07.SIBLING", f2.short, "light definition = base keywords - perm/timeout", f"LightVector.to_def_message passes {sorted(li)}, expected {sorted(base_def - {'perm', 'timeout'})}", fi=f2, text=f"light:{sorted(li ^ (base_def - {'perm', 'timeout'}))}")
    must = {"device", "name", "state", "children", "timestamp", "group", "label"}
    ctx.check(must <= base_def, "C07.SIBLING", f0.short, "definition carries device/name/state/group/label/timestamp/children", f"the base definition emitter lacks {sorted(must - base_def)}", fi=f0, text=f"base:{sorted(must - base_def)}")
    g0, base_set = kwset("Text", "to_set_message")
    g1, li_set = kwset("Light", "to_set_message")
    ctx.check(li_set == base_set - {"timeout"}, "C07.SIBLING", g1.short, "light update = base keywords - timeout", f"LightVector.to_set_message passes {sorted(li_set)}, expected {sorted(base_set - {'timeout'})}", fi=g1, text=f"lightset:{sorted(li_set ^ (base_set - {'timeout'}))}")
    ctx.check({"device", "name", "state", "children"} <= base_set, "C07.SIBLING", g0.short, "update carries device/name/state/children", f"the base update emitter lacks {sorted({'device', 'name', 'state', 'children'} - base_set)}", fi=g0, text="baseset")


# 'accepted by the library's own parser and read back unchanged' needs registry closure and constructor symmetry
# a definition is sent (and read back) whatever it contains: no message may be falsy where its truthiness is tested
IMPORTS = [('C03', 'C03.REG'), ('C03', 'C03.SYM'), ('C02', 'C02.TRUTHY'), ('C10', 'C10.SIGNR')]  # C10.SIGNR: a definition shows the element's value, sign included

_META_SRC = '''
from indi.device import Driver, properties


class DevA(Driver):
    g1 = properties.Group(
        "GRP1",
        vectors=dict(
            v1=properties.{kind}Vector(
                "V1", label="LabelV1", state="Busy", perm="ro", timeout=7, {rule1}
                elements=dict(a=properties.{kind}("A", label="LabelA", {ea}), b=properties.{kind}("B", label="LabelB", {eb})),
            ),
            v2=properties.{kind}Vector(
                "V2", label="LabelV2", state="Alert", perm="wo", timeout=9, {rule2}
                elements=dict(a=properties.{kind}("A", label="LabelA2", {ea2})),
            ),
        ),
    )
    g2 = properties.Group(
        "GRP2",
        vectors=dict(v3=properties.{kind}Vector("V3", label="LabelV3", state="Idle", elements=dict(c=properties.{kind}("C", {ec})))),
    )
'''
_META_EL = {
    "Number": {"A": dict(format="%5.2f", min=1, max=9, step=2, default=3.5), "B": dict(format="%3.0f", min=-4, max=4, step=1, default=2.0), "A2": dict(format="%e", min=10, max=20, step=5, default=15.0), "C": dict(default=1.0)},
    "Text": {"A": dict(default="txtA"), "B": dict(default="txtB"), "A2": dict(default="txtA2"), "C": dict(default="txtC")},
    "Switch": {"A": dict(default="On"), "B": dict(default="Off"), "A2": dict(default="On"), "C": dict(default="Off")},
    "Light": {"A": dict(default="Busy"), "B": dict(default="Alert"), "A2": dict(default="Idle"), "C": dict(default="Ok")},
    "BLOB": {"A": dict(), "B": dict(), "A2": dict(), "C": dict()},
}
_META_VEC = {
    "V1": dict(group="GRP1", label="LabelV1", state="Busy", perm="ro", timeout=7, rule="AtMostOne", elements=[("A", "LabelA", "A"), ("B", "LabelB", "B")]),
    "V2": dict(group="GRP1", label="LabelV2", state="Alert", perm="wo", timeout=9, rule="AnyOfMany", elements=[("A", "LabelA2", "A2")]),
}


_META_CUR_STATE = {"V1": "Ok", "V2": "Idle"}
_META_CUR = {
    # V2.A moves to a falsy value (0 / the empty text) while its declared default is not: '<value> or <default>' shows
    "Number": [(("V1", "A"), 4.25), (("V1", "B"), -1.5), (("V2", "A"), 0.0)],
    "Text": [(("V1", "A"), "curA"), (("V1", "B"), "curB"), (("V2", "A"), "")],
    "Switch": [(("V1", "B"), "On"), (("V2", "A"), "Off")],  # AtMostOne: B on clears A
    "Light": [(("V1", "A"), "Ok"), (("V1", "B"), "Idle"), (("V2", "A"), "Alert")],
    "BLOB": [],
}
_META_EARLIER = {
    "Number": lambda v: v + 100.0, "Text": lambda v: "earlier-" + v, "Switch": lambda v: "On", "Light": lambda v: "Busy", "BLOB": lambda v: v,
}
_HIST_NOTE = {"set": "", "render-then-reset": " (an earlier value was rendered before, then the value was refreshed with reset_value)", "render-then-set": " (an earlier value was rendered before, then the value was set again)"}
_META_NOW = {
    "Number": {("V1", "A"): 4.25, ("V1", "B"): -1.5, ("V2", "A"): 0.0},
    "Text": {("V1", "A"): "curA", ("V1", "B"): "curB", ("V2", "A"): ""},
    "Switch": {("V1", "A"): "Off", ("V1", "B"): "On", ("V2", "A"): "Off"},
    "Light": {("V1", "A"): "Ok", ("V1", "B"): "Idle", ("V2", "A"): "Alert"},
}


def rule_meta(ctx):
    """Every field of an emitted definition/update carries the value the protocol means: the vector's own
    name/label/state/perm/rule/timeout, its group's name, its device's name; element fields from the element's own
    definition and value (numbers rendered with the element's own format).  Decided by abstract evaluation on a driver
    constructed from an analysis-only definition in which every such field is distinct across the three properties and
    whose state and element values have been moved away from the declared defaults through the public setters."""
    p = ctx.p
    n = 0

    def kw(e):
        return ", ".join(f"{k}={v!r}" for k, v in e.items())

    def pol(fi, node):
        m = fi.module.name
        if m.startswith("indi.device.properties.instance."):
            return fi.name not in ("raise_event",)
        if m == "indi.message.checks":
            return True
        return fi.kind == "getter" and m.startswith("indi.device")

    for kind in KINDS:
        els = _META_EL[kind]
        src = _META_SRC.format(kind=kind, rule1='rule="AtMostOne",' if kind == "Switch" else "", rule2='rule="AnyOfMany",' if kind == "Switch" else "",
                               ea=kw(els["A"]), eb=kw(els["B"]), ea2=kw(els["A2"]), ec=kw(els["C"]))
        vcls = p.cls(f"{IV}.{kind}Vector")
        for meth in ("to_def_message", "to_set_message"):
            f = vcls.find_method(meth)
            inst = f"{f.short}[{kind}Vector]"
            bad = False
            for vname, want, hist in [(a_, b_, h_) for a_, b_ in _META_VEC.items() for h_ in ("set", "render-then-reset", "render-then-set")]:
                def run(it: Interp):
                    drivers = build_drivers(it, p, names=(("DevA", "DEVA"),), src=src)
                    vec = [o for o in _reachable_objs(drivers["DEVA"]) if o.label == f"vec:DEVA.{vname}"]
                    if len(vec) != 1:
                        raise Undecided(f"constructed driver does not hold exactly one vector {vname}")
                    # move state and values away from the declared defaults through the public setters
                    by = {o.label: o for o in _reachable_objs(drivers["DEVA"])}
                    for vn_, st_ in _META_CUR_STATE.items():
                        it.run_function(Fn(vcls.find_setter("state_"), by[f"vec:DEVA.{vn_}"]), [Const(st_)], {})
                    if hist != "set":
                        # an earlier value is set and rendered first (anything a renderer memoises is warm), then the
                        # value moves on through the public setter or through reset_value (a Read handler's refresh)
                        for (vn_, en_), val_ in _META_CUR[kind]:
                            el = by[f"el:DEVA.{vn_}.{en_}"]
                            it.run_function(Fn(el.cls.find_setter("value"), el), [Const(_META_EARLIER[kind](val_))], {})
                        for o_ in by.values():
                            if o_.label.startswith("vec:DEVA."):
                                for m_ in ("to_def_message", "to_set_message"):
                                    it.run_function(Fn(vcls.find_method(m_), o_), [], {})
                    for (vn_, en_), val_ in _META_CUR[kind]:
                        el = by[f"el:DEVA.{vn_}.{en_}"]
                        if hist == "render-then-reset":
                            it.run_function(Fn(el.cls.find_method("reset_value"), el), [Const(val_)], {})
                        else:
                            it.run_function(Fn(el.cls.find_setter("value"), el), [Const(val_)], {})
                    del it.events[:]
                    return it.run_function(Fn(f, vec[0]), [], {})

                paths = explore(p, run, {"inline": pol, "max_depth": 10})
                ctx.paths_enumerated += len(paths)
                for pa in paths:
                    v = pa.value
                    if pa.outcome != "return" or not (isinstance(v, Term) and v.op == "call" and isinstance(v.args[0], Cls)):
                        ctx.violated("C07.META", inst, f"{meth} of enabled property {vname} yields {show(v)[:60] if v is not None else pa.outcome} instead of a message", fi=f, text=f"{kind}:{meth}:no-message")
                        bad = True
                        continue
                    mk = dict(v.args[2])
                    exp = {"device": "DEVA", "name": vname, "group": want["group"], "label": want["label"], "state": _META_CUR_STATE[vname], "perm": want["perm"], "timeout": want["timeout"], "rule": want["rule"]}
                    if kind == "Light":
                        exp.pop("perm"), exp.pop("timeout")  # lights are read-only: the definition drops both
                    for k, x in mk.items():
                        if k in exp:
                            n += 1
                            if not (isinstance(x, Const) and x.v == exp[k]):
                                ctx.violated("C07.META", inst, f"{v.args[0].ci.name}({k}=...) of property {vname} carries {show(x)[:50]}, the property's own {k} is {exp[k]!r} (three properties with distinct metadata constructed)", fi=f, text=f"{kind}:{meth}:{k}")
                                bad = True
                        if k == "timestamp" and "now()" not in show(x):
                            ctx.violated("C07.META", inst, f"timestamp is {show(x)[:40]}, not the current time", fi=f, text=f"{kind}:{meth}:timestamp")
                            bad = True
                    ch = mk.get("children")
                    items = ch.items if isinstance(ch, (Lst, Tup)) else []
                    if len(items) != len(want["elements"]):
                        ctx.violated("C07.META", inst, f"property {vname} renders {len(items)} parts, it has {len(want['elements'])} enabled elements", fi=f, text=f"{kind}:{meth}:parts")
                        bad = True
                        continue
                    for x, (en, el_label, ekey) in zip(items, want["elements"]):
                        if not (isinstance(x, Term) and x.op == "call" and isinstance(x.args[0], Cls)):
                            ctx.violated("C07.META", inst, f"part of {vname}.{en} is {show(x)[:50]}, not a message part", fi=f, text=f"{kind}:{meth}:part-shape")
                            bad = True
                            continue
                        ek = dict(x.args[2])
                        eexp = {"name": en, "label": el_label}
                        if kind == "Number":
                            eexp.update({k_: els[ekey][k_] for k_ in ("format", "min", "max", "step")})
                        for k, y in ek.items():
                            if k in eexp:
                                n += 1
                                if not (isinstance(y, Const) and y.v == eexp[k]):
                                    ctx.violated("C07.META", inst, f"{x.args[0].ci.name}({k}=...) of element {vname}.{en} carries {show(y)[:50]}, the element's own {k} is {eexp[k]!r}", fi=f, text=f"{kind}:{meth}:el-{k}")
                                    bad = True
                        if "value" in ek and kind != "BLOB":
                            n += 1
                            y = ek["value"]
                            own = _META_NOW[kind][(vname, en)]
                            if kind == "Number":
                                okv = isinstance(y, Term) and is_call(y, func="num_to_str") and len(y.args[1]) == 2 and all(isinstance(a_, Const) for a_ in y.args[1]) and y.args[1][0].v == own and y.args[1][1].v == els[ekey]["format"]
                                if not okv:
                                    ctx.violated("C07.META", inst, f"the number of {vname}.{en} is rendered as {show(y)[:70]}, expected num_to_str({own!r}, {els[ekey]['format']!r}) - its own value in its own format" + _HIST_NOTE[hist], fi=f, text=f"Number:{meth}:value-format:{hist}")
                                    bad = True
                            elif not (isinstance(y, Const) and y.v == own):
                                ctx.violated("C07.META", inst, f"{x.args[0].ci.name}(value=...) of element {vname}.{en} carries {show(y)[:50]}, the element's own value is {own!r}" + _HIST_NOTE[hist], fi=f, text=f"{kind}:{meth}:el-value:{hist}")
                                bad = True
            if not bad:
                ctx.holds("C07.META", inst, "every metadata field and every part carries the property's / element's own values", fi=f)
    ctx.floor("C07.META", "metadata fields checked", n, 150)


_RANGE_CASES = [
    ("declared defaults", dict(min=0, max=0, step=0)),
    ("ordinary", dict(min=-90.0, max=90.0, step=0.5)),
    ("very fine step", dict(min=0.0, max=1.0, step=0.00001)),
    ("very wide range", dict(min=-1e20, max=1e20, step=1000000.0)),
    ("integers", dict(min=-5, max=65535, step=1)),
]


def rule_range(ctx):
    """A number's declared range is metadata the driver passes through as it was declared (Python numbers of any
    magnitude): building the definition's part must neither fail nor alter it.  A part constructor that validates min /
    max / step like wire text rejects every value whose str() is in exponent form (step=0.00001, max=1e20): the property
    - and every property after it in the same reply - is never defined."""
    p = ctx.p
    ci = p.cls("indi.message.def_parts.DefNumber")
    init = ci.find_method("__init__")
    n = 0
    bad = False
    for label, rng in _RANGE_CASES:
        kw = {"name": Const("A"), "value": Const("1.5"), "label": Const("LabelA"), "format": Const("%f")}
        kw.update({k: Const(v) for k, v in rng.items()})
        res = abstract_construct(p, ci, kw, inline_prefixes=("indi.message.", "indi.message.checks."))
        ctx.paths_enumerated += len(res)
        n += 1
        if len(res) != 1:
            ctx.undecided("C07.RANGE", f"{ci.short}[{label}]", f"construction is not decided by constant evaluation ({len(res)} paths)", ci=ci)
            bad = True
            continue
        pa, o = res[0]
        if pa.outcome != "return":
            ctx.violated("C07.RANGE", f"{ci.short}[{label}]", f"DefNumber(min={rng['min']!r}, max={rng['max']!r}, step={rng['step']!r}) raises {show(pa.value)[:60] if pa.value is not None else ''}: the definition of a number with such a range cannot be built, a getProperties for it (and for every property after it in the reply) goes unanswered", fi=init, text=f"range-raises:{label}", witness=f"properties.Number('A', min={rng['min']!r}, max={rng['max']!r}, step={rng['step']!r})")
            bad = True
            continue
        for k, v in rng.items():
            got = o.attrs.get(k)
            if not (isinstance(got, Const) and got.v == v and type(got.v) is type(v)):
                ctx.violated("C07.RANGE", f"{ci.short}[{label}]", f"declared {k}={v!r} is carried as {show(got) if got is not None else None}", fi=init, text=f"range-altered:{label}:{k}")
                bad = True
    if not bad:
        ctx.holds("C07.RANGE", ci.short, f"{n} declared ranges (defaults, ordinary, exponent-form floats, integers) are carried unchanged", ci=ci)


EXPLANATION = EXPLANATION + " C07.RANGE: DefNumber is constructed (abstractly, by its real constructor chain with the validators inlined) with five declared ranges - the defaults, an ordinary range, a very fine step (0.00001, str() in exponent form), a very wide range (+-1e20) and integers: construction must not raise and min / max / step must be carried unchanged."

RULES = [
    ("C07.RANGE", rule_range, "a number definition carries any declared min / max / step (also 1e-05, 1e20) unchanged"),
    ("C07.META", rule_meta, "every emitted field comes from the right source (own definition/state/group/device; element format)"),
    ("C07.ADDRESS", rule_address, "Driver and Proxy: accepts() + message_from_client answer only requests that name no device or this device"),
    ("C07.BRANCH", rule_branch, "getProperties answered with exactly the requested definitions; send_message drops None"),
    ("C07.DISABLED", rule_disabled, "disabled property -> delProperty / no update; enabled -> exactly its enabled elements"),
    ("C07.EMIT", rule_emit, "emit sites agree with constructor signatures; no required attribute can be None; scalar value"),
    ("C07.SIBLING", rule_sibling, "sibling emitters agree on their keyword sets"),
]
