"""C07 - getProperties is answered with exactly the definitions asked for; every emitted message re-parses."""
from __future__ import annotations

from ..absint import Builtin, Cls, Const, Dct, Fn, Interp, Lst, Obj, Term, Tup, explore, is_call, mentions, run_method, show, subterms
from ..model import ClassInfo, Undecided, UNKNOWN
from .common import abstract_construct, lower_first, sym, is_sym
from .driverworld import IE, IV, _reachable_objs, build_drivers, make_driver, make_vector

EXPLANATION = (
    "C07.BRANCH: Driver.message_from_client is abstractly interpreted on an abstract driver with three vectors for getProperties with "
    "name in {absent, empty, existing, unknown}: the definitions sent must be exactly those of all vectors (absent/empty name) or of the "
    "named vector, each once, in table order, and nothing for an unknown name. C07.DISABLED: every to_def_message/to_set_message "
    "implementation is interpreted for (vector enabled, group enabled) in {T,F}^2 and element enabled flags: a disabled property answers "
    "with delProperty / no update, an enabled one with a definition listing exactly its enabled elements in order; Driver.send_message "
    "drops None. C07.EMIT: every constructor call of a message or part class made by the driver's emitters is checked, per concrete "
    "class binding, against the effective constructor signature: all required parameters supplied; every keyword reaches a named "
    "parameter (not **junk); no *required* XML attribute can receive None (to_xml omits None, the re-parse would fail) - nullability "
    "comes from the definition classes' defaults, computed by abstract construction; the value= argument is a wire scalar, not a "
    "values.BLOB object. C07.SIBLING: the keyword sets of the three definition emitters and the two update emitters agree up to the "
    "parameters their message class lacks."
)
NOT_DECIDED = "values in every reachable state (data); that is covered for numbers by C10 and for BLOBs by C08."
ASSUMPTIONS = ["to_xml omits None attributes and writes str() of the others (decided by C03.WRITE)", "router addressing decides which devices see the request (C04)"]
TRUSTED = ["CPython ast", "indilint abstract interpreter"]

KINDS = ("Number", "Text", "Switch", "Light", "BLOB")


def _drv_method(p, name):
    return p.cls("indi.device.driver.Driver").find_method(name)


def rule_branch(ctx):
    p = ctx.p
    from .driverworld import build_drivers
    f = _drv_method(p, "message_from_client")
    gp = p.cls("indi.message.get_properties.GetProperties")
    # two drivers in one process (built by interpreting the real constructors); requests go to DEVA
    own = ["V1", "V2", "V22", "V3", "V4"]
    cases = [(None, own), ("", own), ("V2", ["V2"]), ("NOPE", []), ("V3", ["V3"]), ("V", []), ("v2", []), ("V22", ["V22"]), ("W9", [])]
    bad = False
    for name, expect in cases:
        def run(it: Interp):
            drivers = build_drivers(it, p)
            it.drivers = drivers
            msg = Obj(gp, {"device": Const("DEVA"), "name": Const(name), "version": Const("1.7"), "__closed__": Const(True)}, label="getProperties")
            return it.run_function(Fn(f, drivers["DEVA"]), [msg], {})

        paths = explore(p, run, {"inline": lambda fi, node: False})
        ctx.paths_enumerated += len(paths)
        if len(paths) != 1:
            ctx.undecided("C07.BRANCH", f.short, f"getProperties(name={name!r}) not decided by constant evaluation ({len(paths)} paths)", fi=f)
            bad = True
            continue
        for pa in paths:
            if pa.outcome != "return":
                ctx.violated("C07.BRANCH", f.short, f"getProperties(name={name!r}) raises: {show(pa.value) if pa.value is not None else ''}", fi=f, text=f"raises:{name}")
                bad = True
                continue
            sends = pa.calls(method="send_message")
            got = []
            for e in sends:
                a = e.data["args"][0] if e.data["args"] else None
                if isinstance(a, Term) and is_call(a, method="to_def_message") and isinstance(a.args[0], Fn):
                    got.append(show(a.args[0].self_val).replace("vec:", ""))
                else:
                    got.append(f"?{show(a)[:30] if a is not None else None}")
            want = [f"DEVA.{v}" for v in expect]
            if got != want:
                ctx.violated("C07.BRANCH", f.short, f"getProperties(device=DEVA, name={name!r}) is answered by DEVA with definitions of {got}, expected {want} (a second driver DEVB with properties V1, W9 exists in the same process)", fi=f, text=f"answer:{name}:{got}", witness=f"drivers DEVA(V1,V2,V22,V3,V4) and DEVB(V1,W9); <getProperties device='DEVA' name={name!r}>")
                bad = True
    if not bad:
        ctx.holds("C07.BRANCH", f.short, f"{len(cases)} request shapes answered with exactly the requested definitions of the addressed driver (two drivers constructed in one process)", fi=f)
    # send_message drops None and forwards everything else with the driver as sender
    sm = _drv_method(p, "send_message")
    for arg, expect_calls in ((Const(None), 0), (Obj(None, label="<msg>"), 1)):
        def run(it: Interp):
            drv, _ = make_driver(p, [])
            it.drv = drv
            return it.run_function(Fn(sm, drv), [arg], {})

        paths = explore(p, run, {"inline": lambda fi, node: False})
        ok = all(pa.outcome == "return" and len(pa.calls(method="process_message")) == expect_calls for pa in paths)
        if expect_calls:
            for pa in paths:
                for e in pa.calls(method="process_message"):
                    a = e.data["args"]
                    if not (len(a) == 2 and a[0] is arg and a[1] is pa.interp.drv):
                        ok = False
        ctx.check(ok, "C07.BRANCH", f"{sm.short}[{'None' if expect_calls == 0 else 'message'}]", "None dropped / message routed with the driver as sender", "Driver.send_message does not drop None / route the message with itself as sender exactly once", fi=sm, text=f"send:{expect_calls}")


def _inline_getters(p):
    def pol(fi, node):
        return fi.kind == "getter" and fi.module.name.startswith("indi.device") and fi.name in ("enabled", "group", "device", "name")
    return pol


_DISABLED_SRC = '''
from indi.device import Driver, properties


class DevA(Driver):
    grp = properties.Group(
        "GRP",
        enabled={gen},
        vectors=dict(
            v=properties.{kind}Vector(
                "V1",
                enabled={ven},
                elements=dict(a=properties.{kind}("A"), b=properties.{kind}("B", enabled=False), c=properties.{kind}("C")),
            )
        ),
    )
'''


def rule_disabled(ctx):
    p = ctx.p
    n = 0
    for kind in KINDS:
        vcls = p.cls(f"{IV}.{kind}Vector")
        for meth in ("to_def_message", "to_set_message"):
            f = vcls.find_method(meth)
            inst = f"{f.short}[{kind}Vector]"
            bad = False
            for ven in (True, False):
                for gen in (True, False):
                    n += 1

                    src = _DISABLED_SRC.format(kind=kind, ven=ven, gen=gen)

                    def run(it: Interp):
                        drivers = build_drivers(it, p, names=(("DevA", "DEVA"),), src=src)
                        vec = [o for o in _reachable_objs(drivers["DEVA"]) if o.label == "vec:DEVA.V1"]
                        if len(vec) != 1:
                            raise Undecided("constructed driver does not hold exactly one vector V1")
                        return it.run_function(Fn(f, vec[0]), [], {})

                    paths = explore(p, run, {"inline": _inline_getters(p)})
                    ctx.paths_enumerated += len(paths)
                    for pa in paths:
                        row = f"vector enabled={ven} group enabled={gen}"
                        if pa.outcome != "return":
                            ctx.violated("C07.DISABLED", inst, f"{meth} raises for [{row}]", fi=f, text=f"raises:{ven}:{gen}")
                            bad = True
                            continue
                        v = pa.value
                        on = ven and gen
                        if not on:
                            if meth == "to_set_message":
                                if not (isinstance(v, Const) and v.v is None):
                                    ctx.violated("C07.DISABLED", inst, f"a disabled property still renders an update ({show(v)[:50]}) for [{row}]", fi=f, text="set-when-disabled", witness=row)
                                    bad = True
                            else:
                                okd = isinstance(v, Term) and v.op == "call" and isinstance(v.args[0], Cls) and v.args[0].ci.name == "DelProperty"
                                kw = dict((k, x) for k, x in v.args[2]) if okd else {}
                                if not okd or show(kw.get("device", Const(0))) != "'DEVA'" or show(kw.get("name", Const(0))) != "'V1'":
                                    ctx.violated("C07.DISABLED", inst, f"a disabled property is answered with {show(v)[:60]} instead of delProperty(device, name) for [{row}]", fi=f, text="def-when-disabled", witness=row)
                                    bad = True
                            continue
                        want_cls = p.class_constant(vcls, "def_message_class" if meth == "to_def_message" else "set_message_class")
                        if not (isinstance(v, Term) and v.op == "call" and isinstance(v.args[0], Cls) and v.args[0].ci is want_cls):
                            ctx.violated("C07.DISABLED", inst, f"an enabled property renders {show(v)[:60]} instead of {getattr(want_cls, 'name', want_cls)}", fi=f, text="wrong-class")
                            bad = True
                            continue
                        kw = dict((k, x) for k, x in v.args[2])
                        ch = kw.get("children")
                        part_meth = meth
                        items = ch.items if isinstance(ch, (Lst, Tup)) else None
                        got = []
                        if items is not None:
                            for x in items:
                                if isinstance(x, Term) and is_call(x, method=part_meth) and isinstance(x.args[0], Fn):
                                    got.append(show(x.args[0].self_val))
                                else:
                                    got.append("?")
                        if got != ["el:DEVA.V1.A", "el:DEVA.V1.C"]:
                            ctx.violated("C07.DISABLED", inst, f"children are {got if items is not None else show(ch)[:40]}, expected the enabled elements A and C in order (B is disabled)", fi=f, text="children", witness=row)
                            bad = True
                        if show(kw.get("device", Const(0))) != "'DEVA'" or show(kw.get("name", Const(0))) != "'V1'" or show(kw.get("state", Const(0))) != "'Ok'":
                            ctx.violated("C07.DISABLED", inst, f"device/name/state are not the vector's own: {show(v)[:80]}", fi=f, text="identity")
                            bad = True
            if not bad:
                ctx.holds("C07.DISABLED", inst, "delProperty / None when vector or group is disabled; otherwise its message with exactly the enabled elements in order", fi=f)
    ctx.counters["C07.DISABLED:evaluations"] = n


# ----------------------------------------------------------------------------- EMIT
def _definition_nullability(ctx):
    """For each definition class: attributes that are None when the optional constructor arguments are omitted."""
    p = ctx.p
    out = {}
    for modname in ("indi.device.properties.definition.elements", "indi.device.properties.definition.vectors", "indi.device.properties.definition.group"):
        for ci in p.module(modname).classes.values():
            sig = p.init_chain_signature(ci)
            kw = {n_: sym(n_) for n_ in sig.required()}
            if "elements" in sig.named():
                kw["elements"] = Dct([(Const("x"), Obj(None, label="<el>"))])
            try:
                res = abstract_construct(p, ci, kw, inline_prefixes=("indi.device.properties.definition.", "indi.device.events."), extra_opts={"closed_world": False})
            except Undecided:
                continue
            nullable = set()
            attrs = set()
            for pa, o in res:
                if pa.outcome != "return" or o is None:
                    continue
                for k, v in o.attrs.items():
                    attrs.add(k)
                    if isinstance(v, Const) and v.v is None:
                        nullable.add(k)
            out[ci.qualname] = (attrs, nullable)
    return out


def _definition_class_for(p, inst_ci: ClassInfo):
    for modname in ("indi.device.properties.definition.elements", "indi.device.properties.definition.vectors"):
        for ci in p.module(modname).classes.values():
            v = p.class_constant(ci, "instance_class")
            if v is inst_ci:
                return ci
    return None


def _nullable_arg(v, defn_null, value_types):
    """May this argument term be None?  (None literal; a definition attribute whose default is None)"""
    if isinstance(v, Const):
        return v.v is None
    if isinstance(v, Term) and v.op == "attr" and isinstance(v.args[0], Term) and v.args[0].op == "attr" and v.args[0].args[1] == "_definition":
        return v.args[1] in defn_null
    return False


def _check_ctor_call(ctx, rule, inst, f, call_term, defn_null, value_types, part: bool):
    p = ctx.p
    ci = call_term.args[0].ci
    sig = p.init_chain_signature(ci)
    named = sig.named()
    kws = [(k, x) for k, x in call_term.args[2]]
    ok = True
    if call_term.args[1]:
        ctx.undecided(rule, inst, "positional arguments at an emit site", fi=f)
        return False
    given = {k for k, _ in kws if k}
    for r in sig.required():
        if r not in given:
            ctx.violated(rule, inst, f"{ci.name}(...) is called without the required parameter '{r}': TypeError at emit time", fi=f, text=f"{ci.name}:missing:{r}", witness=f"{ci.name}({', '.join(sorted(given))})")
            ok = False
    for k, x in kws:
        if k is None:
            ctx.undecided(rule, inst, "**kwargs at an emit site", fi=f)
            ok = False
            continue
        if k not in named:
            ctx.violated(rule, inst, f"keyword '{k}' does not reach a parameter of {ci.name} (it is swallowed by **junk and never reaches the wire)", fi=f, text=f"{ci.name}:junk:{k}")
            ok = False
            continue
        prm = named[k]
        if prm.required and k not in ("value", "children") and _nullable_arg(x, defn_null, value_types):
            ctx.violated(rule, inst, f"required XML attribute '{k}' of <{lower_first(ci.name)}> can be None here ({show(x)[:50]}): to_xml omits it and the library's own parser rejects the message", fi=f, text=f"{ci.name}:nullable:{k}", witness=f"<{lower_first(ci.name)}> emitted without {k}=")
            ok = False
        if k == "value" and part:
            # wire scalar?
            if isinstance(x, Term) and x.op == "attr" and x.args[1] == "value" and show(x.args[0]) == "self":
                objs = [t for t in value_types if isinstance(t, ClassInfo)]
                if objs:
                    ctx.violated(rule, inst, f"value= receives the element's value object ({objs[0].name}); to_xml renders it with str(), i.e. '<{objs[0].qualname} object at 0x...>'", fi=f, text=f"{ci.name}:non-scalar-value", witness=f"<{lower_first(ci.name)}>&lt;{objs[0].qualname} object at 0x..&gt;</{lower_first(ci.name)}>")
                    ok = False
    return ok


def rule_emit(ctx):
    p = ctx.p
    defn = _definition_nullability(ctx)
    n = 0
    for kind in KINDS:
        ecls = p.cls(f"{IE}.{kind}")
        dcls = _definition_class_for(p, ecls)
        if dcls is None:
            ctx.undecided("C07.EMIT", ecls.short, "no definition class binds this instance class", ci=ecls)
            continue
        attrs, nullable = defn.get(dcls.qualname, (set(), set()))
        vt = p.class_constant(ecls, "allowed_value_types")
        vt = vt if isinstance(vt, tuple) else ()
        for meth in ("to_def_message", "to_set_message"):
            f = ecls.find_method(meth)
            inst = f"{f.short}[{kind}]"
            paths = run_method(p, f, self_val=Term("param", "self", hint=ecls))
            ctx.paths_enumerated += len(paths)
            ok = True
            for pa in paths:
                if pa.outcome != "return":
                    continue
                v = pa.value
                if not (isinstance(v, Term) and v.op == "call" and isinstance(v.args[0], Cls)):
                    ctx.undecided("C07.EMIT", inst, f"emitter does not return a constructor call: {show(v)[:60]}", fi=f)
                    ok = False
                    continue
                want = p.class_constant(ecls, "def_message_class" if meth == "to_def_message" else "set_message_class")
                if v.args[0].ci is not want:
                    ctx.violated("C07.EMIT", inst, f"emits {v.args[0].ci.name}, the class binding says {getattr(want, 'name', want)}", fi=f, text=f"{kind}:{meth}:class")
                    ok = False
                n += 1
                # attributes read from the definition must exist there
                for t in subterms(v):
                    if isinstance(t, Term) and t.op == "attr" and isinstance(t.args[0], Term) and t.args[0].op == "attr" and t.args[0].args[1] == "_definition" and show(t.args[0].args[0]) == "self":
                        if attrs and t.args[1] not in attrs:
                            ctx.violated("C07.EMIT", inst, f"reads self._definition.{t.args[1]}, which {dcls.name} definitions do not have", fi=f, text=f"{kind}:nodef:{t.args[1]}")
                            ok = False
                if not _check_ctor_call(ctx, "C07.EMIT", inst, f, v, nullable, vt, part=True):
                    ok = False
            if ok:
                ctx.holds("C07.EMIT", inst, "constructor call agrees with the part class's signature; no required attribute can be None; scalar value", fi=f)
    for kind in KINDS:
        vcls = p.cls(f"{IV}.{kind}Vector")
        dcls = _definition_class_for(p, vcls)
        attrs, nullable = defn.get(dcls.qualname, (set(), set())) if dcls else (set(), set())
        for meth in ("to_def_message", "to_set_message"):
            f = vcls.find_method(meth)
            inst = f"{f.short}[{kind}Vector]"
            paths = run_method(p, f, self_val=Term("param", "self", hint=vcls))
            ctx.paths_enumerated += len(paths)
            ok = True
            for pa in paths:
                if pa.outcome != "return" or not (isinstance(pa.value, Term) and pa.value.op == "call" and isinstance(pa.value.args[0], Cls)):
                    continue
                n += 1
                if not _check_ctor_call(ctx, "C07.EMIT", inst, f, pa.value, nullable, (), part=False):
                    ok = False
            if ok:
                ctx.holds("C07.EMIT", inst, "constructor call agrees with the message class's signature", fi=f)
    ctx.floor("C07.EMIT", "emit-site x class bindings", n, 25)


def rule_sibling(ctx):
    p = ctx.p

    def kwset(kind, meth):
        vcls = p.cls(f"{IV}.{kind}Vector")
        f = vcls.find_method(meth)
        paths = run_method(p, f, self_val=Term("param", "self", hint=vcls))
        out = None
        for pa in paths:
            v = pa.value
            if pa.outcome == "return" and isinstance(v, Term) and v.op == "call" and isinstance(v.args[0], Cls) and v.args[0].ci.name != "DelProperty":
                out = {k for k, _ in v.args[2] if k}
        return f, out

    f0, base_def = kwset("Text", "to_def_message")
    f1, sw = kwset("Switch", "to_def_message")
    f2, li = kwset("Light", "to_def_message")
    if None in (base_def, sw, li):
        raise Undecided("definition emitters not resolved")
    ctx.check(sw == base_def | {"rule"}, "C07.SIBLING", f1.short, "switch definition = base keywords + rule", f"SwitchVector.to_def_message passes {sorted(sw)}, the base emitter passes {sorted(base_def)} (+rule expected)", fi=f1, text=f"switch:{sorted(sw ^ (base_def | {'rule'}))}")
    ctx.check(li == base_def - {"perm", "timeout"}, "C07.SIBLING", f2.short, "light definition = base keywords - perm/timeout", f"LightVector.to_def_message passes {sorted(li)}, expected {sorted(base_def - {'perm', 'timeout'})}", fi=f2, text=f"light:{sorted(li ^ (base_def - {'perm', 'timeout'}))}")
    must = {"device", "name", "state", "children", "timestamp", "group", "label"}
    ctx.check(must <= base_def, "C07.SIBLING", f0.short, "definition carries device/name/state/group/label/timestamp/children", f"the base definition emitter lacks {sorted(must - base_def)}", fi=f0, text=f"base:{sorted(must - base_def)}")
    g0, base_set = kwset("Text", "to_set_message")
    g1, li_set = kwset("Light", "to_set_message")
    ctx.check(li_set == base_set - {"timeout"}, "C07.SIBLING", g1.short, "light update = base keywords - timeout", f"LightVector.to_set_message passes {sorted(li_set)}, expected {sorted(base_set - {'timeout'})}", fi=g1, text=f"lightset:{sorted(li_set ^ (base_set - {'timeout'}))}")
    ctx.check({"device", "name", "state", "children"} <= base_set, "C07.SIBLING", g0.short, "update carries device/name/state/children", f"the base update emitter lacks {sorted({'device', 'name', 'state', 'children'} - base_set)}", fi=g0, text="baseset")


# 'accepted by the library's own parser and read back unchanged' needs registry closure and constructor symmetry
IMPORTS = [('C03', 'C03.REG'), ('C03', 'C03.SYM')]

def rule_meta(ctx):
    """Every field of an emitted definition/update comes from the source the protocol means: the vector's own
    name/label/state/perm/rule/timeout, its group's name, its device's name; element fields from the element's
    definition and the value property (numbers rendered with the element's own format)."""
    p = ctx.p
    vec_src = {
        "device": ("self.device.name",), "name": ("self._definition.name",), "group": ("self._group.name", "self.group.name"),
        "label": ("self._definition.label",), "state": ("self._state", "self.state_"), "perm": ("self._definition.perm",),
        "rule": ("self._definition.rule",), "timeout": ("self._definition.timeout",),
    }
    n = 0
    for kind in KINDS:
        vcls = p.cls(f"{IV}.{kind}Vector")
        for meth in ("to_def_message", "to_set_message"):
            f = vcls.find_method(meth)
            bad = False
            for pa in run_method(p, f, self_val=Term("param", "self", hint=vcls)):
                v = pa.value
                if pa.outcome != "return" or not (isinstance(v, Term) and v.op == "call" and isinstance(v.args[0], Cls)):
                    continue
                for k, x in v.args[2]:
                    if k in vec_src:
                        n += 1
                        if show(x) not in vec_src[k]:
                            ctx.violated("C07.META", f"{f.short}[{kind}Vector]", f"{v.args[0].ci.name}({k}=...) is fed from {show(x)[:50]} instead of {vec_src[k][0]}", fi=f, text=f"{kind}:{meth}:{k}")
                            bad = True
                    if k == "timestamp" and "now()" not in show(x):
                        ctx.violated("C07.META", f"{f.short}[{kind}Vector]", f"timestamp is {show(x)[:40]}, not the current time", fi=f, text=f"{kind}:{meth}:timestamp")
                        bad = True
            if not bad:
                ctx.holds("C07.META", f"{f.short}[{kind}Vector]", "every metadata field comes from the vector's own definition/state/group/device", fi=f)
    el_src = {"name": "self._definition.name", "label": "self._definition.label", "format": "self._definition.format", "min": "self._definition.min", "max": "self._definition.max", "step": "self._definition.step"}
    for kind in KINDS:
        ecls = p.cls(f"{IE}.{kind}")
        for meth in ("to_def_message", "to_set_message"):
            f = ecls.find_method(meth)
            bad = False
            for pa in run_method(p, f, self_val=Term("param", "self", hint=ecls)):
                v = pa.value
                if pa.outcome != "return" or not (isinstance(v, Term) and v.op == "call" and isinstance(v.args[0], Cls)):
                    continue
                for k, x in v.args[2]:
                    if k in el_src and (k in ("name", "label") or kind == "Number"):
                        n += 1
                        if show(x) != el_src[k]:
                            ctx.violated("C07.META", f"{f.short}[{kind}]", f"{v.args[0].ci.name}({k}=...) is fed from {show(x)[:50]} instead of {el_src[k]}", fi=f, text=f"{kind}:{meth}:{k}")
                            bad = True
                    if k == "value" and kind == "Number":
                        if not show(x).startswith("num_to_str(self.value, self._definition.format)"):
                            ctx.violated("C07.META", f"{f.short}[{kind}]", f"the number is rendered as {show(x)[:60]}, not with the element's own format", fi=f, text=f"Number:{meth}:value-format")
                            bad = True
            if not bad:
                ctx.holds("C07.META", f"{f.short}[{kind}]", "element fields come from the element's definition; numbers rendered with the element's format", fi=f)
    ctx.floor("C07.META", "metadata fields checked", n, 50)


RULES = [
    ("C07.META", rule_meta, "every emitted field comes from the right source (own definition/state/group/device; element format)"),
    ("C07.BRANCH", rule_branch, "getProperties answered with exactly the requested definitions; send_message drops None"),
    ("C07.DISABLED", rule_disabled, "disabled property -> delProperty / no update; enabled -> exactly its enabled elements"),
    ("C07.EMIT", rule_emit, "emit sites agree with constructor signatures; no required attribute can be None; scalar value"),
    ("C07.SIBLING", rule_sibling, "sibling emitters agree on their keyword sets"),
]
