"""C12 - no client message can take a driver, a connection or the server down."""
from __future__ import annotations

import ast

from ..absint import Builtin, Cls, Const, Dct, Fn, Foreign, Interp, Lst, Obj, Term, explore, is_call, run_method, show
from ..model import Undecided, walk_no_nested
from .common import receive_loops
from .driverworld import IE, IV, make_driver

EXPLANATION = (
    "Exception-escape analysis over a fault catalogue, by abstract interpretation with may-raise primitives. C12.ESCAPE: "
    "Driver.message_from_client is interpreted - with from_new_message, the element's set_value_from_message/set_value/value setter, "
    "check_value(_type), the vocabulary check, the switch rule, str_to_num and BLOB.from_base64 inlined - on an abstract driver with one "
    "vector of every kind, for every catalogue entry: unknown property; every message kind against every property kind; children naming "
    "unknown, known and duplicate elements; opaque (attacker-chosen) text, size and format. Primitives that can raise on attacker data "
    "fork the path: int()/float() of non-literals, base64.b64decode, re match objects used without a test, assert statements, subscripts "
    "of abstract tables with an absent key, explicit raise, and calls into user event handlers. Obligation: no path lets an exception out "
    "of message_from_client; element stores happen only for validly named elements of the addressed kind-matching property. "
    "C12.INLOOP: every server transport's per-message entry (message_from_client of the connection handler) contains whatever the router "
    "raises, so one bad message cannot end the receive loop; the receive loop's surrounding catch-all (which closes the connection) is not "
    "the first handler. C12.ENABLE: enableBLOB from an unregistered sender raises nothing (shared with C05.KEY)."
    ' C12.ESCAPE also feeds, per target and kind, a childless message built by the real message constructor (what it stores for an absent child list is what the driver iterates). C12.REGEX: no regex applied to client-supplied text has an unbounded repeat whose iteration is ambiguous (exponential backtracking stalls the serving thread).'
)
NOT_DECIDED = "that state is unchanged for every hostile value beyond the element-level stores listed; what user-written handlers do after being contained."
ASSUMPTIONS = ["logging calls do not raise", "the may-raise table: int/float/b64decode/assert/raise/subscript/user handlers; other stdlib calls on the path (str methods, dict.get, isinstance, getattr with default) do not raise"]
TRUSTED = ["CPython ast", "indilint abstract interpreter"]

MSG = "indi.message"
KINDS = ("Text", "Number", "Switch", "BLOB")


def _raiser(ev):
    callee = ev.data.get("callee")
    if isinstance(callee, Builtin) and callee.name in ("int", "float"):
        a = ev.data.get("args") or []
        if a and not isinstance(a[0], Const):
            return "ValueError"
    if isinstance(callee, Foreign):
        if callee.dotted.endswith("b64decode"):
            return "Error"
    if isinstance(callee, Fn) and callee.fi.name == "raise_event":
        return "Exception"  # user handlers
    return None


def _inline(p):
    el = p.cls(f"{IE}.Element")
    vec = p.cls(f"{IV}.Vector")

    def pol(fi, node):
        # the driver package handles a message with whatever helpers and polymorphic hooks it likes: everything in it is
        # part of the handling, except user handlers (raise_event) and publication (send_message, to_*_message)
        if fi.module.name.startswith("indi.device.") and fi.name not in ("raise_event", "send_message", "to_set_message", "to_def_message", "attach_event_handlers") and fi.module.name != "indi.device.values":
            return True
        if fi.module.name == IE and fi.name in ("set_value_from_message", "set_value", "value", "check_value", "check_value_type", "name", "device", "vector"):
            return True
        if fi.module.name == IV and fi.name in ("from_new_message", "apply_rule", "name", "device"):
            return True
        if fi.qualname in ("indi.message.checks.dictionary", "indi.device.values.str_to_num", "indi.device.values.BLOB.from_base64", "indi.device.values.BLOB.__init__", "indi.device.values.BLOB.size"):
            return True
        return False

    return pol


def _construct_message(it, p, ci, kwargs):
    """A message object produced by abstractly running its real constructor (validators inlined)."""
    from ..absint import Frame
    saved = dict(it.opts)
    it.opts["inline"] = lambda fi, node: fi.module.name.startswith("indi.message")
    it.opts["instantiate"] = lambda c: c.module.name.startswith("indi.message")
    it.opts["call_may_raise"] = None
    n = len(it.events)
    try:
        m = it.apply(Cls(ci), [], dict(kwargs), [], None, Frame(None, ci.module, {}), False)
    finally:
        it.opts.clear()
        it.opts.update(saved)
    del it.events[n:]
    if not isinstance(m, Obj):
        raise Undecided(f"construction of {ci.name} did not yield an abstract object")
    m.label = "newVector"
    return m


def rule_escape(ctx):
    p = ctx.p
    drv_cls = p.cls("indi.device.driver.Driver")
    f = drv_cls.find_method("message_from_client")
    news = {k: p.cls(f"{MSG}.news.New{k}Vector") for k in KINDS}
    parts = {k: p.cls(f"{MSG}.one_parts.One{k}") for k in KINDS}
    from .driverworld import build_drivers
    kind_of = {"V1": "Text", "V2": "Number", "V3": "Switch", "V4": "BLOB", "V22": "Light"}
    # elements are applied independently (one try/except each), so lists with several valid children are only explored
    # for the cheap kinds; the path count of one Number child is ~100 and multiplies per child.
    multi = [[], ["ZZ"], ["A"], ["A", "ZZ", "B"], ["A", "A"]]
    single = [[], ["ZZ"], ["A"], ["ZZ", "A"]]
    lists_for = {"Text": multi, "Switch": multi if ctx.tier == "thorough" else single, "BLOB": multi if ctx.tier == "thorough" else single, "Number": single}
    n = 0
    bad = False
    pol = _inline(p)
    for target in ("V1", "V2", "V3", "V4", "V22", "NOPE"):
        for mk in KINDS:
            variants = [(ch, "opaque") for ch in lists_for[mk]] + [(ch, "none") for ch in lists_for[mk] if 0 < len(ch) <= 2] + [([], "ctor")]
            for children, valmode in variants:
                n += 1

                def run(it: Interp):
                    drivers = build_drivers(it, p)
                    drv = drivers["DEVA"]
                    kids = []
                    for i, c in enumerate(children):
                        # an element with an empty body parses to value=None
                        attrs = {"name": Const(c), "value": Term("param", f"text{i}", pytype="str") if valmode == "opaque" else Const(None), "__closed__": Const(True)}
                        if mk == "BLOB":
                            attrs["size"] = Term("param", f"size{i}", pytype="str")
                            attrs["format"] = Term("param", f"format{i}", pytype="str")
                        kids.append(Obj(parts[mk], attrs, label=f"child{i}:{c}"))
                    if valmode == "ctor":
                        # a childless element (<newTextVector device=.. name=../>): the parser passes no children at all,
                        # what the message then holds is whatever its real constructor makes of that
                        msg = _construct_message(it, p, news[mk], {"device": Const("DEVA"), "name": Const(target)})
                    else:
                        msg = Obj(news[mk], {"device": Const("DEVA"), "name": Const(target), "children": Lst(kids), "timestamp": Const(None), "__closed__": Const(True)}, label="newVector")
                    return it.run_function(Fn(f, drv), [msg], {})

                paths = explore(p, run, {"inline": pol, "assert_forks": True, "call_may_raise": _raiser, "max_depth": 10, "max_for": 1}, max_paths=60000)
                ctx.paths_enumerated += len(paths)
                row = f"new{mk}Vector -> {target} ({kind_of.get(target, 'unknown property')}) children={children}" + (" with empty bodies (value=None)" if valmode == "none" else "") + (" (childless element, built by the message constructor)" if valmode == "ctor" else "")
                for pa in paths:
                    if pa.outcome == "raise":
                        raises = [e for e in pa.events if e.kind == "raise"]
                        last = raises[-1] if raises else None
                        where = f"{last.fn.short}:{last.line}" if last is not None and last.fn is not None else "?"
                        what = show(last.data["value"])[:60] if last is not None else show(pa.value)[:60]
                        cat = "unknown-property" if target == "NOPE" else ("kind-mismatch" if kind_of[target] != mk else "value")
                        ctx.violated("C12.ESCAPE", f.short, f"an exception ({what}) raised at {where} escapes message handling for [{row}]: it propagates through the router into the connection handler", fi=f, text=f"escape:{cat}:{where.split('::')[-1].split(':')[0]}", witness=row)
                        bad = True
                        continue
                    # element stores only where allowed
                    stores = [e for e in pa.events if e.kind == "store" and e.data.get("attr") == "_value" and isinstance(e.data["base"], Obj)]
                    allowed = set()
                    if kind_of.get(target) == mk:
                        allowed = {f"el:DEVA.{target}.{c}" for c in children if c in ("A", "B")}
                    for s in stores:
                        lab = s.data["base"].label
                        if lab not in allowed and not (kind_of.get(target) == "Switch" and mk == "Switch" and lab.startswith(f"el:DEVA.{target}.")):
                            ctx.violated("C12.ESCAPE", f.short, f"[{row}] changes element {lab}, which the message does not validly name", fi=f, text=f"stray-store:{'mismatch' if kind_of.get(target) != mk else 'other'}", witness=row)
                            bad = True
    ctx.counters["C12.ESCAPE:catalogue entries"] = n
    if not bad:
        ctx.holds("C12.ESCAPE", f.short, f"{n} catalogue entries (6 targets x 4 message kinds x 4-5 child lists, opaque text/size/format): nothing escapes, only validly named elements change", fi=f)
    ctx.exhaustive_domains.append("fault catalogue: 6 targets x 4 kinds x 5 child lists with may-raise primitives on opaque attacker text")


def rule_inloop(ctx):
    p = ctx.p
    loops = [L for L in receive_loops(p) if (L.owner.module if L.owner is not None else L[0].module).name.startswith("indi.transport.server")]
    ctx.floor("C12.INLOOP", "server receive loops", len(loops), 2)
    for L in loops:
        fi, wh = L
        ci = L.owner
        # the consumer handed to buffer.process
        consumer = None
        for n_ in ast.walk(wh):
            if isinstance(n_, ast.Call) and isinstance(n_.func, ast.Attribute) and n_.func.attr == "process" and n_.args and isinstance(n_.args[0], ast.Attribute) and isinstance(n_.args[0].value, ast.Name) and n_.args[0].value.id == "self":
                consumer = ci.find_method(n_.args[0].attr) if ci is not None else None
        if consumer is None:
            ctx.undecided("C12.INLOOP", L.short, "consumer passed to buffer.process not resolved", fi=fi)
            continue

        def raiser(ev):
            if ev.kind == "call" and is_call(ev.data["term"], method="process_message"):
                return "Exception"
            return None

        # an override that extends its base (super().<same method>(...)) is one entry
        paths = run_method(p, consumer, self_val=L.self_val, opts={"call_may_raise": raiser, "inline": lambda fi_, node, _n=consumer.name: fi_.name == _n})
        ctx.paths_enumerated += len(paths)
        routed = any(pa.calls(method="process_message") for pa in paths)
        esc = [pa for pa in paths if pa.outcome == "raise"]
        if not routed:
            ctx.violated("C12.INLOOP", consumer.short, "the per-message entry does not hand the message to the router", fi=consumer, text="not-routed")
            continue
        if esc:
            ctx.violated("C12.INLOOP", consumer.short, "whatever Router.process_message raises escapes the per-message entry; the only handler left is the catch-all around the whole receive loop, which closes the connection", fi=consumer, text="no-per-message-containment", witness=f"{L.short}: try around the loop -> close()")
        else:
            # the message and the sender are passed on unchanged
            ok = True
            for pa in paths:
                for e in pa.calls(method="process_message"):
                    a = e.data["args"]
                    kw = e.data["kwargs"]
                    m = a[0] if a else kw.get("message")
                    s = a[1] if len(a) > 1 else kw.get("sender")
                    if m is None or show(m) != "message" or s is None or show(s) != "self":
                        ok = False
            ctx.check(ok, "C12.INLOOP", consumer.short, "router errors are contained per message; (message, sender=self) forwarded", "the per-message entry does not forward (message, sender=self)", fi=consumer, text="forward-args")
    # Router.process_message itself: device handlers' exceptions are not swallowed silently elsewhere (informational)


def rule_enable(ctx):
    from .routermodel import World, message_obj, router_cls, run_router
    p = ctx.p
    eb = p.cls("indi.message.enable_blob.EnableBLOB")
    f = router_cls(p).find_method("process_message")
    bad = False
    for sender_kind in ("unregistered", "none", "device0"):
        def wf():
            return World(p, 2, 1, {}, registered=[0])

        def af(w):
            m = message_obj(p, eb, device="A", value="Also")
            s = {"unregistered": w.clients[1], "none": Const(None), "device0": w.devices[0]}[sender_kind]
            return [m, s], {}

        _, paths = run_router(p, wf, "process_message", af)
        for pa in paths:
            if pa.outcome != "return":
                ctx.violated("C12.ENABLE", f.short, f"enableBLOB from sender={sender_kind} raises {show(pa.value) if pa.value is not None else ''} out of the router", fi=f, text=f"raise:{sender_kind}")
                bad = True
            elif set(pa.world.policy_snapshot()) != {"client0"}:
                ctx.violated("C12.ENABLE", f.short, f"enableBLOB from an unregistered sender creates a policy entry that nothing removes", fi=f, text=f"leak:{sender_kind}")
                bad = True
    if not bad:
        ctx.holds("C12.ENABLE", f.short, "enableBLOB from unregistered / absent / device senders is ignored without raising", fi=f)


# kind/name dispatch table
# the bytes of a client are turned into text before any per-message containment: a codec that can fail ends the connection
IMPORTS = [('C02', 'C02.DECODE'), ('C06', 'C06.KEY'), ('C11', 'C11.RECOVER'), ('C04', 'C04.ACC'), ('C04', 'C04.DEV'), ('C02', 'C02.DISCARD'), ('C02', 'C02.CONSUME'), ('C11', 'C11.NOGROW'), ('C15', 'C15.MIRROR')]  # C15.MIRROR (its C15.SURVIVE part): the snooping clients inside the server process every relayed message without raising into the router

def rule_regex(ctx):
    from . import bufferrules as B
    B.check_regex(ctx, "C12.REGEX", ("indi.device", "indi.routing", "indi.message"), "the thread that serves the connection is stuck on one client value and stops serving")


_EXTREME_NUMBERS = [
    ("an integer of 400 digits", "9" * 400),
    ("a negative integer of 400 digits", "-" + "9" * 400),
    ("a decimal of 400 digits before the point", "9" * 400 + ".5"),
    ("an ordinary number", "12.5"),
]


def rule_poison(ctx):
    """A number text that is well-formed by the protocol's syntax but beyond what the driver can render again (an integer
    of hundreds of digits: str_to_num yields an arbitrary-precision int, '%f' % it overflows; a decimal of that size
    becomes inf) must be refused like any other value that cannot be applied.  If it is stored, the property is
    poisoned: every later rendering of it raises out of message handling (or announces text no peer can parse), and a
    whole-device getProperties stops at it.  Decided by constant evaluation on a driver built by the real machinery:
    the hostile newNumberVector, then a valid getProperties on the same driver."""
    import re as _re
    from ..absint import Frame
    from .driverworld import build_drivers
    from .. import protocol_tables as T
    p = ctx.p
    drv_cls = p.cls("indi.device.driver.Driver")
    f = drv_cls.find_method("message_from_client")
    newn = p.cls(f"{MSG}.news.NewNumberVector")
    onen = p.cls(f"{MSG}.one_parts.OneNumber")
    getp = p.cls(f"{MSG}.get_properties.GetProperties")
    grammar = _re.compile(T.NUM_PERMISSIVE_REFERENCE + r"\Z")

    def pol(fi, node):
        m = fi.module.name
        return (m.startswith("indi.device.") or m.startswith("indi.message")) and fi.name not in ("raise_event", "attach_event_handlers")

    n = 0
    bad = False
    for label, text in _EXTREME_NUMBERS:
        n += 1
        res = {}

        def run(it: Interp, text=text, res=res):
            drivers = build_drivers(it, p, router=Obj(None, label="<router>"))
            drv = drivers["DEVA"]
            it.opts["inline"] = pol
            it.opts["instantiate"] = lambda ci: ci.module.name.startswith(("indi.message", "indi.device."))
            fr = Frame(None, newn.module, {})
            part = it.apply(Cls(onen), [], {"name": Const("A"), "value": Const(text)}, [], None, fr, False)
            msg = it.apply(Cls(newn), [], {"device": Const("DEVA"), "name": Const("V2"), "children": Lst([part])}, [], None, fr, False)
            del it.events[:]
            res["stage"] = "the hostile message"
            it.run_function(Fn(f, drv), [msg], {})
            res["stage"] = "a getProperties sent afterwards"
            gp = it.apply(Cls(getp), [], {"version": Const("1.7"), "device": Const("DEVA")}, [], None, fr, False)
            k = len(it.events)
            it.run_function(Fn(f, drv), [gp], {})
            res["defs"] = [e for e in it.events[k:] if e.kind == "call" and is_call(e.data["term"], method="process_message")]
            res["stage"] = "done"
            return Const(None)

        try:
            paths = explore(p, run, {"inline": pol, "max_depth": 16, "call_may_raise": None})
        except Undecided as u:
            ctx.undecided("C12.POISON", f"{f.short}[{label}]", f"not decided by constant evaluation: {u}", fi=f)
            bad = True
            continue
        ctx.paths_enumerated += len(paths)
        inst = f"{f.short}[{label}]"
        if len(paths) != 1:
            ctx.undecided("C12.POISON", inst, f"not decided by constant evaluation ({len(paths)} paths)", fi=f)
            bad = True
            continue
        pa = paths[0]
        if pa.outcome != "return":
            raises = [e for e in pa.events if e.kind == "raise"]
            last = raises[-1] if raises else None
            where = f"{last.fn.short}:{last.line}" if last is not None and last.fn is not None else "?"
            ctx.violated("C12.POISON", inst, f"<oneNumber name='A'>{text[:12]}{'...' if len(text) > 12 else ''}</oneNumber> ({label}, well-formed number text): handling {res.get('stage')} raises {show(pa.value)[:50] if pa.value is not None else ''} at {where} out of Driver.message_from_client" + (": the value was stored although it cannot be rendered, the property can never be defined or updated again and a whole-device getProperties stops at it" if res.get("stage") != "the hostile message" else ""), fi=f, text=f"poison:{label}:{'later' if res.get('stage') != 'the hostile message' else 'now'}", witness=f"newNumberVector DEVA.V2 A={text[:12]}{'...' if len(text) > 12 else ''} ({len(text)} characters); then getProperties device=DEVA")
            bad = True
            continue
        defs = res.get("defs") or []
        if len(defs) < 5:
            ctx.violated("C12.POISON", inst, f"after the number {label} the whole-device getProperties is answered with {len(defs)} definitions, the driver has 5 enabled properties", fi=f, text=f"poison-defs:{label}")
            bad = True
            continue
        # what the device now announces for V2.A must be number text a peer can parse
        shown = None
        for e in defs:
            m = e.data["args"][0] if e.data["args"] else None
            if isinstance(m, Obj) and isinstance(m.attrs.get("name"), Const) and m.attrs["name"].v == "V2":
                ch = m.attrs.get("children")
                for x in (ch.items if isinstance(ch, (Lst,)) or hasattr(ch, "items") else []):
                    if isinstance(x, Obj) and isinstance(x.attrs.get("name"), Const) and x.attrs["name"].v == "A":
                        shown = x.attrs.get("value")
        if not (isinstance(shown, Const) and isinstance(shown.v, str) and grammar.match(shown.v.strip())):
            ctx.violated("C12.POISON", inst, f"after the number {label} the device announces V2.A as {show(shown)[:40] if shown is not None else None}: not number text a peer can parse (every client rejects the whole definition)", fi=f, text=f"poison-text:{label}", witness=f"newNumberVector DEVA.V2 A={text[:12]}... ; getProperties")
            bad = True
    if not bad:
        ctx.holds("C12.POISON", f.short, f"{n} extreme but well-formed number texts: refused or stored renderable; a getProperties afterwards is answered in full with parsable numbers", fi=f)


EXPLANATION = EXPLANATION + " C12.POISON: on a driver built by the real machinery a newNumberVector (built by the real message constructors) carrying a 400-digit integer, its negative, a 400-digit decimal or an ordinary number is handled by constant evaluation of the whole driver and message packages, then a whole-device getProperties: nothing may raise out of Driver.message_from_client, all five enabled properties are defined and the number announced is INDI number text (genuine defect D27 of the pinned tree, repaired by fix 210f6a8)."

RULES = [
    ("C12.POISON", rule_poison, "a well-formed number beyond the renderable range does not poison its property for later messages"),
    ("C12.REGEX", rule_regex, "no regex applied to client-supplied values has an unbounded repeat with an ambiguous iteration"),
    ("C12.ESCAPE", rule_escape, "fault catalogue x may-raise primitives: nothing escapes Driver.message_from_client; only validly named elements change"),
    ("C12.INLOOP", rule_inloop, "server transports contain router errors per message, not around the loop"),
    ("C12.ENABLE", rule_enable, "enableBLOB from unregistered senders is ignored"),
]
