"""Abstract evaluation of the router's four functions on a small abstract universe.

The router object, its clients/devices and the message are *abstract objects*; the functions
are interpreted by absint (constant propagation over the protocol's finite vocabularies, no
execution of repository code).  Each evaluation yields the calls made on endpoints and the
final abstract router state.
"""
from __future__ import annotations

from typing import Dict, List, Optional

from ..absint import Cls, Const, Dct, Fn, Interp, Lst, Obj, Term, explore, is_call, show
from ..model import ClassInfo, Program, Undecided
from .common import abstract_construct, full_kwargs, lower_first


def router_cls(p: Program) -> ClassInfo:
    return p.cls("indi.routing.router.Router")


_CURRENT_IT = None


class World:
    """Abstract router universe.  The router object is built by abstractly running Router.__init__ and the
    registration functions (so every field the constructor sets exists); policies are then written into the
    constructed policy table."""

    def __init__(self, p: Program, n_clients=2, n_devices=2, policies: Dict[int, Dict[Optional[str], str]] = None, registered=None):
        self.p = p
        it = _CURRENT_IT
        if it is None:
            raise Undecided("World must be built inside run_router")
        self.cbase = p.cls("indi.routing.client.Client")
        self.dbase = p.cls("indi.routing.device.Device")
        self.clients = [Obj(self.cbase, {}, label=f"client{i}") for i in range(n_clients)]
        self.devices = [Obj(self.dbase, {}, label=f"device{i}") for i in range(n_devices)]
        reg = list(range(n_clients)) if registered is None else registered
        rc = router_cls(p)
        self.router = Obj(rc, {}, label="router")
        saved = dict(it.opts)
        it.opts["inline"] = lambda fi, node: fi.cls is rc
        try:
            init = rc.find_method("__init__")
            if init is not None:
                it.run_function(Fn(init, self.router), [], {})
            for d in self.devices:
                it.run_function(Fn(rc.find_method("register_device"), self.router), [d], {})
            for i in reg:
                it.run_function(Fn(rc.find_method("register_client"), self.router), [self.clients[i]], {})
        finally:
            it.opts.clear()
            it.opts.update(saved)
        del it.events[:]
        from ..absint import Frame
        fr = Frame(None, rc.module, {})
        for k in ("clients", "devices", "blob_routing"):
            if k not in self.router.attrs:
                # not an instance attribute: a class-level object (shared by every router of the process, as in Python)
                v = it.get_attr(self.router, k, None, fr)
                if not isinstance(v, (Lst, Dct)):
                    raise Undecided(f"the router has no table '{k}'")
                self.shared = getattr(self, "shared", []) + [k]
        del it.events[:]

        def tab(k):
            return self.router.attrs[k] if k in self.router.attrs else it.get_attr(self.router, k, None, fr)

        self.table = tab
        tab("clients").label = "router.clients"
        tab("devices").label = "router.devices"
        br = tab("blob_routing")
        for i in reg:
            d = br.get(self.clients[i])
            if d is None:
                d = Dct()
                br.set(self.clients[i], d)
            for dev, pol in (policies or {}).get(i, {}).items():
                d.set(Const(dev), Const(pol))

    def policy_snapshot(self):
        out = {}
        for k, d in self.table("blob_routing").pairs:
            out[show(k)] = {show(kk): show(vv) for kk, vv in d.pairs} if isinstance(d, Dct) else show(d)
        return out


def message_obj(p: Program, ci: ClassInfo, device="A", value=None) -> Obj:
    """Abstract instance of a message class: attribute names from the abstract constructor run."""
    res = abstract_construct(p, ci, full_kwargs(p, ci))
    attrs = None
    for pa, o in res:
        if pa.outcome == "return":
            attrs = o.attrs
            break
    if attrs is None:
        raise Undecided(f"cannot construct {ci.name}")
    m = Obj(ci, {"__closed__": Const(True)}, label=f"msg:{lower_first(ci.name)}")
    for k in attrs:
        if k.startswith("__"):
            continue
        if k == "device":
            m.attrs[k] = Const(device)
        elif k == "value" and value is not None:
            m.attrs[k] = Const(value)
        elif k == "children":
            m.attrs[k] = Lst([])
        else:
            m.attrs[k] = Obj(None, label=f"<{k}>")
    if "device" not in m.attrs:
        m.attrs["device"] = Const(None)
    return m


def run_router(p: Program, world_factory, method: str, args_factory, inline_names=("process_enable_blob",)):
    """Explore router.<method>(*args) ; a fresh World is built for every path (replay-based DFS)."""
    f = router_cls(p).find_method(method)
    if f is None:
        raise Undecided(f"Router.{method} not found")
    worlds = []

    def run(it: Interp):
        global _CURRENT_IT
        _CURRENT_IT = it
        try:
            w = world_factory()
        finally:
            _CURRENT_IT = None
        worlds.append(w)
        it.world = w
        calls = args_factory(w)
        if isinstance(calls, tuple):
            calls = [calls]
        r = None
        it.call_marks = []
        for args, kwargs in calls:
            it.call_marks.append(len(it.events))
            r = it.run_function(Fn(f, w.router), args, kwargs)
        return r

    def pol(fi, node):
        # the router's own helper methods are part of the function under analysis
        return fi.cls is router_cls(p) and fi is not f

    paths = explore(p, run, {"inline": pol, "strict_keys": True})
    for pa in paths:
        pa.world = pa.interp.world
    return f, paths


def deliveries(pa, method: str):
    """Calls of endpoint.<method>(x) on a path: list of (endpoint label, arg value)."""
    out = []
    for e in pa.events:
        if e.kind == "call" and is_call(e.data["term"], method=method):
            callee = e.data["callee"]
            recv = callee.self_val if isinstance(callee, Fn) else (callee.args[0] if isinstance(callee, Term) and callee.op == "attr" else None)
            out.append((show(recv) if recv is not None else "?", e.data["args"][0] if e.data["args"] else None, e))
    return out


def check_reentrant(ctx, rule, side):
    """Registration changes made from inside a delivery (a client that notices its connection is dead while it is being
    written to and unregisters; a hub device that registers its sub-devices when it is connected).  Three peers p0..p2 are
    registered and all entitled to the message; while p<k> is being served it removes p<j> (every k, j) or registers a new
    peer.  Required: every peer that is registered when its turn comes is served exactly once - nobody is skipped or served
    twice because the table changed under the dispatch loop - and a peer removed before its turn is not served."""
    import ast
    from ..absint import Frame
    p = ctx.p
    rc = router_cls(p)
    f = rc.find_method("process_message")
    is_dev = side == "device"
    table = "devices" if is_dev else "clients"
    deliver = "message_from_client" if is_dev else "message_from_device"
    mcls = p.cls("indi.message.get_properties.GetProperties" if is_dev else "indi.message.del_property.DelProperty")
    N = 3
    bad = False
    n = 0
    for k in range(N):
        for j in list(range(N)) + ["new-first", "new-last", "rereg", "nested"]:
            n += 1

            def effect(it, callee, args, kwargs, ev, k=k, j=j):
                if not isinstance(callee, Fn):
                    return None
                me = callee.self_val
                if callee.fi.name == "accepts":
                    return Const(True)
                if callee.fi.name == deliver and isinstance(me, Obj):
                    if j == "nested" and args and args[0] is getattr(it, "inner_msg", None):
                        it.served_inner.append(me.label)
                        return Const(None)
                    it.served.append(me.label)
                    peers = it.world.devices if is_dev else it.world.clients
                    if me is peers[k] and not it.done and j == "nested":
                        # the peer being served pushes a message of its own through the same router before it returns
                        # (a driver that snoops on another one asks for its properties; a client that answers at once)
                        it.done = True
                        it.inner_msg = message_obj(p, mcls, device=None if is_dev else "A")
                        it.inner_msg.label = "inner message"
                        it.run_function(Fn(f, it.world.router), [it.inner_msg, Const(None)], {})
                        return Const(None)
                    if me is peers[k] and not it.done and j == "rereg":
                        # the peer renews its registration from inside its own delivery: leaves and registers again
                        it.done = True
                        nev = len(it.events)
                        saved = dict(it.opts)
                        it.opts["inline"] = lambda fi, node: fi.cls is rc
                        try:
                            if is_dev:
                                it.exec_block(ast.parse("r.devices.remove(d)").body, Frame(None, rc.module, {"r": it.world.router, "d": me}))
                                it.run_function(Fn(rc.find_method("register_device"), it.world.router), [me], {})
                            else:
                                it.run_function(Fn(rc.find_method("unregister_client"), it.world.router), [me], {})
                                it.run_function(Fn(rc.find_method("register_client"), it.world.router), [me], {})
                        finally:
                            it.opts.clear()
                            it.opts.update(saved)
                        del it.events[nev:]
                        return Const(None)
                    if me is peers[k] and not it.done:
                        it.done = True
                        nev = len(it.events)
                        saved = dict(it.opts)
                        it.opts["inline"] = lambda fi, node: fi.cls is rc
                        try:
                            if isinstance(j, int):
                                if is_dev:
                                    # the router has no unregister_device: a device leaves through the public table
                                    it.exec_block(ast.parse("r.devices.remove(d)").body, Frame(None, rc.module, {"r": it.world.router, "d": peers[j]}))
                                else:
                                    it.run_function(Fn(rc.find_method("unregister_client"), it.world.router), [peers[j]], {})
                            else:
                                it.run_function(Fn(rc.find_method("register_device" if is_dev else "register_client"), it.world.router), [it.newcomer], {})
                        finally:
                            it.opts.clear()
                            it.opts.update(saved)
                        del it.events[nev:]
                    return Const(None)
                return None

            def run(it: Interp):
                global _CURRENT_IT
                _CURRENT_IT = it
                try:
                    w = World(p, N if not is_dev else 1, N if is_dev else 0, {})
                finally:
                    _CURRENT_IT = None
                it.world = w
                it.served = []
                it.served_inner = []
                it.done = False
                it.newcomer = Obj(w.dbase if is_dev else w.cbase, {}, label="newcomer")
                m = message_obj(p, mcls, device=None if is_dev else "A")
                del it.events[:]
                return it.run_function(Fn(f, w.router), [m, Const(None)], {})

            paths = explore(p, run, {"inline": lambda fi, node: fi.cls is rc and fi is not f, "call_effect": effect, "strict_keys": True})
            ctx.paths_enumerated += len(paths)
            what = f"removes {side}{j}" + (" (itself)" if j == k else "") if isinstance(j, int) else ("leaves and registers again" if j == "rereg" else "sends a message of its own through the router" if j == "nested" else "registers a new " + side)
            if len(paths) != 1 or paths[0].outcome != "return":
                ctx.undecided(rule, f.short, f"dispatch during which {side}{k} {what} is not decided by constant evaluation ({len(paths)} paths)", fi=f)
                bad = True
                continue
            served = paths[0].interp.served
            core = [s for s in served if s != "newcomer"]
            # independent of the order in which the table is walked: everybody but the removed peer exactly once; the
            # removed peer not after the moment of its removal (it may have had its turn before)
            others = [f"{side}{i}" for i in range(N) if not (isinstance(j, int) and i == j)]
            miss = [x for x in others if x not in core]
            twice = sorted({x for x in served if served.count(x) > 1})
            extra = []
            if isinstance(j, int):
                gone, remover = f"{side}{j}", f"{side}{k}"
                if j == k:
                    if core.count(gone) != 1:
                        miss = miss + ([gone] if gone not in core else [])
                elif gone in core and remover in core and core.index(gone) > core.index(remover):
                    extra = [gone]
            want = others + ([f"{side}{j} only if served before {side}{k}"] if isinstance(j, int) and j != k else ([f"{side}{j}"] if isinstance(j, int) else []))
            if j == "nested":
                inner = paths[0].interp.served_inner
                allp = [f"{side}{i}" for i in range(N)]
                if sorted(inner) != sorted(allp):
                    miss = miss + [f"{x} (the inner message)" for x in allp if x not in inner]
                    twice = twice + sorted({f"{x} (the inner message)" for x in inner if inner.count(x) > 1})
            if miss or twice or extra:
                why = "; ".join(filter(None, [f"{miss} registered and entitled but not served" if miss else "", f"{twice} served twice" if twice else "", f"{extra} served after its removal" if extra else ""]))
                ctx.violated(rule, f.short, f"three {side}s entitled to a message; while {side}{k} is served it {what}: served {served}, expected {want}: {why} (the table changed under the dispatch loop)", fi=f, text=f"reentrant:{side}:" + ("skipped" if miss else "twice" if twice else "late"), witness=f"{side}{k} {what} inside its {deliver}()")
                bad = True
                break
        if bad:
            break
    ctx.counters[rule + ":(served, changed) pairs"] = n
    if not bad:
        ctx.holds(rule, f.short, f"{n} (peer being served, registration change) pairs on the {side} side: everybody registered at its turn is served exactly once", fi=f)
