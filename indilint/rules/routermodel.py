"""Abstract evaluation of the router's four functions on a small abstract universe.

The router object, its clients/devices and the message are *abstract objects*; the functions
are interpreted by absint (constant propagation over the protocol's finite vocabularies, no
execution of repository code).  Each evaluation yields the calls made on endpoints and the
final abstract router state.
"""
from __future__ import annotations

from typing import Dict, List, Optional

from ..absint import Cls, Const, Dct, Fn, Interp, Lst, Obj, Term, explore, is_call, show
from ..model import ClassInfo, Program, Undecided
from .common import abstract_construct, full_kwargs, lower_first


def router_cls(p: Program) -> ClassInfo:
    return p.cls("indi.routing.router.Router")


class World:
    def __init__(self, p: Program, n_clients=2, n_devices=2, policies: Dict[int, Dict[Optional[str], str]] = None, registered=None):
        self.p = p
        self.cbase = p.cls("indi.routing.client.Client")
        self.dbase = p.cls("indi.routing.device.Device")
        self.clients = [Obj(self.cbase, {}, label=f"client{i}") for i in range(n_clients)]
        self.devices = [Obj(self.dbase, {}, label=f"device{i}") for i in range(n_devices)]
        reg = list(range(n_clients)) if registered is None else registered
        self.router = Obj(router_cls(p), {}, label="router")
        self.router.attrs["clients"] = Lst([self.clients[i] for i in reg], label="router.clients")
        self.router.attrs["devices"] = Lst(list(self.devices), label="router.devices")
        br = Dct(label="router.blob_routing")
        for i in reg:
            d = Dct()
            for dev, pol in (policies or {}).get(i, {}).items():
                d.set(Const(dev), Const(pol))
            br.set(self.clients[i], d)
        self.router.attrs["blob_routing"] = br

    def policy_snapshot(self):
        out = {}
        for k, d in self.router.attrs["blob_routing"].pairs:
            out[show(k)] = {show(kk): show(vv) for kk, vv in d.pairs} if isinstance(d, Dct) else show(d)
        return out


def message_obj(p: Program, ci: ClassInfo, device="A", value=None) -> Obj:
    """Abstract instance of a message class: attribute names from the abstract constructor run."""
    res = abstract_construct(p, ci, full_kwargs(p, ci))
    attrs = None
    for pa, o in res:
        if pa.outcome == "return":
            attrs = o.attrs
            break
    if attrs is None:
        raise Undecided(f"cannot construct {ci.name}")
    m = Obj(ci, {"__closed__": Const(True)}, label=f"msg:{lower_first(ci.name)}")
    for k in attrs:
        if k.startswith("__"):
            continue
        if k == "device":
            m.attrs[k] = Const(device)
        elif k == "value" and value is not None:
            m.attrs[k] = Const(value)
        elif k == "children":
            m.attrs[k] = Lst([])
        else:
            m.attrs[k] = Obj(None, label=f"<{k}>")
    if "device" not in m.attrs:
        m.attrs["device"] = Const(None)
    return m


def run_router(p: Program, world_factory, method: str, args_factory, inline_names=("process_enable_blob",)):
    """Explore router.<method>(*args) ; a fresh World is built for every path (replay-based DFS)."""
    f = router_cls(p).find_method(method)
    if f is None:
        raise Undecided(f"Router.{method} not found")
    worlds = []

    def run(it: Interp):
        w = world_factory()
        worlds.append(w)
        it.world = w
        args, kwargs = args_factory(w)
        return it.run_function(Fn(f, w.router), args, kwargs)

    def pol(fi, node):
        return fi.cls is router_cls(p) and fi.name in inline_names

    paths = explore(p, run, {"inline": pol, "strict_keys": True})
    for pa in paths:
        pa.world = pa.interp.world
    return f, paths


def deliveries(pa, method: str):
    """Calls of endpoint.<method>(x) on a path: list of (endpoint label, arg value)."""
    out = []
    for e in pa.events:
        if e.kind == "call" and is_call(e.data["term"], method=method):
            callee = e.data["callee"]
            recv = callee.self_val if isinstance(callee, Fn) else (callee.args[0] if isinstance(callee, Term) and callee.op == "attr" else None)
            out.append((show(recv) if recv is not None else "?", e.data["args"][0] if e.data["args"] else None, e))
    return out
