"""C11 - garbage on the wire cannot hang, crash or bloat the receiver."""
from __future__ import annotations

from . import bufferrules as B

EXPLANATION = (
    'Path analysis of the framing loops, for every input and fragmentation at once. C11.PROGRESS: Buffer.process is enumerated with '
    '_find_message_in_buffer and _cleanup_beginning inlined; every iteration that returns to the loop head must have truncated the buffer by a '
    'suffix slice whose start has a proven lower bound >= 1 (constant, or find(...)+1 after the not-found return - interval facts are carried per '
    "path) and must not append; the inner scan loop's position must be find('>', previous position) + 1 (ranking argument). C11.GUARD: the "
    'consumer is only ever called with the result of IndiMessage.from_string. C11.CONTAIN: with the two parser calls made to raise (ParseError / '
    'any Exception), no path lets the exception out of process. C11.BOUND: with the threshold enabled every break out of the loop follows a '
    "failed 'length > threshold' test with no buffer write in between, so at most threshold characters are retained. C11.RECOVER: a complete "
    '(well-formed) element that the message parser rejects is consumed instead of blocking the head of the buffer. C11.NOGROW: the '
    'resynchroniser, evaluated on a catalogue of 820 constant buffer contents, leaves everything from the earliest known start tag, else from the '
    "last '<', else nothing (extended to all inputs where the symbolic provenance analysis recognises the code); every other truncation in "
    'process() is either the end of a prefix handed to the message parser in the same iteration or the single-character drop under the '
    'enabled-threshold guard, followed by a resynchronisation. C11.AUX: no cached scan state survives a truncation. C11.REGEX: termination '
    'of the parse includes the regex matcher - for every unbounded repeat in every regex literal of indi.message / indi.transport the '
    "iteration B+ is tested for ambiguity exactly (product of B's DFA with itself over continue/restart choices); an ambiguous iteration "
    'followed by anything that can fail backtracks exponentially. The detector runs a built-in positive and negative example on every run.'
)
NOT_DECIDED = "that junk which does not imitate a protocol element is skipped promptly, and recovery after a corrupt element (both depend on what expat accepts as a prefix)."
ASSUMPTIONS = [
    "str.find(sub, start) returns -1 or an index >= start; slicing data[k:] with k >= 1 on a non-empty string shortens it",
    "xml.etree.ElementTree.fromstring raises ParseError only; logging does not raise",
    "the consumer's own exceptions belong to the consumer (C12 decides their containment)",
]
TRUSTED = ["CPython ast", "indilint abstract interpreter with per-path integer interval facts"]


def rule_progress(ctx):
    B.check_progress(ctx, "C11.PROGRESS")
    B.check_find_progress(ctx, "C11.PROGRESS")


def rule_guard(ctx):
    B.check_guard(ctx, "C11.GUARD")


def rule_contain(ctx):
    B.check_contain(ctx, "C11.CONTAIN")


def rule_bound(ctx):
    B.check_bound(ctx, "C11.BOUND")


def rule_recover(ctx):
    B.check_recover(ctx, "C11.RECOVER")


def rule_nogrow(ctx):
    B.check_discard(ctx, "C11.NOGROW")
    B.check_aux(ctx, "C11.AUX")


def rule_regex(ctx):
    B.check_regex(ctx, "C11.REGEX", ("indi.message", "indi.transport"), "processing the receive buffer no longer terminates in any useful sense")


# the parser's class lookup must not depend on what was parsed before (a corrupt element may not poison later valid ones)
# C02.TRUTHY: a valid message behind (or between) garbage is not itself taken for garbage
IMPORTS = [('C03', 'C03.READ'), ('C13', 'C13.UNKNOWN'), ('C02', 'C02.TRUTHY'), ('C02', 'C02.E2E'), ('C02', 'C02.LOOP')]  # C02.E2E: junk before / between / after valid messages, unclosed junk beyond the threshold

EXPLANATION = EXPLANATION + " When a buffer is not organised into the helper roles (scan / resynchroniser / frontal drop) through which the symbolic rules extend over all inputs, those rules are decided on an end-to-end catalogue instead and say so: Buffer.process as a whole is evaluated on 30 constant buffer contents x 3 thresholds (valid messages, junk before/between/after, unknown and partial elements, unclosed junk beyond the threshold, quotes and '>' in text, multi-line spellings) and compared with a reference written from the property."

RULES = [
    ("C11.REGEX", rule_regex, "no regex on the parse path has an unbounded repeat with an ambiguous iteration (exponential backtracking)"),
    ("C11.PROGRESS", rule_progress, "every loop-back of both framing loops strictly advances (buffer shrinks >= 1 / scan position increases)"),
    ("C11.GUARD", rule_guard, "the consumer only receives results of IndiMessage.from_string"),
    ("C11.CONTAIN", rule_contain, "parser exceptions never escape Buffer.process"),
    ("C11.BOUND", rule_bound, "threshold enabled: every loop exit leaves <= threshold characters"),
    ("C11.RECOVER", rule_recover, "a complete element rejected by the message parser is consumed, not retained at the head of the buffer"),
    ("C11.NOGROW", rule_nogrow, "cleanup functions only truncate: earliest tag / last '<' / empty, one character under the threshold guard"),
]
