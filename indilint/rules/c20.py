"""C20 - message equality is structural.

Equality is defined by two small functions (``__eq__`` and the rendering ``to_dict``), so the
whole property is a statement about what information the rendering *retains*.  The rule
abstractly evaluates ``to_dict`` for every concrete message and part class on an instance
whose attributes, text and three children are distinct symbols, and then checks that every
symbol is still present in the result at a position that identifies it.
"""
from __future__ import annotations

from ..absint import Cls, Const, Dct, Fn, Interp, Lst, Obj, Term, Tup, explore, mentions, run_method, show, subterms
from ..model import Undecided
from .common import (
    abstract_construct, concrete_message_classes, concrete_part_classes, full_kwargs, is_sym, msg_base, part_base, sym,
)

EXPLANATION = (
    "Static information-retention analysis of the two functions that define message equality. "
    "C20.EQ: every path of __eq__ (both hierarchies) returns truthy only under a class-identity test and a comparison of the two "
    "complete renderings. C20.RETAIN: to_dict is abstractly interpreted for every concrete message class (and every part class) on an "
    "instance whose attributes, text and three children are distinct symbols; every symbol must reach the result under a key/index that "
    "identifies it (attributes by name, children as an ordered sequence with one entry per child). A last-writer-wins store inside the "
    "children loop leaves only the last child's symbols in the result and is reported with the lost child as witness."
)
NOT_DECIDED = "nothing: equality is defined by these functions; child kind is pinned by the parent's class (C13.CHILD)"
ASSUMPTIONS = [
    "str() of distinct values is distinct for the attribute types the protocol uses (str/int/float)",
    "__ne__ is not overridden, so != is the negation of == (checked: no __ne__ in the hierarchy)",
]
TRUSTED = ["CPython ast", "indilint abstract interpreter (absint.py)"]

N_CHILDREN = 3


def _abstract_instance(ctx, ci, label, with_children=True):
    p = ctx.p
    kw = full_kwargs(p, ci)
    res = abstract_construct(p, ci, kw)
    attrs = None
    for pa, o in res:
        if pa.outcome == "return":
            attrs = o.attrs
            break
    if attrs is None:
        raise Undecided(f"cannot construct {ci.name} abstractly")
    o = Obj(ci, {"__closed__": Const(True)}, label=label)
    child_syms = []
    for k in attrs:
        if k.startswith("__"):
            continue
        if k == "children":
            if not with_children:
                continue
            ccls = None
            for cand in ("children_class", "child_class"):
                v = p.class_constant(ci, cand)
                if v is not None and hasattr(v, "mro"):
                    ccls = v
            if ccls is None:
                raise Undecided(f"{ci.name}: child class not bound")
            kids = []
            for i in range(N_CHILDREN):
                c, syms = _abstract_part(ctx, ccls, f"{label}.child{i}")
                kids.append(c)
                child_syms.append(syms)
            o.attrs["children"] = Lst(kids)
        else:
            o.attrs[k] = sym(f"{label}.{k}")
    return o, child_syms


def _abstract_part(ctx, ccls, label):
    p = ctx.p
    res = abstract_construct(p, ccls, full_kwargs(p, ccls))
    attrs = None
    for pa, o in res:
        if pa.outcome == "return":
            attrs = o.attrs
            break
    if attrs is None:
        raise Undecided(f"cannot construct part {ccls.name} abstractly")
    c = Obj(ccls, {"__closed__": Const(True)}, label=label)
    syms = {}
    for k in attrs:
        if k.startswith("__"):
            continue
        s = sym(f"{label}.{k}")
        c.attrs[k] = s
        syms[k] = s
    return c, syms


def _render(ctx, o, fname="to_dict"):
    f = o.cls.find_method(fname)
    if f is None:
        raise Undecided(f"{o.cls.name} has no {fname}")

    def run(it: Interp):
        return it.run_function(Fn(f, o), [], {})

    pol = lambda fi, node: fi.name == fname and fi.module.name.startswith("indi.message")
    paths = explore(ctx.p, run, {"inline": pol})
    ctx.paths_enumerated += len(paths)
    return f, paths


def _has(v, s):
    return mentions(v, lambda t: t is s)


def _check_part_render(ctx, rule, inst, f, R, c, syms):
    ok = True
    if not isinstance(R, Dct):
        ctx.undecided(rule, inst, f"rendering of a part is not a dict literal/comprehension result: {show(R)[:80]}", fi=f)
        return False
    for k, s in syms.items():
        if k == "value":
            hit = [kk for kk, vv in R.pairs if _has(vv, s)]
            if not hit:
                ctx.violated(rule, inst, "the part's text value does not reach the rendering", fi=f, text=f"part:{c.cls.name}.value", witness=f"two <{c.cls.name}> parts differing only in their text compare equal")
                ok = False
        else:
            v = R.get(Const(k))
            if v is None or not _has(v, s):
                ctx.violated(rule, inst, f"part attribute '{k}' does not reach the rendering under its own key", fi=f, text=f"part:{c.cls.name}.{k}", witness=f"two <{c.cls.name}> parts differing only in '{k}' compare equal")
                ok = False
    return ok


def rule_retain(ctx):
    p = ctx.p
    classes = concrete_message_classes(p)
    ctx.floor("C20.RETAIN", "concrete message classes", len(classes), 15)
    n_children_classes = 0
    for ci in classes:
        inst = f"{ci.short}"
        try:
            o, child_syms = _abstract_instance(ctx, ci, "m")
            f, paths = _render(ctx, o)
        except Undecided as u:
            ctx.undecided("C20.RETAIN", inst, str(u), ci=ci)
            continue
        finst = f"{f.short}[{ci.name}]"
        bad = False
        for pa in paths:
            if pa.outcome != "return":
                ctx.violated("C20.RETAIN", finst, f"rendering raises on a well-formed {ci.name}", fi=f, text=f"raise:{ci.name}")
                bad = True
                continue
            R = pa.value
            if not isinstance(R, Dct):
                ctx.undecided("C20.RETAIN", finst, f"rendering is not a dict built from recognised idioms: {show(R)[:80]}", fi=f)
                bad = True
                continue
            for k, v in o.attrs.items():
                if k.startswith("__") or k == "children":
                    continue
                if k == "value":
                    hit = [kk for kk, vv in R.pairs if _has(vv, v) and not (isinstance(kk, Const) and kk.v in o.attrs and kk.v != "value")]
                    if not hit:
                        ctx.violated("C20.RETAIN", finst, "the message's text value does not reach the rendering", fi=f, text=f"{ci.name}.value", witness=f"two {ci.name} differing only in their text compare equal")
                        bad = True
                    continue
                rv = R.get(Const(k))
                if rv is None or not _has(rv, v):
                    ctx.violated("C20.RETAIN", finst, f"attribute '{k}' does not reach the rendering under its own key", fi=f, text=f"{ci.name}.{k}", witness=f"two {ci.name} differing only in attribute '{k}' compare equal")
                    bad = True
            if "children" in o.attrs:
                n_children_classes += 1
                kids = o.attrs["children"].items
                seqs = [(kk, vv) for kk, vv in R.pairs if isinstance(vv, (Lst, Tup)) and len(vv.items) == len(kids)]
                good = None
                for kk, seq in seqs:
                    allok = True
                    for i, (kid, syms) in enumerate(zip(kids, child_syms)):
                        entry = seq.items[i]
                        for k2, s in syms.items():
                            if not _has(entry, s):
                                allok = False
                        for j, other in enumerate(child_syms):
                            if j != i and any(_has(entry, s) for s in other.values()):
                                allok = False
                    if allok:
                        good = (kk, seq)
                if good is None:
                    # diagnose: which children are present anywhere?
                    present = [i for i, syms in enumerate(child_syms) if any(_has(R, s) for s in syms.values())]
                    lost = [i for i in range(len(kids)) if i not in present]
                    if lost:
                        what = f"children {lost} of {len(kids)} do not reach the rendering at all (only {present} do): messages differing in those children compare equal"
                    else:
                        what = "children reach the rendering but not as an ordered sequence with one entry per child"
                    ctx.violated("C20.RETAIN", finst, what, fi=f, text=f"{ci.name}.children", witness=f"{ci.name} with {len(kids)} children; perturb child #{lost[0] if lost else 0}")
                    bad = True
                else:
                    # each entry must itself retain the child's attributes under their keys
                    for i, (kid, syms) in enumerate(zip(kids, child_syms)):
                        if i == 0:
                            if not _check_part_render(ctx, "C20.RETAIN", f"{f.short}[{ci.name}].child", f, good[1].items[i], kid, syms):
                                bad = True
        if not bad:
            ctx.holds("C20.RETAIN", finst, f"{len([k for k in o.attrs if not k.startswith('__')])} fields retained" + (", children ordered 1:1" if "children" in o.attrs else ""), fi=f)
    ctx.floor("C20.RETAIN", "classes with children", n_children_classes, 10)
    ctx.exhaustive_domains.append("all concrete message classes x all attributes x 3 child positions")
    # stand-alone parts
    parts = concrete_part_classes(p)
    ctx.floor("C20.RETAIN", "part classes", len(parts), 10)
    for pc in parts:
        try:
            c, syms = _abstract_part(ctx, pc, "p")
            f, paths = _render(ctx, c)
        except Undecided as u:
            ctx.undecided("C20.RETAIN", pc.short, str(u), ci=pc)
            continue
        ok = True
        for pa in paths:
            if pa.outcome != "return":
                ctx.violated("C20.RETAIN", f"{f.short}[{pc.name}]", "part rendering raises", fi=f, text=f"raise:{pc.name}")
                ok = False
            elif not _check_part_render(ctx, "C20.RETAIN", f"{f.short}[{pc.name}]", f, pa.value, c, syms):
                ok = False
        if ok:
            ctx.holds("C20.RETAIN", f"{f.short}[{pc.name}]", f"{len(syms)} fields retained", fi=f)


def _class_identity(t) -> bool:
    """cmp term that tests class identity of self and other."""
    if not (isinstance(t, Term) and t.op == "cmp" and t.args[0] in ("==", "is")):
        return False
    a, b = show(t.args[1]), show(t.args[2])
    forms = [{"self.__class__", "other.__class__"}, {"type(self)", "type(other)"}]
    return {a, b} in forms


def _render_cmp(t) -> bool:
    if not (isinstance(t, Term) and t.op == "cmp" and t.args[0] == "=="):
        return False
    a, b = show(t.args[1]), show(t.args[2])
    return {a, b} == {"self.to_dict()", "other.to_dict()"}


def rule_eq(ctx):
    p = ctx.p
    n = 0
    for base in (msg_base(p), part_base(p)):
        impls = {}
        for ci in [base] + base.all_subclasses():
            for nm in ("__eq__", "__ne__", "__hash__"):
                if nm in ci.methods:
                    impls[(ci.qualname, nm)] = ci.methods[nm]
        for (q, nm), f in impls.items():
            if nm == "__ne__":
                ctx.violated("C20.EQ", f.short, "__ne__ is overridden: != is no longer the negation of the analysed ==", fi=f, text="__ne__")
                continue
            if nm == "__hash__":
                continue
            n += 1
            a = f.node.args
            names = [x.arg for x in a.args]
            if len(names) != 2:
                ctx.undecided("C20.EQ", f.short, "unexpected __eq__ signature", fi=f)
                continue
            paths = run_method(p, f, self_val=Term("param", "self", hint=f.cls), args=[Term("param", "other")], opts={"exact_class": False})
            ctx.paths_enumerated += len(paths)
            ok = True
            true_paths = 0
            for pa in paths:
                if pa.outcome != "return":
                    continue
                assumed_false = [e for e in pa.assumes() if not e.data["truth"]]
                v = pa.value
                if assumed_false:
                    # must return something falsy: the very value that was assumed false, or False
                    if any(e.data["cond"] is v for e in assumed_false) or (isinstance(v, Const) and not v.v):
                        continue
                    ctx.violated("C20.EQ", f.short, f"a path that failed a test still returns {show(v)}", fi=f, text=f"falsy-path:{show(v)[:60]}")
                    ok = False
                    continue
                true_paths += 1
                conj = [e.data["cond"] for e in pa.assumes()] + [v]
                if not any(_class_identity(c) for c in conj):
                    ctx.violated("C20.EQ", f.short, "equality can be true without a class-identity test (messages of different kinds may compare equal)", fi=f, text="class-test-missing", witness="two messages of different kinds with identical attributes")
                    ok = False
                if not any(_render_cmp(c) for c in conj):
                    ctx.violated("C20.EQ", f.short, "equality can be true without comparing the two complete renderings", fi=f, text="render-compare-missing")
                    ok = False
                extra = [c for c in conj if not _class_identity(c) and not _render_cmp(c)]
                for c in extra:
                    if isinstance(c, Const):
                        continue
                    ctx.undecided("C20.EQ", f.short, f"additional conjunct outside the recognised forms: {show(c)[:80]}", fi=f)
                    ok = False
            if true_paths == 0:
                ctx.violated("C20.EQ", f.short, "no path returns a truthy result: equal messages compare unequal", fi=f, text="never-equal")
                ok = False
            if ok:
                ctx.holds("C20.EQ", f.short, "truthy only under class identity and equality of the complete renderings", fi=f)
    ctx.floor("C20.EQ", "__eq__ implementations", n, 2)


RULES = [
    ("C20.EQ", rule_eq, "__eq__ = class identity AND equality of the complete renderings, on every path, both hierarchies"),
    ("C20.RETAIN", rule_retain, "to_dict retains every attribute under its key, the text, and all children as an ordered 1:1 sequence"),
]
