"""C20 - message equality is structural.

Equality is defined by two small functions (``__eq__`` and the rendering ``to_dict``), so the
whole property is a statement about what information the rendering *retains*.  The rule
abstractly evaluates ``to_dict`` for every concrete message and part class on an instance
whose attributes, text and three children are distinct symbols, and then checks that every
symbol is still present in the result at a position that identifies it.
"""
from __future__ import annotations

from ..absint import Cls, Const, Dct, Fn, Interp, Lst, Obj, Term, Tup, explore, mentions, run_method, show, subterms
from ..model import Undecided
from .common import (
    abstract_construct, concrete_message_classes, concrete_part_classes, full_kwargs, is_sym, msg_base, part_base, sym,
)

EXPLANATION = (
    "Static information-retention analysis of the two functions that define message equality. "
    "C20.EQ: __eq__ is abstractly evaluated (everything under indi/message inlined, constant propagation over distinct constant field "
    "values) for every concrete message class on the property's own perturbation table: an independently rebuilt copy must compare equal; "
    "each attribute changed / dropped, text changed / dropped, each child changed / dropped / duplicated / swapped with its neighbour, all "
    "children dropped, and the kind changed must compare unequal, in both argument orders; parts of different kinds with identical fields "
    "compare unequal. C20.RETAIN: to_dict is abstractly interpreted for every concrete message class (and every part class) on an "
    "instance whose attributes, text and three children are distinct symbols; every symbol must reach the result under a key/index that "
    "identifies it (attributes by name, children as an ordered sequence with one entry per child). A last-writer-wins store inside the "
    "children loop leaves only the last child's symbols in the result and is reported with the lost child as witness."
    ' C20.CTOR: every named constructor argument reaches the compared rendering on every successful construction path, for text arguments (parsed messages) and for arguments of any other type (messages built by a program); memoising decorators (functools.lru_cache/cache) are modelled - a cached identity function answers with an earlier ==-equal argument, so the argument itself no longer reaches the rendering.'
)
NOT_DECIDED = "nothing: equality is defined by these functions; child kind is pinned by the parent's class (C13.CHILD)"
ASSUMPTIONS = [
    "str() of distinct values is distinct for the attribute types the protocol uses (str/int/float)",
    "__ne__ is not overridden, so != is the negation of == (checked: no __ne__ in the hierarchy)",
]
TRUSTED = ["CPython ast", "indilint abstract interpreter (absint.py)"]

N_CHILDREN = 3


def _abstract_instance(ctx, ci, label, with_children=True):
    p = ctx.p
    kw = full_kwargs(p, ci)
    res = abstract_construct(p, ci, kw)
    attrs = None
    for pa, o in res:
        if pa.outcome == "return":
            attrs = o.attrs
            break
    if attrs is None:
        raise Undecided(f"cannot construct {ci.name} abstractly")
    o = Obj(ci, {"__closed__": Const(True)}, label=label)
    child_syms = []
    for k in attrs:
        if k.startswith("__"):
            continue
        if k == "children":
            if not with_children:
                continue
            ccls = None
            for cand in ("children_class", "child_class"):
                v = p.class_constant(ci, cand)
                if v is not None and hasattr(v, "mro"):
                    ccls = v
            if ccls is None:
                raise Undecided(f"{ci.name}: child class not bound")
            kids = []
            for i in range(N_CHILDREN):
                c, syms = _abstract_part(ctx, ccls, f"{label}.child{i}")
                kids.append(c)
                child_syms.append(syms)
            o.attrs["children"] = Lst(kids)
        else:
            o.attrs[k] = sym(f"{label}.{k}")
    return o, child_syms


def _abstract_part(ctx, ccls, label):
    p = ctx.p
    res = abstract_construct(p, ccls, full_kwargs(p, ccls))
    attrs = None
    for pa, o in res:
        if pa.outcome == "return":
            attrs = o.attrs
            break
    if attrs is None:
        raise Undecided(f"cannot construct part {ccls.name} abstractly")
    c = Obj(ccls, {"__closed__": Const(True)}, label=label)
    syms = {}
    for k in attrs:
        if k.startswith("__"):
            continue
        s = sym(f"{label}.{k}")
        c.attrs[k] = s
        syms[k] = s
    return c, syms


def _render(ctx, o, fname="to_dict"):
    f = o.cls.find_method(fname)
    if f is None:
        raise Undecided(f"{o.cls.name} has no {fname}")

    def run(it: Interp):
        return it.run_function(Fn(f, o), [], {})

    pol = lambda fi, node: fi.name == fname and fi.module.name.startswith("indi.message")
    paths = explore(ctx.p, run, {"inline": pol})
    ctx.paths_enumerated += len(paths)
    return f, paths


LOSSY = {"len", "hash", "id", "type", "bool", "any", "all", "min", "max", "sum", "sorted", "set", "frozenset"}


def _has(v, s):
    """Does the symbol s reach v without passing through an operation that forgets most of it (len(), hash(), a slice ...)?"""
    if v is s:
        return True
    from ..absint import Builtin
    if isinstance(v, Term):
        if v.op == "call" and isinstance(v.args[0], Builtin) and v.args[0].name in LOSSY:
            return False
        if v.op == "sub" and isinstance(v.args[1], Term) and v.args[1].op == "slice":
            return False
        if v.op == "cmp":
            return False
        for a in v.args:
            if isinstance(a, (Term, Obj, Tup, Lst, Dct)) and _has(a, s):
                return True
            if isinstance(a, (list, tuple)):
                for b in a:
                    if isinstance(b, (Term, Obj, Tup, Lst, Dct)) and _has(b, s):
                        return True
                    if isinstance(b, (list, tuple)):
                        for c_ in b:
                            if isinstance(c_, (Term, Obj, Tup, Lst, Dct)) and _has(c_, s):
                                return True
        return False
    if isinstance(v, (Tup, Lst)):
        return any(_has(x, s) for x in v.items)
    if isinstance(v, Dct):
        return any(_has(k, s) or _has(x, s) for k, x in v.pairs)
    return False


def _check_part_render(ctx, rule, inst, f, R, c, syms):
    ok = True
    if not isinstance(R, Dct):
        ctx.undecided(rule, inst, f"rendering of a part is not a dict literal/comprehension result: {show(R)[:80]}", fi=f)
        return False
    for k, s in syms.items():
        if k == "value":
            hit = [kk for kk, vv in R.pairs if _has(vv, s)]
            if not hit:
                ctx.violated(rule, inst, "the part's text value does not reach the rendering", fi=f, text=f"part:{c.cls.name}.value", witness=f"two <{c.cls.name}> parts differing only in their text compare equal")
                ok = False
        else:
            v = R.get(Const(k))
            if v is None or not _has(v, s):
                ctx.violated(rule, inst, f"part attribute '{k}' does not reach the rendering under its own key", fi=f, text=f"part:{c.cls.name}.{k}", witness=f"two <{c.cls.name}> parts differing only in '{k}' compare equal")
                ok = False
    return ok


def rule_retain(ctx):
    p = ctx.p
    classes = concrete_message_classes(p)
    ctx.floor("C20.RETAIN", "concrete message classes", len(classes), 15)
    n_children_classes = 0
    for ci in classes:
        inst = f"{ci.short}"
        try:
            o, child_syms = _abstract_instance(ctx, ci, "m")
            f, paths = _render(ctx, o)
        except Undecided as u:
            ctx.undecided("C20.RETAIN", inst, str(u), ci=ci)
            continue
        finst = f"{f.short}[{ci.name}]"
        bad = False
        for pa in paths:
            if pa.outcome != "return":
                ctx.violated("C20.RETAIN", finst, f"rendering raises on a well-formed {ci.name}", fi=f, text=f"raise:{ci.name}")
                bad = True
                continue
            R = pa.value
            if not isinstance(R, Dct):
                ctx.undecided("C20.RETAIN", finst, f"rendering is not a dict built from recognised idioms: {show(R)[:80]}", fi=f)
                bad = True
                continue
            for k, v in o.attrs.items():
                if k.startswith("__") or k == "children":
                    continue
                if k == "value":
                    hit = [kk for kk, vv in R.pairs if _has(vv, v) and not (isinstance(kk, Const) and kk.v in o.attrs and kk.v != "value")]
                    if not hit:
                        ctx.violated("C20.RETAIN", finst, "the message's text value does not reach the rendering", fi=f, text=f"{ci.name}.value", witness=f"two {ci.name} differing only in their text compare equal")
                        bad = True
                    continue
                rv = R.get(Const(k))
                if rv is None or not _has(rv, v):
                    ctx.violated("C20.RETAIN", finst, f"attribute '{k}' does not reach the rendering under its own key", fi=f, text=f"{ci.name}.{k}", witness=f"two {ci.name} differing only in attribute '{k}' compare equal")
                    bad = True
            if "children" in o.attrs:
                n_children_classes += 1
                kids = o.attrs["children"].items
                seqs = [(kk, vv) for kk, vv in R.pairs if isinstance(vv, (Lst, Tup)) and len(vv.items) == len(kids)]
                good = None
                for kk, seq in seqs:
                    allok = True
                    for i, (kid, syms) in enumerate(zip(kids, child_syms)):
                        entry = seq.items[i]
                        for k2, s in syms.items():
                            if not _has(entry, s):
                                allok = False
                        for j, other in enumerate(child_syms):
                            if j != i and any(_has(entry, s) for s in other.values()):
                                allok = False
                    if allok:
                        good = (kk, seq)
                if good is None:
                    # diagnose: which children are present anywhere?
                    present = [i for i, syms in enumerate(child_syms) if any(_has(R, s) for s in syms.values())]
                    lost = [i for i in range(len(kids)) if i not in present]
                    if lost:
                        what = f"children {lost} of {len(kids)} do not reach the rendering at all (only {present} do): messages differing in those children compare equal"
                    else:
                        what = "children reach the rendering but not as an ordered sequence with one entry per child"
                    ctx.violated("C20.RETAIN", finst, what, fi=f, text=f"{ci.name}.children", witness=f"{ci.name} with {len(kids)} children; perturb child #{lost[0] if lost else 0}")
                    bad = True
                else:
                    # each entry must itself retain the child's attributes under their keys
                    for i, (kid, syms) in enumerate(zip(kids, child_syms)):
                        if i == 0:
                            if not _check_part_render(ctx, "C20.RETAIN", f"{f.short}[{ci.name}].child", f, good[1].items[i], kid, syms):
                                bad = True
        if not bad:
            ctx.holds("C20.RETAIN", finst, f"{len([k for k in o.attrs if not k.startswith('__')])} fields retained" + (", children ordered 1:1" if "children" in o.attrs else ""), fi=f)
    ctx.floor("C20.RETAIN", "classes with children", n_children_classes, 10)
    ctx.exhaustive_domains.append("all concrete message classes x all attributes x 3 child positions")
    # stand-alone parts
    parts = concrete_part_classes(p)
    ctx.floor("C20.RETAIN", "part classes", len(parts), 10)
    for pc in parts:
        try:
            c, syms = _abstract_part(ctx, pc, "p")
            f, paths = _render(ctx, c)
        except Undecided as u:
            ctx.undecided("C20.RETAIN", pc.short, str(u), ci=pc)
            continue
        ok = True
        for pa in paths:
            if pa.outcome != "return":
                ctx.violated("C20.RETAIN", f"{f.short}[{pc.name}]", "part rendering raises", fi=f, text=f"raise:{pc.name}")
                ok = False
            elif not _check_part_render(ctx, "C20.RETAIN", f"{f.short}[{pc.name}]", f, pa.value, c, syms):
                ok = False
        if ok:
            ctx.holds("C20.RETAIN", f"{f.short}[{pc.name}]", f"{len(syms)} fields retained", fi=f)


def _concrete_instance(ctx, ci, tagv="v", nkids=3, child_cls=None):
    """Instance whose attributes, text and children carry distinct constant strings."""
    p = ctx.p
    o, _ = _abstract_instance(ctx, ci, "m", with_children=False)
    inst = Obj(ci, {"__closed__": Const(True)}, label=f"{ci.name}:{tagv}")
    for k in o.attrs:
        if k.startswith("__"):
            continue
        inst.attrs[k] = Const(f"{tagv}:{k}")
    res = abstract_construct(p, ci, full_kwargs(p, ci))
    has_children = any("children" in oo.attrs for pa, oo in res if pa.outcome == "return" and oo is not None)
    if has_children:
        ccls = child_cls
        if ccls is None:
            for cand in ("children_class", "child_class"):
                v = p.class_constant(ci, cand)
                if v is not None and hasattr(v, "mro"):
                    ccls = v
        kids = []
        for i in range(nkids):
            kids.append(_concrete_part(ctx, ccls, f"{tagv}.c{i}"))
        inst.attrs["children"] = Lst(kids)
    return inst


def _concrete_part(ctx, ccls, tagv):
    c, syms = _abstract_part(ctx, ccls, "p")
    o = Obj(ccls, {"__closed__": Const(True)}, label=f"{ccls.name}:{tagv}")
    for k in syms:
        o.attrs[k] = Const(f"{tagv}:{k}")
    return o


def _eval_eq(ctx, a_factory, b_factory):
    """Truth of a == b by abstract evaluation (fresh objects per path); None when undecided."""
    p = ctx.p
    holder = {}

    def run(it: Interp):
        a, b = a_factory(), b_factory()
        f = a.cls.find_method("__eq__")
        if f is None:
            raise Undecided("no __eq__")
        holder["f"] = f
        return it.run_function(Fn(f, a), [b], {})

    pol = lambda fi, node: fi.module.name.startswith("indi.message") and fi.module.name != "indi.message.checks"
    paths = explore(p, run, {"inline": pol, "max_depth": 12})
    ctx.paths_enumerated += len(paths)
    if len(paths) != 1 or paths[0].outcome != "return":
        return None, holder.get("f")
    return paths[0].interp.truth_of(paths[0].value), holder.get("f")


def rule_eq(ctx):
    """Equality decided by abstract evaluation of __eq__ on a perturbation table (the property's own quantifier)."""
    p = ctx.p
    classes = concrete_message_classes(p)
    n = 0
    bad = False
    f_last = None
    for ci in classes:
        base = lambda ci=ci: _concrete_instance(ctx, ci)
        probe = base()
        attrs = [k for k in probe.attrs if not k.startswith("__") and k != "children"]
        kids = probe.attrs.get("children")
        perts = []
        for k in attrs:
            def ch(k=k, ci=ci):
                o = _concrete_instance(ctx, ci)
                o.attrs[k] = Const(_flip(o.attrs[k].v))
                return o
            def dr(k=k, ci=ci):
                o = _concrete_instance(ctx, ci)
                o.attrs[k] = Const(None)
                return o
            perts.append((f"attribute '{k}' changed" if k != "value" else "text changed", ch))
            perts.append((f"attribute '{k}' dropped" if k != "value" else "text dropped", dr))
        if kids is not None:
            nk = len(kids.items)
            for i in range(nk):
                for ck in [k for k in kids.items[i].attrs if not k.startswith("__")]:
                    def chc(i=i, ck=ck, ci=ci):
                        o = _concrete_instance(ctx, ci)
                        o.attrs["children"].items[i].attrs[ck] = Const(_flip(o.attrs["children"].items[i].attrs[ck].v))
                        return o
                    perts.append((f"child #{i}: '{ck}' changed", chc))
                def drop(i=i, ci=ci):
                    o = _concrete_instance(ctx, ci)
                    del o.attrs["children"].items[i]
                    return o
                def dup(i=i, ci=ci):
                    o = _concrete_instance(ctx, ci)
                    o.attrs["children"].items.insert(i, o.attrs["children"].items[i])
                    return o
                perts.append((f"child #{i} dropped", drop))
                perts.append((f"child #{i} duplicated", dup))
                if i + 1 < nk:
                    def swap(i=i, ci=ci):
                        o = _concrete_instance(ctx, ci)
                        it_ = o.attrs["children"].items
                        it_[i], it_[i + 1] = it_[i + 1], it_[i]
                        return o
                    perts.append((f"children #{i} and #{i + 1} swapped", swap))
            def nochildren(ci=ci):
                o = _concrete_instance(ctx, ci)
                o.attrs["children"] = Lst([])
                return o
            perts.append(("all children dropped", nochildren))
        # kind changed: another concrete class carrying the very same fields
        for other in classes:
            if other is not ci:
                oa = [k for k in _concrete_instance(ctx, other).attrs if not k.startswith("__")]
                if sorted(oa) == sorted(k for k in probe.attrs if not k.startswith("__")):
                    def kind(ci=ci, other=other):
                        o = _concrete_instance(ctx, ci)
                        o.cls = other
                        o.hint = other
                        return o
                    perts.append((f"kind changed to {other.name}", kind))
                    break
        t, f_ = _eval_eq(ctx, base, base)
        f_last = f_ or f_last
        n += 1
        inst = f"{f_.short if f_ else '__eq__'}[{ci.name}]"
        if t is None:
            ctx.undecided("C20.EQ", inst, "equality of two independently built equal messages is not decided by constant evaluation", fi=f_)
            bad = True
            continue
        if not t:
            ctx.violated("C20.EQ", inst, "two independently rebuilt, field-for-field identical messages compare unequal", fi=f_, text=f"copy-unequal:{ci.name}")
            bad = True
        for what, mk in perts:
            n += 1
            t, _ = _eval_eq(ctx, base, mk)
            t2, _ = _eval_eq(ctx, mk, base)
            if t is None or t2 is None:
                ctx.undecided("C20.EQ", inst, f"perturbation '{what}' not decided by constant evaluation", fi=f_)
                bad = True
            elif t or t2:
                ctx.violated("C20.EQ", inst, f"messages that differ by [{what}] compare equal", fi=f_, text=f"equal-despite:{_pert_class(what)}", witness=f"{ci.name}: {what}")
                bad = True
    # parts: class identity matters (same fields, other kind)
    parts = concrete_part_classes(p)
    for pc in parts:
        for other in parts:
            if other is pc:
                continue
            a_attrs = sorted(k for k in _concrete_part(ctx, pc, "v").attrs if not k.startswith("__"))
            b_attrs = sorted(k for k in _concrete_part(ctx, other, "v").attrs if not k.startswith("__"))
            if a_attrs != b_attrs:
                continue
            n += 1
            t, f_ = _eval_eq(ctx, lambda pc=pc: _concrete_part(ctx, pc, "v"), lambda other=other: _concrete_part(ctx, other, "v"))
            if t is None:
                ctx.undecided("C20.EQ", f"{pc.short} vs {other.name}", "not decided", ci=pc)
                bad = True
            elif t:
                ctx.violated("C20.EQ", f"{f_.short}[{pc.name}]", f"a <{pc.name}> and a <{other.name}> with identical fields compare equal", fi=f_, text=f"part-kind:{pc.name}", witness=f"{pc.name} vs {other.name}")
                bad = True
            break
    for base_ in (msg_base(p), part_base(p)):
        for ci in [base_] + base_.all_subclasses():
            if "__ne__" in ci.methods:
                ctx.violated("C20.EQ", ci.methods["__ne__"].short, "__ne__ is overridden: != is no longer the negation of the analysed ==", fi=ci.methods["__ne__"], text="__ne__")
                bad = True
    ctx.counters["C20.EQ:equality evaluations"] = n
    if not bad:
        ctx.holds("C20.EQ", "indi/message/base.py::IndiMessage.__eq__", f"{n} evaluations: rebuilt copies equal; every single-point perturbation (attribute, text, each child changed/dropped/duplicated/swapped, kind) unequal, in both argument orders", fi=f_last)
    ctx.exhaustive_domains.append("every concrete message class x every single-point perturbation of the property's quantifier")


def _valid_constant(ci, field, is_part):
    """A constant every validator of the field accepts (vocabulary member / number text), else a plain distinct string."""
    from .. import protocol_tables as T
    tag = ci.name[0].lower() + ci.name[1:]
    for (spec, f), vocab in T.FIELD_VOCAB.items():
        if f != field:
            continue
        spec_is_part = not spec.endswith("Vector") and spec != "enableBLOB"
        if spec_is_part != is_part:
            continue
        if ("*" in spec and tag.startswith(spec.split("*")[0]) and tag.endswith(spec.split("*")[1])) or spec == tag:
            return sorted(T.VOCAB_MEMBERS[vocab])[0]
    if is_part and (tag, field) in T.NUMBER_FIELDS:
        return "1.5"
    return f"v-{field}"


def rule_stable(ctx):
    """Equality is a function of what a message was built from, not of what has been done with it: two copies built by the
    real constructor from the same (valid, constant) arguments stay equal - both ways round - after one of them has been
    serialised, rendered or compared: whatever those operations memoise on the object must not enter the comparison."""
    from ..absint import Cls, Frame
    p = ctx.p
    classes = concrete_message_classes(p)
    pol = lambda fi, node: fi.module.name.startswith("indi.message")
    n = 0
    bad = False
    for ci in classes:
        kw_names = [k for k in full_kwargs(p, ci)]
        eqf = ci.find_method("__eq__")
        if eqf is None:
            continue
        ccls = None
        for cand in ("children_class", "child_class"):
            v = p.class_constant(ci, cand)
            if v is not None and hasattr(v, "mro"):
                ccls = v

        def build(it):
            kw = {}
            for k in kw_names:
                if k == "children":
                    if ccls is None:
                        continue
                    kids = []
                    for j in range(2):
                        ck = {n_: Const(_valid_constant(ccls, n_, True) + (str(j) if n_ == "name" else "")) for n_ in full_kwargs(p, ccls)}
                        kids.append(it.apply(Cls(ccls), [], ck, [], None, Frame(None, ccls.module, {}), False))
                        if isinstance(kids[-1], Obj):
                            kids[-1].attrs["__closed__"] = Const(True)  # a constructed object has the attributes its constructor set
                    kw[k] = Tup(kids)
                else:
                    kw[k] = Const(_valid_constant(ci, k, part_base(p) in ci.mro))
            o = it.apply(Cls(ci), [], kw, [], None, Frame(None, ci.module, {}), False)
            if isinstance(o, Obj):
                o.attrs["__closed__"] = Const(True)
            return o

        for op in ("to_string", "to_dict", "to_xml", "__eq__"):
            if ci.find_method(op) is None:
                continue
            n += 1

            def run(it: Interp, op=op):
                a, b = build(it), build(it)
                if not (isinstance(a, Obj) and isinstance(b, Obj)):
                    raise Undecided("construction did not yield abstract objects")
                before = it.truth_of(it.run_function(Fn(eqf, a), [b], {}))
                it.run_function(Fn(ci.find_method(op), a), [b] if op == "__eq__" else [], {})
                it.verdict = (before, it.truth_of(it.run_function(Fn(eqf, a), [b], {})), it.truth_of(it.run_function(Fn(eqf, b), [a], {})))
                return Const(None)

            inst = f"{eqf.short}[{ci.name}]"
            try:
                paths = explore(p, run, {"inline": pol, "instantiate": lambda k: k.module.name.startswith("indi.message"), "max_depth": 12})
            except Undecided as u:
                ctx.undecided("C20.STABLE", inst, str(u), fi=eqf)
                bad = True
                break
            ctx.paths_enumerated += len(paths)
            if len(paths) != 1 or paths[0].outcome != "return":
                ctx.undecided("C20.STABLE", inst, f"construction from valid constants + {op}() is not decided by constant evaluation ({len(paths)} paths, {paths[0].outcome if paths else None})", fi=eqf)
                bad = True
                break
            before, ab, ba = paths[0].interp.verdict
            if before is not True:
                ctx.undecided("C20.STABLE", inst, "equality of two fresh copies not decided by constant evaluation", fi=eqf)
                bad = True
                break
            if ab is not True or ba is not True:
                ctx.violated("C20.STABLE", inst, f"two {ci.name} built from the same arguments compare equal, but after {op}() was called on one of them a == b is {ab} and b == a is {ba}: what {op}() leaves behind on the object enters the comparison", fi=eqf, text=f"history:{op}", witness=f"a = {ci.name}(...); b = {ci.name}(...); a.{op}(); a == b")
                bad = True
                break
    ctx.counters["C20.STABLE:(class, operation) pairs"] = n
    if not bad:
        ctx.holds("C20.STABLE", "indi/message/base.py::IndiMessage.__eq__", f"{n} (class, operation) pairs: copies stay equal after one of them was serialised / rendered / compared", fi=msg_base(p).find_method("__eq__"))


def _flip(s: str) -> str:
    """A different string of the same length (so that a rendering that keeps only the length is caught)."""
    return s[:-1] + ("#" if s[-1] != "#" else "%")


def _pert_class(what: str) -> str:
    import re as _re
    return _re.sub(r"'[^']*'|#\d+|to \w+", "*", what)


def rule_ctor(ctx):
    """Equality is about what a message was built from: every named constructor argument (message and part classes) is
    kept by the constructor - on every path on which construction succeeds - in a form that reaches the rendering that
    __eq__ compares.  A constructor that drops or replaces an argument under some condition makes two different messages
    equal."""
    p = ctx.p
    classes = concrete_message_classes(p) + concrete_part_classes(p)
    n = 0
    # arguments are text when a message is parsed, and any value (numbers, decimals) when it is built by a program:
    # both are explored, the second only matters where the constructor's treatment depends on the argument's type
    for ci, typed in [(c_, t_) for c_ in classes for t_ in (True, False)]:
        kw = {k: (v if k == "children" else (Term("param", f"arg.{k}", pytype="str") if typed else Term("param", f"arg.{k}", pytype="number"))) for k, v in full_kwargs(p, ci).items()}
        names = [k for k in kw if k != "children"]
        try:
            res = abstract_construct(p, ci, kw, inline_prefixes=("indi.message.", "indi.message.checks."))
        except Undecided as u:
            if typed:
                ctx.undecided("C20.CTOR", ci.short, str(u), ci=ci)
            continue
        init = ci.find_method("__init__")
        bad = False
        okpaths = 0
        for pa, o in res:
            if pa.outcome != "return" or not isinstance(o, Obj):
                continue
            okpaths += 1
            try:
                f, rpaths = _render(ctx, o)
            except Undecided as u:
                ctx.undecided("C20.CTOR", ci.short, str(u), ci=ci)
                bad = True
                break
            for rp in rpaths:
                if rp.outcome != "return" or not isinstance(rp.value, Dct):
                    continue
                for k in names:
                    n += 1
                    s = kw[k]
                    if not any(_has(vv, s) for _, vv in rp.value.pairs):
                        conds = [show(a.data["cond"])[:60] for a in pa.assumes() if a.data["truth"]][:3]
                        ctx.violated("C20.CTOR", f"{(init or f).short}[{ci.name}]", f"constructor argument '{k}' of {ci.name} does not reach the compared rendering on a path on which construction succeeds (assumed: {conds}): two {ci.name} built with different '{k}' compare equal", fi=init or f, text=f"{ci.name}.{k}", witness=f"{ci.name}({k}=x) == {ci.name}({k}=y) under {conds}")
                        bad = True
        if okpaths == 0:
            if typed:
                ctx.undecided("C20.CTOR", ci.short, "no successful construction path explored", ci=ci)
        elif not bad and typed:
            ctx.holds("C20.CTOR", ci.short, f"all {len(names)} named arguments reach the rendering on {okpaths} construction path(s)", ci=ci)
    ctx.floor("C20.CTOR", "argument x path evaluations", n, 100)


# equality does not record a child's kind: it is structural only because every child of a vector is forced to the
# vector's one child kind (C13.RAISE: checks.children tests every child; C13.CHILD: against the right, unambiguous kind)
IMPORTS = [('C13', 'C13.RAISE'), ('C13', 'C13.CHILD')]

RULES = [
    ("C20.CTOR", rule_ctor, "every named constructor argument reaches the compared rendering on every successful construction path"),
    ("C20.STABLE", rule_stable, "copies built from the same arguments stay equal after one of them was serialised, rendered or compared"),
    ("C20.EQ", rule_eq, "__eq__ abstractly evaluated on the perturbation table: copies equal, every single-point perturbation unequal"),
    ("C20.RETAIN", rule_retain, "to_dict retains every attribute under its key, the text, and all children as an ordered 1:1 sequence"),
]
