"""C04 - client messages reach exactly the addressed devices."""
from __future__ import annotations

from ..absint import Cls, Const, Fn, Interp, Obj, Term, explore, is_call, run_method, show
from ..model import Undecided
from .. import protocol_tables as T
from .common import concrete_message_classes, flag, lower_first, path_text
from .routermodel import World, deliveries, message_obj, router_cls, run_router

EXPLANATION = (
    "Truth-table analysis of the router's from-client branch plus the direction table. C04.DIR: the from_client/from_device class flags of every "
    'concrete message class equal the INDI direction table. C04.DEV: Router.process_message is abstractly interpreted for every concrete message '
    'class x sender in {device0, a client, none} x message device in {A, none}, with two abstract devices whose accepts() result is left symbolic '
    '(the exploration forks on it): on every path a device receives the message exactly once iff the message is client-originated, the device is '
    'not the sender and its accepts(message.device) was assumed true; accepts is asked about message.device; the message is handed over '
    'unmodified. C04.NOLEAK: on no path is a message handed to a client unless it is device-originated per the protocol table (only getProperties '
    'is both). C04.HIST: two consecutive messages with different senders on one router (built by interpreting Router.__init__ and the register '
    "functions, helper methods inlined): the routing of the second is independent of the first. C04.ACC: accepts of a driver 'A' constructed "
    "beside a driver 'B' evaluated over {none, own name, other name, other case, longer, empty} = (T,T,F,F,F,F), and each constructed driver "
    'reports the name it was built with; a constant-true implementation is the catch-all device; every concrete routing.Device subclass overrides '
    'accepts and message_from_client. C04.WRITE is shared with C05.WRITE (who may write the tables).'
    ' C04.WIRE: every registered message kind is parsed (abstractly, by the real from_xml and constructors) from an element that also carries attributes named like the routing flags (from_client="", from_device="1") and a vendor attribute: the flags read off the parsed object must be the True/False of its class - a peer cannot re-label the direction of its message.'
    ' C04.ISOLATED: two routers are constructed side by side in one interpreter state (2 clients and 2 devices each): the tables are per router and a message processed by one is never handed to the peers of the other (class-level tables are one object for all routers).'
)
NOT_DECIDED = "exactly-once under histories that register the same device object twice."
ASSUMPTIONS = ["devices and clients do not override __eq__ (identity in 'device == sender')"]
TRUSTED = ["CPython ast", "indilint abstract interpreter"]


def rule_dir(ctx):
    p = ctx.p
    classes = concrete_message_classes(p)
    ctx.floor("C04.DIR", "concrete message classes", len(classes), 21)
    for ci in classes:
        tag = lower_first(ci.name)
        fc, fd = bool(flag(p, ci, "from_client")), bool(flag(p, ci, "from_device"))
        if tag in T.ADVISORY_TOPLEVEL:
            ctx.check(not fc, "C04.DIR", ci.short, "non-protocol top-level class is not client-originated", f"<{tag}> is no top-level INDI element but is flagged from_client", ci=ci, text=f"{tag}:advisory")
            continue
        proto = T.DIRECTION.get(tag)
        if proto is None:
            ctx.undecided("C04.DIR", ci.short, f"<{tag}> is not in the direction table", ci=ci)
            continue
        ctx.check((fc, fd) == proto, "C04.DIR", ci.short, f"from_client={fc} from_device={fd}", f"<{tag}> is flagged from_client={fc}, from_device={fd}; the protocol says from_client={proto[0]}, from_device={proto[1]}", ci=ci, text=f"{tag}:flags:{fc}:{fd}")


def rule_dev(ctx):
    p = ctx.p
    classes = concrete_message_classes(p)
    f = router_cls(p).find_method("process_message")
    rows = 0
    bad = 0
    for ci in classes:
        tag = lower_first(ci.name)
        proto = T.DIRECTION.get(tag)
        from_client = proto[0] if proto is not None else bool(flag(p, ci, "from_client"))
        from_device = proto[1] if proto is not None else bool(flag(p, ci, "from_device"))
        for mdev in ("A", None):
            for sender_kind in ("device0", "client0", "none"):
                def wf():
                    return World(p, 2, 2, {0: {"A": "Also"}, 1: {"A": "Also"}})

                def af(w):
                    m = message_obj(p, ci, device=mdev, value="Also" if tag == "enableBLOB" else None)
                    w.msg = m
                    s = {"client0": w.clients[0], "device0": w.devices[0], "none": Const(None)}[sender_kind]
                    return [m, s], {}

                _, paths = run_router(p, wf, "process_message", af)
                ctx.paths_enumerated += len(paths)
                for pa in paths:
                    rows += 1
                    row = f"{tag} device={mdev} sender={sender_kind}"
                    if pa.outcome != "return":
                        bad += 1
                        ctx.violated("C04.DEV", f.short, f"routing raises for [{row}]: {show(pa.value) if pa.value is not None else ''}", fi=f, text=f"raise:{tag}:{sender_kind}", witness=row)
                        continue
                    # what was assumed about accepts() on this path
                    acc = {}
                    asked = {}
                    for e in pa.events:
                        if e.kind == "call" and is_call(e.data["term"], method="accepts"):
                            callee = e.data["callee"]
                            recv = show(callee.self_val) if isinstance(callee, Fn) else "?"
                            asked[recv] = e.data["args"][0] if e.data["args"] else None
                    for e in pa.assumes():
                        c = e.data["cond"]
                        if isinstance(c, Term) and is_call(c, method="accepts"):
                            callee = c.args[0]
                            recv = show(callee.self_val) if isinstance(callee, Fn) else "?"
                            acc[recv] = e.data["truth"]
                    got = {}
                    for recv, arg, ev in deliveries(pa, "message_from_client"):
                        got.setdefault(recv, []).append(arg)
                    for i in range(2):
                        d = f"device{i}"
                        is_sender = sender_kind == d
                        n = len(got.get(d, []))
                        if not from_client or is_sender:
                            if n:
                                bad += 1
                                ctx.violated("C04.DEV", f.short, f"<{tag}> is handed to a device although {'it is the sender' if is_sender else 'the message is not client-originated'}", fi=f, text=f"leak:{'sender' if is_sender else 'direction'}:{tag if not from_client else ''}", witness=row)
                            continue
                        if d not in acc:
                            bad += 1
                            ctx.violated("C04.DEV", f.short, f"a device that is not the sender is not asked whether it accepts <{tag}> (delivered {n} times)", fi=f, text=f"accepts-not-consulted:{n}", witness=row)
                            continue
                        a = asked.get(d)
                        if a is None or not (isinstance(a, Const) and a.v == mdev):
                            bad += 1
                            ctx.violated("C04.DEV", f.short, f"accepts() is asked about {show(a) if a is not None else None} instead of the message's device name", fi=f, text="accepts-arg", witness=row)
                        if acc[d] and n != 1:
                            bad += 1
                            ctx.violated("C04.DEV", f.short, f"a device that accepts <{tag}> receives it {n} times (expected once)", fi=f, text=f"count:{n}", witness=row)
                        if not acc[d] and n != 0:
                            bad += 1
                            ctx.violated("C04.DEV", f.short, f"a device that does not accept the device name still receives <{tag}>", fi=f, text="not-accepted-delivered", witness=row)
                        if n and got[d][0] is not pa.world.msg:
                            bad += 1
                            ctx.violated("C04.DEV", f.short, "the delivered object is not the message itself", fi=f, text="altered", witness=row)
                    # NOLEAK
                    cl = deliveries(pa, "message_from_device")
                    if cl and not from_device:
                        bad += 1
                        ctx.violated("C04.NOLEAK", f.short, f"device-bound <{tag}> is forwarded to client(s) {[r for r, _, _ in cl]}", fi=f, text=f"forwarded:{tag}", witness=row)
                    if sender_kind == "client0" and any(r == "client0" for r, _, _ in cl):
                        bad += 1
                        ctx.violated("C04.NOLEAK", f.short, f"<{tag}> is handed back to its sender", fi=f, text="echo", witness=row)
                if rows % 60 == 1:
                    ctx.sample({"rule": "C04.DEV", "row": f"{tag} device={mdev} sender={sender_kind}", "paths": len(paths), "path": path_text(paths[-1], 8)})
    ctx.counters["C04.DEV:paths (rows x accepts outcomes)"] = rows
    if not bad:
        ctx.holds("C04.DEV", f.short, f"{rows} (class x device x sender x accepts-outcome) paths agree with the oracle", fi=f)
        ctx.holds("C04.NOLEAK", f.short, "no client delivery of a message that is not device-originated; never back to the sender", fi=f)
    ctx.exhaustive_domains.append("21 classes x device in {A,none} x 3 senders x 2^2 accepts outcomes")


def rule_hist(ctx):
    """Two consecutive client messages with different senders on the same router: routing of the second must not
    depend on the first (a per-name route cache that bakes the first sender's exclusion in breaks exactly this)."""
    p = ctx.p
    f = router_cls(p).find_method("process_message")
    gp = p.cls("indi.message.get_properties.GetProperties")
    nt = p.cls("indi.message.news.NewTextVector")
    senders = ("device0", "device1", "client0", "none")
    n = 0
    bad = False
    for ci in (gp, nt):
        tag = lower_first(ci.name)
        for s1 in senders:
            for s2 in senders:
                if s1 == s2:
                    continue
                for between in ("nothing", "register-client"):
                    n += 1

                    def wf():
                        return World(p, 2, 2, {})

                    def af(w):
                        pick = lambda s: {"client0": w.clients[0], "device0": w.devices[0], "device1": w.devices[1], "none": Const(None)}[s]
                        m1 = message_obj(p, ci, device="A")
                        m2 = message_obj(p, ci, device="A")
                        m2.label = m2.label + "#2"
                        w.msgs = (m1, m2)
                        return [([m1, pick(s1)], {}), ([m2, pick(s2)], {})]

                    _, paths = run_router(p, wf, "process_message", af)
                    ctx.paths_enumerated += len(paths)
                    for pa in paths:
                        row = f"{tag}: first from {s1}, then from {s2}"
                        if pa.outcome != "return":
                            ctx.violated("C04.HIST", f.short, f"[{row}] raises", fi=f, text=f"hist-raise:{tag}", witness=row)
                            bad = True
                            continue
                        mark = pa.interp.call_marks[1]
                        m2 = pa.world.msgs[1]
                        acc1, acc2 = {}, {}
                        for e in pa.assumes():
                            c_ = e.data["cond"]
                            if isinstance(c_, Term) and is_call(c_, method="accepts") and isinstance(c_.args[0], Fn):
                                (acc2 if e.idx >= mark else acc1)[show(c_.args[0].self_val)] = e.data["truth"]
                        got = {}
                        for recv, arg, ev in deliveries(pa, "message_from_client"):
                            if ev.idx >= mark:
                                got.setdefault(recv, []).append(arg)
                        for i in range(2):
                            d = f"device{i}"
                            accepts = acc2.get(d, acc1.get(d))
                            nrecv = len(got.get(d, []))
                            if d == s2:
                                exp = 0
                            elif accepts is None:
                                ctx.violated("C04.HIST", f.short, f"[{row}]: {d} was never asked whether it accepts the device name (second message delivered {nrecv} times)", fi=f, text=f"hist-unasked:{nrecv}", witness=row)
                                bad = True
                                continue
                            else:
                                exp = 1 if accepts else 0
                            if nrecv != exp:
                                why = "it is the sender of the second message" if d == s2 else f"it {'accepts' if accepts else 'does not accept'} the name"
                                ctx.violated("C04.HIST", f.short, f"[{row}]: the second message reaches {d} {nrecv} times, expected {exp} ({why}): routing of a message depends on who sent an earlier one", fi=f, text=f"hist:{'sender' if d == s2 else 'other'}:{nrecv}:{exp}", witness=row)
                                bad = True
                            elif nrecv and got[d][0] is not m2:
                                ctx.violated("C04.HIST", f.short, f"[{row}]: {d} is handed the first message again", fi=f, text="hist-wrong-message", witness=row)
                                bad = True
    ctx.counters["C04.HIST:two-message histories"] = n
    if not bad:
        ctx.holds("C04.HIST", f.short, f"{n} two-message histories (2 kinds x ordered sender pairs): routing of the second message is independent of the first", fi=f)


def rule_isolated(ctx):
    """Routers are independent objects: with two routers in one process (one per transport, or a router re-created after
    a restart) a message processed by one is handed only to the devices and clients registered with that one, and a new
    router starts empty.  Tables kept at class level are one object for all routers and break exactly this."""
    from . import routermodel as RM
    p = ctx.p
    f = router_cls(p).find_method("process_message")
    gp = p.cls("indi.message.get_properties.GetProperties")
    nt = p.cls("indi.message.news.NewTextVector")
    bad = False
    n = 0
    for ci in (gp, nt):
        for sender in ("client", "none"):
            n += 1

            def run(it: Interp):
                RM._CURRENT_IT = it
                try:
                    w1 = World(p, 2, 2, {})
                    w2 = World(p, 2, 2, {})
                finally:
                    RM._CURRENT_IT = None
                for i, o in enumerate(w2.devices):
                    o.label = f"other-router-device{i}"
                for i, o in enumerate(w2.clients):
                    o.label = f"other-router-client{i}"
                it.w1, it.w2 = w1, w2
                it.sizes = ([len(w.table(k).items if k != "blob_routing" else w.table(k).pairs) for k in ("clients", "devices", "blob_routing")] for w in (w1, w2))
                it.sizes = [list(x) for x in it.sizes]
                m = message_obj(p, ci, device=None)
                del it.events[:]
                return it.run_function(Fn(f, w1.router), [m, w1.clients[0] if sender == "client" else Const(None)], {})

            paths = explore(p, run, {"inline": lambda fi, node: fi.cls is router_cls(p) and fi is not f, "strict_keys": True})
            ctx.paths_enumerated += len(paths)
            for pa in paths:
                if pa.outcome != "return":
                    continue
                if pa.interp.sizes != [[2, 2, 2], [2, 2, 2]]:
                    ctx.violated("C04.ISOLATED", f.short, f"two routers built side by side (2 clients, 2 devices each) hold tables of sizes {pa.interp.sizes} (clients, devices, policies): the registration tables are shared between router objects", fi=f, text="shared-tables", witness="Router(); Router()")
                    bad = True
                    break
                foreign = [lab for lab, _, _ in deliveries(pa, "message_from_client") + deliveries(pa, "message_from_device") if lab.startswith("other-router")]
                if foreign:
                    ctx.violated("C04.ISOLATED", f.short, f"a <{lower_first(ci.name)}> processed by one router is handed to {sorted(set(foreign))}, which are registered with another router of the same process", fi=f, text=f"cross-router:{ci.name}", witness=f"{ci.name} via router 1")
                    bad = True
    if not bad:
        ctx.holds("C04.ISOLATED", f.short, f"{n} scenarios with two routers in one interpreter state: tables are per router, nothing crosses over", fi=f)


def rule_reentrant(ctx):
    from .routermodel import check_reentrant
    check_reentrant(ctx, "C04.REENTRANT", "device")


def rule_acc(ctx):
    from .driverworld import build_drivers
    p = ctx.p
    drv_cls = p.cls("indi.device.driver.Driver")
    dbase = p.cls("indi.routing.device.Device")
    subs = dbase.all_subclasses()
    ctx.floor("C04.ACC", "routing.Device subclasses", len(subs), 2)
    n = 0
    for ci in subs:
        for meth in ("accepts", "message_from_client"):
            f = ci.find_method(meth)
            ctx.check(f is not None and f.cls is not dbase, "C04.ACC", f"{ci.short}.{meth}", "overrides the abstract method", f"{ci.name} inherits the abstract {meth} (raises 'Not implemented')", ci=ci, text=f"{ci.name}.{meth}:abstract")
        f = ci.methods.get("accepts")
        if f is None:
            continue
        n += 1
        results = []
        for dev in (None, "A", "B", "a", "AA", ""):
            def run(it: Interp, dev=dev, f=f, ci=ci):
                if ci is drv_cls:
                    # a driver named 'A' produced by the real constructor (a second one named 'B' exists beside it)
                    o = build_drivers(it, p, names=(("DevA", "A"), ("DevB", "B")))["A"]
                else:
                    o = Obj(ci, {}, label="dev")
                return it.run_function(Fn(f, o), [Const(dev)], {})

            paths = explore(p, run, {"inline": lambda fi, node: fi.kind == "getter" and fi.cls is not None and fi.cls in ci.mro})
            if len(paths) != 1 or paths[0].outcome != "return":
                results.append("?")
                continue
            v = paths[0].value
            t = paths[0].interp.truth_of(v)
            results.append("?" if t is None else t)
        if "?" in results:
            ctx.undecided("C04.ACC", f.short, f"accepts not decided by constant evaluation: {results}", fi=f)
        elif results == [True, True, False, False, False, False]:
            ctx.holds("C04.ACC", f.short, "accepts(None)=T accepts(own)=T accepts(other / other-case / longer / empty)=F", fi=f)
        elif results == [True] * 6:
            ctx.holds("C04.ACC", f.short, "constant true: catch-all device", fi=f)
        else:
            ctx.violated("C04.ACC", f.short, f"accepts over (no device, own name, other name) = {results}, expected (True, True, False, False, False, False) over (none, own, other, other-case, longer, empty)", fi=f, text=f"accepts:{results}")
    ctx.floor("C04.ACC", "accepts implementations", n, 2)


def rule_name(ctx):
    """Driver.name (what accepts compares with) is the configured name, stable per instance."""
    p = ctx.p
    drv = p.cls("indi.device.driver.Driver")
    g = drv.getters.get("name")
    if g is None:
        raise Undecided("Driver.name getter not found")
    from .driverworld import build_drivers
    from .common import public_get

    def run(it: Interp):
        ds = build_drivers(it, p, names=(("DevA", "A"), ("DevB", "B")))
        it.names = [public_get(it, ds[k], "name") for k in ("A", "B")]
        return Const(None)

    paths = explore(p, run, {"inline": lambda fi, node: False})
    ok = bool(paths) and all(pa.outcome == "return" and [show(x) for x in pa.interp.names] == ["'A'", "'B'"] for pa in paths)
    ctx.check(ok, "C04.ACC", g.short, "each constructed driver reports the name it was constructed with", "Driver.name does not return the name set at construction (two drivers 'A' and 'B' constructed)", fi=g, text="name-getter")


def rule_wire(ctx):
    """The direction of a message is a property of its kind, not of its content: a message parsed off the wire routes by
    the flags of its class whatever attributes the peer put into the element (a peer must not be able to re-label a
    client message as device-originated, or hide it from the devices, by naming an attribute like a routing flag)."""
    from ..absint import Frame
    from .c03 import parse_opts, seed_registry, xml_element
    from .common import msg_base
    p = ctx.p
    regs, opts = parse_opts(p)
    base = msg_base(p)
    f = base.find_method("from_xml")
    if f is None:
        raise Undecided("IndiMessage.from_xml missing")
    hostile = {"from_client": "", "from_device": "1", "vendor": "acme"}
    n = 0
    for ci in regs:
        sig = p.init_chain_signature(ci)
        names = [n_ for n_ in sig.named() if n_ not in ("children", "value")]
        attrib = {n_: ("Also" if n_ == "value" else f"{n_}-text") for n_ in names}
        attrib.update(hostile)
        tag = lower_first(ci.name)
        want = (bool(flag(p, ci, "from_client")), bool(flag(p, ci, "from_device")))
        got = []

        def run(it: Interp, ci=ci, attrib=attrib, tag=tag, got=got):
            seed_registry(it, p, regs)
            el = xml_element(tag, attrib, "Also" if tag == "enableBLOB" else None, [])
            r = it.run_function(Fn(f, Cls(base)), [el], {})
            fr = Frame(None, base.module, {})
            got.append(tuple(it.get_attr(r, a, None, fr) for a in ("from_client", "from_device")))
            return Const(None)

        paths = explore(p, run, opts)
        ctx.paths_enumerated += len(paths)
        inst = f"{f.short}[<{tag}>]"
        if len(paths) != 1 or paths[0].outcome != "return" or len(got) != 1:
            # kinds whose constructor refuses this element (e.g. a vector without children) say nothing about routing
            if len(paths) == 1 and paths[0].outcome == "raise":
                continue
            ctx.undecided("C04.WIRE", inst, f"parsing <{tag}> with extra attributes is not decided by constant evaluation ({len(paths)} paths)", fi=f)
            continue
        n += 1
        # the very flag objects of the class (True / False), not attribute text that happens to have the same truth value
        ok = all(isinstance(v, Const) and isinstance(v.v, bool) and v.v is w for v, w in zip(got[0], want))
        ctx.check(ok, "C04.WIRE", inst, f"routes as its class says (from_client={want[0]}, from_device={want[1]}) whatever attributes the element carries", f"<{tag} from_client=\"\" from_device=\"1\" ...> parses to a message whose routing flags read from_client={show(got[0][0])}, from_device={show(got[0][1])}; its class says {want}: a peer re-labels the direction of its message through an attribute", fi=f, text=f"wire-flags:{tag}", witness=f'<{tag} from_client="" from_device="1" .../>')
    ctx.floor("C04.WIRE", "message kinds parsed with hostile attributes", n, 12)


EXPLANATION = EXPLANATION + ' C04.REENTRANT also covers a peer that leaves and registers again from inside its delivery and a peer that sends a message of its own through the router from inside its delivery (both messages reach every peer exactly once).'

RULES = [
    ("C04.WIRE", rule_wire, "a parsed message routes by the direction flags of its class, whatever attributes the element carries"),
    ("C04.DIR", rule_dir, "direction flags of every message class equal the INDI direction table"),
    ("C04.DEV", rule_dev, "from-client branch: each non-sender device that accepts message.device gets the message exactly once, nobody else; no client gets device-bound messages"),
    ("C04.ISOLATED", rule_isolated, "two routers in one process are independent: per-router tables, no cross-delivery"),
    ("C04.REENTRANT", rule_reentrant, "devices (un)registered from inside a delivery: everybody registered at its turn is served exactly once"),
    ("C04.HIST", rule_hist, "two-message histories with different senders: the second routing is independent of the first"),
    ("C04.ACC", rule_acc, "accepts truth table of every routing.Device implementation; abstract methods overridden"),
    ("C04.NAME", rule_name, "Driver.name is the configured name"),
]
