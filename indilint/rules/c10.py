"""C10 - number rendering and parsing: the syntactic clauses, decided as regular-language inclusions."""
from __future__ import annotations

import itertools
import math
import re as _re

from ..absint import Builtin, Cls, Const, Dct, Fn, Foreign, Interp, Lst, Obj, Term, Tup, explore, is_call, mentions, run_method, show, subterms
from ..model import Undecided
from .. import protocol_tables as T
from ..reglang import PY_FLOAT, PY_INT, Lang, find_witness, group_lang, included, stripped_lang
from .c13 import number_validator_lang

EXPLANATION = (
    "Only the syntactic clauses of C10 are decidable statically; they are decided exactly, as inclusions of regular languages built from "
    "the regex literals and format specifications in the source (regex -> NFA -> DFA over a representative alphabet; failures come with "
    "a shortest witness string). C10.ACCEPT: L(INDI number grammar: integer, decimal, sexagesimal with ':', ';' or blank) is included in "
    "L(message validator). C10.PARSE: for every format class (printf, %.3m, %.5m, %.6m, %.8m, %.9m, with and without width) str_to_num "
    "is path-enumerated with the format as a constant and the text symbolic; the language it accepts is the union over its returning "
    "paths of the conjunction of the path's constraints on the text (regex matches, the '.'-test, implicit int()/float() of the text), "
    "and L(grammar) must be included in it; every capture group handed to int()/float() must lie inside Python's numeric syntax "
    "(conversion safety). C10.RENDER: for every format class num_to_str is path-enumerated; the output language of each returned "
    "f-string is derived from its field specifications and interval facts (divmod / // / % / floor bounds carried per path), that of the "
    "printf branch from a model of CPython %-formatting over the format grammar %[-+ 0#]*width(.prec){d,f} (576 formats), including "
    "whether the result is stripped; each must be included in L(message validator). C10.SIGN / C10.CARRY decide the structural halves of two "
    "numeric clauses: on every feasible returning path of str_to_num the value is sign x (whole + minutes/60 + seconds/3600) as a linear form "
    "in the captured fields (sign tests on linear forms are checked for feasibility, all magnitudes being >= 0); num_to_str renders a separate "
    "leading sign and computes every field from abs(n), and every field after a ':' is an integer bounded by 59 derived from one rounded total."
    ' Imported C07.META: the number text a driver emits is num_to_str(current value, own format) under every history (no stale rendering after reset_value).'
)
NOT_DECIDED = "the numeric tolerance clauses: that rendered text denotes the value within the format's resolution and parses back within it (real arithmetic, out of reach for this family); of the sign convention and the carry only the structural halves above are decided."
ASSUMPTIONS = [
    "model of CPython %-formatting and f-string field formatting for finite ints/floats (padding, sign flags, precision)",
    "int()/float() accept exactly Python's numeric literal syntax (underscores and exponents included, inf/nan ignored)",
    "divmod(a, k), a // k, a % k bounds for non-negative a and positive constant k",
]
TRUSTED = ["CPython ast", "re._parser", "indilint reglang (DFA inclusion) and abstract interpreter"]

SEX_FORMATS = [f"%.{k}m" for k in T.SEXAGESIMAL_FRACTIONS] + ["%10.6m", "%9.3m"]
PRINTF_SAMPLE = ["%f", "%d", "%.2f", "%8.2f", "%+d", "% .3f", "%-8.1f", "%08.3f", "%#.0f", "%5d"]


def _values_fn(p, name):
    return p.func(f"indi.device.values.{name}")


def grammar_lang() -> Lang:
    return Lang(T.NUM_REQUIRED_GRAMMAR, mode="fullmatch", name="INDI number grammar")


# ------------------------------------------------------------------------- ACCEPT
def rule_accept(ctx):
    p = ctx.p
    V, pats = number_validator_lang(ctx)
    f = p.func("indi.message.checks.number")
    G = grammar_lang()
    ok, wit, stats = included(G, V)
    ctx.sample({"rule": "C10.ACCEPT", "validator_patterns": pats, "stats": stats, "witness": wit})
    ctx.check(ok, "C10.ACCEPT", f.short, f"L(INDI number grammar) within L(validator) ({stats})", f"the validator rejects {wit!r}, which INDI allows a peer to send", fi=f, text=f"rejects:{wit!r}", witness=wit)
    for g in T.NUM_REQUIRED_GRAMMAR:
        okg, w, _ = included(Lang([g], "fullmatch"), V)
        ctx.check(okg, "C10.ACCEPT", f"{f.short}[{g}]", "accepted", f"number spelling {g} (e.g. {w!r}) is rejected by the validator", fi=f, text=f"form:{g}", witness=w)


# -------------------------------------------------------------------------- PARSE
def _s_derived(t) -> bool:
    return isinstance(t, (Term,)) and show(t) in ("s", "s.strip()", "str(s)", "str(s).strip()", "s.strip().strip()")


def _raiser(ev):
    callee = ev.data.get("callee")
    if isinstance(callee, Builtin) and callee.name in ("int", "float"):
        a = ev.data.get("args") or []
        if a and not isinstance(a[0], Const):
            return "ValueError"
    return None


def _group_ref(t):
    """(pattern, group index) when t is a capture group of a regex match on the text, else None."""
    if isinstance(t, Term) and t.op in ("unpack", "sub"):
        base, idx = t.args[0], t.args[1]
        k = idx if isinstance(idx, int) else (idx.v if isinstance(idx, Const) and isinstance(idx.v, int) else None)
        if k is None:
            return None
        if isinstance(base, Term) and base.op == "call" and isinstance(base.args[0], Term) and base.args[0].op == "attr" and base.args[0].args[1] == "groups":
            m = base.args[0].args[0]
            rx = getattr(m, "regex", None)
            if rx is not None:
                return rx[0], k + 1
    return None


def rule_parse(ctx):
    p = ctx.p
    f = _values_fn(p, "str_to_num")
    G = grammar_lang()
    formats = SEX_FORMATS + PRINTF_SAMPLE
    nfmt = 0
    for fmt in formats:
        nfmt += 1
        s = Term("param", "s", pytype="str")
        paths = run_method(p, f, args=[s, Const(fmt)], opts={"call_may_raise": _raiser, "assert_forks": True, "fork_ifexp": True})
        ctx.paths_enumerated += len(paths)
        atoms = {}  # key -> Lang
        clauses = []  # per returning path: list of (atom key, truth)
        bad = False

        def atom(key, lang_factory):
            if key not in atoms:
                atoms[key] = lang_factory()
            return key

        for pa in paths:
            cons = []
            undec = None
            for e in pa.events:
                if e.kind == "assume":
                    c = e.data["cond"]
                    rx = getattr(c, "regex", None)
                    if rx is not None and _s_derived(rx[2]):
                        cons.append((atom(("re", rx[0], rx[1]), lambda rx=rx: Lang([rx[0]], mode=rx[1] if rx[1] in ("match", "fullmatch") else "match")), e.data["truth"]))
                        if rx[1] == "search":
                            undec = "re.search on the text"
                    elif isinstance(c, Term) and c.op == "cmp" and c.args[0] in ("in", "not in") and isinstance(c.args[1], Const) and isinstance(c.args[1].v, str) and _s_derived(c.args[2]):
                        ch = c.args[1].v
                        truth = e.data["truth"] if c.args[0] == "in" else not e.data["truth"]
                        cons.append((atom(("has", ch), lambda ch=ch: Lang([r"(.|\n)*" + _re.escape(ch) + r"(.|\n)*"], mode="fullmatch")), truth))
                    elif isinstance(c, Term) and mentions(c, _s_derived) and not getattr(c, "regex", None):
                        if c.op == "cmp" and c.args[0] in ("is", "is not", "==", "!=") and isinstance(c.args[2], Const) and c.args[2].v is None:
                            continue
                        if _group_ref(c) or any(_group_ref(t) for t in subterms(c)):
                            continue
                        undec = f"condition on the text outside the recognised forms: {show(c)[:60]}"
                elif e.kind == "call" and isinstance(e.data.get("callee"), Builtin) and e.data["callee"].name in ("int", "float") and e.data["args"]:
                    a = e.data["args"][0]
                    conv = e.data["callee"].name
                    raised = any(r.kind == "raise" and r.data.get("implicit") and r.node is e.node and r.idx > e.idx and r.idx <= e.idx + 1 for r in pa.events)
                    if _s_derived(a):
                        if not raised:
                            cons.append((atom(("py", conv), lambda conv=conv: Lang([PY_INT if conv == "int" else PY_FLOAT], mode="fullmatch")), True))
                    else:
                        gr = _group_ref(a)
                        if gr is not None and not raised:
                            # conversion safety, under the path's own '.'-tests on that group
                            pat, k = gr
                            try:
                                gl = group_lang(pat, k)
                            except Undecided as u:
                                undec = str(u)
                                continue
                            restrict = None
                            for e2 in pa.assumes():
                                c2 = e2.data["cond"]
                                if isinstance(c2, Term) and c2.op == "cmp" and c2.args[0] in ("in", "not in") and c2.args[2] is a and isinstance(c2.args[1], Const):
                                    has = e2.data["truth"] if c2.args[0] == "in" else not e2.data["truth"]
                                    ch = _re.escape(c2.args[1].v)
                                    restrict = Lang([r"(.|\n)*" + ch + r"(.|\n)*"] if has else [r"[^" + ch.replace("\\", "\\\\") + r"]*"], mode="fullmatch")
                            okc, w, _ = included(gl, Lang([PY_INT if conv == "int" else PY_FLOAT], mode="fullmatch"), restrict=restrict)
                            if not okc:
                                ctx.violated("C10.PARSE", f.short, f"format {fmt}: capture group {k} of {pat!r} is handed to {conv}() but can hold {w!r}: an accepted text raises inside the parser", fi=f, text=f"unsafe-group:{k}:{w!r}", witness=w)
                                bad = True
            if pa.outcome == "return":
                if undec:
                    ctx.undecided("C10.PARSE", f.short, f"format {fmt}: {undec}", fi=f)
                    bad = True
                clauses.append(cons)
        if not clauses:
            ctx.violated("C10.PARSE", f.short, f"format {fmt}: str_to_num never returns", fi=f, text=f"never:{fmt}")
            continue
        keys = list(atoms)
        langs = [G] + [atoms[k] for k in keys]

        def pred(acc, keys=keys, clauses=clauses):
            if not acc[0]:
                return False
            val = dict(zip(keys, acc[1:]))
            accepted = any(all(val[k] == t for k, t in cl) for cl in clauses)
            return not accepted

        wit, stats = find_witness(langs, pred)
        if wit is not None:
            kind = "sexagesimal" if fmt.endswith("m") else "printf"
            ctx.violated("C10.PARSE", f.short, f"under format {fmt} the INDI number text {wit!r} is not parsed (it raises): every spelling INDI allows must be parsed regardless of the property's own format", fi=f, text=f"unparsed:{kind}:{wit!r}", witness=wit)
            bad = True
        if not bad:
            ctx.holds("C10.PARSE", f"{f.short}[{fmt}]", f"L(grammar) within the accepted language ({len(clauses)} returning paths, {len(keys)} atomic constraints, {stats['product_states']} product states)", fi=f)
    ctx.counters["C10.PARSE:format classes"] = nfmt
    ctx.exhaustive_domains.append("format classes {printf sample, %.3m, %.5m, %.6m, %.8m, %.9m, width variants}; all strings of the grammar (DFA inclusion)")


# ------------------------------------------------------------------------- RENDER
class Interval:
    def __init__(self, lo, hi):
        self.lo, self.hi = lo, hi  # hi None = unbounded; ints

    def __repr__(self):
        return f"[{self.lo},{self.hi}]"


def interval(it: Interp, t):
    """Integer/real interval of a term, or None."""
    if isinstance(t, Const) and isinstance(t.v, (int, float)) and not isinstance(t.v, bool):
        return Interval(t.v, t.v)
    if not isinstance(t, Term):
        return None
    lo, hi = it.bounds_of(t)
    if t.op == "unpack" and isinstance(t.args[0], Term) and t.args[0].op == "call" and isinstance(t.args[0].args[0], Builtin) and t.args[0].args[0].name == "divmod":
        a, b = t.args[0].args[1]
        ia, ib = interval(it, a), interval(it, b)
        if ia is not None and ib is not None and ia.lo is not None and ia.lo >= 0 and ib.lo == ib.hi and ib.lo > 0:
            if t.args[1] == 0:
                return Interval(0, None if ia.hi is None else ia.hi // ib.lo)
            return Interval(0, ib.lo - 1)
        return None
    if t.op == "binop":
        op, a, b = t.args
        ia, ib = interval(it, a), interval(it, b)
        if op == "-" and isinstance(b, Term) and b.op == "call" and "floor" in show(b.args[0]) and b.args[1] and show(b.args[1][0]) == show(a):
            return Interval(0, 1)  # x - floor(x) in [0, 1)
        if ia is None or ib is None:
            return None
        if op == "+" and ia.lo is not None and ib.lo is not None:
            return Interval(ia.lo + ib.lo, None if ia.hi is None or ib.hi is None else ia.hi + ib.hi)
        if op == "*" and ia.lo is not None and ib.lo is not None and ia.lo >= 0 and ib.lo >= 0:
            return Interval(ia.lo * ib.lo, None if ia.hi is None or ib.hi is None else ia.hi * ib.hi)
        if op == "//" and ib.lo == ib.hi and ib.lo > 0 and ia.lo is not None and ia.lo >= 0:
            return Interval(ia.lo // ib.lo, None if ia.hi is None else ia.hi // ib.lo)
        if op == "%" and ib.lo == ib.hi and ib.lo > 0 and ia.lo is not None and ia.lo >= 0:
            return Interval(0, ib.lo - 1 if ia.hi is None else min(ia.hi, ib.lo - 1))
        if op == "-" and ib.lo is not None and ia.lo is not None and ib.hi is not None:
            return Interval(ia.lo - ib.hi, None if ia.hi is None else ia.hi - ib.lo)
        return None
    if t.op == "call":
        fn = show(t.args[0])
        if fn in ("abs",) or fn.endswith(".fabs"):
            return Interval(0, None)
        if fn.endswith("floor") or fn in ("int", "round"):
            ia = interval(it, t.args[1][0]) if t.args[1] else None
            if ia is not None and ia.lo is not None:
                return Interval(math.floor(ia.lo), None if ia.hi is None else math.floor(ia.hi))
            return Interval(None, None)
    if lo is not None or hi is not None:
        return Interval(lo, hi)
    return None


def _digits(n):
    return len(str(int(n)))


def field_regex(it: Interp, val, spec: str):
    """Regex of one f-string replacement field, or None when not derivable."""
    if isinstance(val, Const):
        if isinstance(val.v, str) and not spec:
            return _re.escape(val.v)
        if isinstance(val.v, int) and not isinstance(val.v, bool):
            try:
                return _re.escape(format(val.v, spec))
            except ValueError:
                return None
    iv = interval(it, val)
    m = _re.fullmatch(r"(0?)(\d*)(?:\.(\d+))?([dfs]?)", spec or "")
    if m is None:
        return None
    zero, width, prec, conv = m.groups()
    width = int(width) if width else 0
    if conv in ("", "d") and prec is None:
        # integer rendering
        if iv is None or iv.lo is None:
            sign = "-?"
            lo_d, hi_d = 1, None
        else:
            sign = "-?" if iv.lo < 0 else ""
            lo_d = 1 if iv.lo < 0 else _digits(iv.lo)
            hi_d = None if iv.hi is None else max(_digits(iv.hi), _digits(abs(iv.lo)))
        if width and not zero:
            return None  # space padding
        lo_d = max(lo_d, width - (1 if sign else 0)) if zero else lo_d
        if hi_d is not None:
            hi_d = max(hi_d, lo_d)
        return sign + r"\d{" + str(lo_d) + "," + ("" if hi_d is None else str(hi_d)) + "}"
    if conv == "f":
        P_ = int(prec) if prec is not None else 6
        if iv is None or iv.lo is None or iv.lo < 0:
            return None if (width and not zero) else (r"-?\d+" + (r"\.\d{" + str(P_) + "}" if P_ else ""))
        int_min = _digits(iv.lo)
        int_max = None if iv.hi is None else _digits(math.ceil(iv.hi))  # rounding may reach the upper end
        if width:
            if not zero:
                return None
            need = width - (P_ + 1 if P_ else 0)
            int_min = max(int_min, need)
            if int_max is not None:
                int_max = max(int_max, int_min)
        return r"\d{" + str(int_min) + "," + ("" if int_max is None else str(int_max)) + "}" + (r"\.\d{" + str(P_) + "}" if P_ else "")
    return None


def printf_regex(fmt: str, stripped: str):
    """Image of a finite number under '%' formatting with ``fmt`` (model of CPython), then strip mode
    ('both' | 'left' | 'right' | 'none')."""
    m = _re.fullmatch(r"%([-+ 0#]*)(\d*)(?:\.(\d+))?([df])", fmt)
    if m is None:
        return None
    flags, width, prec, conv = m.groups()
    if "+" in flags:
        sign = r"[-+]"
    elif " " in flags:
        sign = r"[- ]"
    else:
        sign = r"-?"
    if conv == "f":
        P_ = int(prec) if prec is not None else 6
        body = r"\d+" + (r"\.\d{" + str(P_) + "}" if P_ else (r"\." if "#" in flags else ""))
    else:
        body = r"\d{" + str(max(int(prec), 1) if prec else 1) + ",}"  # CPython renders 0 as '0' even with precision 0
    left = right = ""
    if width:
        if "-" in flags:
            right = " *"
        elif "0" in flags:
            pass  # zero padding only adds digits
        else:
            left = " *"
    core = sign + body
    if stripped in ("both", "left"):
        left = ""
        if " " in flags and "+" not in flags:
            core = r"-?" + body
    if stripped in ("both", "right"):
        right = ""
    return left + core + right


def all_printf_formats():
    flags = ["".join(c) for r in range(0, 6) for c in itertools.combinations("-+ 0#", r)]
    for fl in flags:
        for w in ("", "1", "8"):
            for pr in ("", ".0", ".3"):
                for conv in ("d", "f"):
                    yield f"%{fl}{w}{pr}{conv}"


def rule_render(ctx):
    p = ctx.p
    f = _values_fn(p, "num_to_str")
    V, pats = number_validator_lang(ctx)
    n_sites = 0
    # sexagesimal branches
    for fmt in SEX_FORMATS:
        paths = run_method(p, f, args=[Term("param", "n", pytype="float"), Const(fmt)], opts={"assert_forks": True})
        ctx.paths_enumerated += len(paths)
        bad = False
        for pa in paths:
            if pa.outcome == "raise":
                ctx.violated("C10.RENDER", f.short, f"format {fmt}: num_to_str raises for a finite value ({show(pa.value)[:40]})", fi=f, text=f"raises:{fmt}")
                bad = True
                continue
            v = pa.value
            if isinstance(v, Const) and v.v is None:
                continue
            n_sites += 1
            rx = None
            if isinstance(v, Const) and isinstance(v.v, str):
                rx = _re.escape(v.v)
            elif isinstance(v, Term) and v.op == "fstr":
                parts = []
                for part_ in v.args:
                    if isinstance(part_, str):
                        parts.append(_re.escape(part_))
                    else:
                        r1 = field_regex(pa.interp, part_[0], part_[1])
                        if r1 is None:
                            parts = None
                            ctx.undecided("C10.RENDER", f.short, f"format {fmt}: output language of field {{{show(part_[0])[:40]}:{part_[1]}}} not derivable", fi=f)
                            bad = True
                            break
                        parts.append(r1)
                if parts is not None:
                    rx = "".join(parts)
            if rx is None:
                if not bad:
                    ctx.undecided("C10.RENDER", f.short, f"format {fmt}: returned text {show(v)[:60]} is not an f-string / literal", fi=f)
                    bad = True
                continue
            ok, w, stats = included(Lang([rx], mode="fullmatch"), V)
            if not ok:
                ctx.violated("C10.RENDER", f.short, f"format {fmt}: num_to_str can render {w!r} (output language {rx}), which the library's own validator rejects", fi=f, text=f"render:{fmt}:{w!r}", witness=w)
                bad = True
            else:
                ctx.sample({"rule": "C10.RENDER", "format": fmt, "output_language": rx, "stats": stats})
        if not bad:
            ctx.holds("C10.RENDER", f"{f.short}[{fmt}]", "output language within L(validator)", fi=f)
    # printf branch: how is the result post-processed?
    paths = run_method(p, f, args=[Term("param", "n", pytype="float"), Const("%8.2f")], opts={"assert_forks": True})
    mode = None
    for pa in paths:
        v = pa.value
        if pa.outcome != "return" or (isinstance(v, Const) and v.v is None):
            continue
        s = show(v)
        if isinstance(v, Term) and v.op == "binop" and v.args[0] == "%":
            mode = "none"
        elif isinstance(v, Term) and v.op == "call" and isinstance(v.args[0], Term) and v.args[0].op == "attr" and v.args[0].args[1] in ("strip", "lstrip", "rstrip") and not v.args[1] and isinstance(v.args[0].args[0], Term) and v.args[0].args[0].op == "binop" and v.args[0].args[0].args[0] == "%":
            mode = {"strip": "both", "lstrip": "left", "rstrip": "right"}[v.args[0].args[1]]
        else:
            mode = f"?{s[:50]}"
    if mode is None or mode.startswith("?"):
        ctx.undecided("C10.RENDER", f.short, f"printf branch returns an unrecognised expression: {mode}", fi=f)
        return
    worst = None
    nf = 0
    groups = {}
    for fmt in all_printf_formats():
        rx = printf_regex(fmt, mode)
        if rx is None:
            continue
        nf += 1
        groups.setdefault(rx, []).append(fmt)
    classes = {}
    for rx, fmts in groups.items():
        ok, w, stats = included(Lang([rx], mode="fullmatch"), V)
        n_sites += 1
        if not ok:
            key = ("leading blank" if w.startswith(" ") else "") + ("trailing blank" if w.endswith(" ") else "") + ("plus sign" if "+" in w else "") or "other"
            classes.setdefault(key, []).append((w, fmts[:2], rx))
    for key, items in sorted(classes.items()):
        w, fmts, rx = items[0]
        ctx.violated("C10.RENDER", f.short, f"printf formats such as {[x for it_ in items[:4] for x in it_[1]][:6]} render e.g. {[it_[0] for it_ in items[:4]]} ({key}; {len(items)} output languages, post-processing: {mode}), which the library's own validator rejects: a driver with such a format cannot publish", fi=f, text=f"printf:{key}", witness=w)
        worst = w
    ctx.counters["C10.RENDER:printf formats"] = nf
    ctx.counters["C10.RENDER:distinct printf output languages"] = len(groups)
    if worst is None:
        ctx.holds("C10.RENDER", f"{f.short}[printf]", f"{nf} printf formats ({len(groups)} distinct output languages, post-processing: {mode}) all within L(validator)", fi=f)
    ctx.floor("C10.RENDER", "rendering sites x formats", n_sites, 8)
    ctx.exhaustive_domains.append("576 printf formats (flags x width x precision x conversion) and 7 sexagesimal formats")


EXPLANATION = EXPLANATION + " C10.MIXED: the 27 sign x separator combinations of a three-field sexagesimal text (each separator independently ':', ';' or blank) are accepted unchanged by the part validator and parsed by str_to_num to the value they denote, under a sexagesimal and a printf format (constant evaluation; patterns outside the regular fragment, e.g. back-references, are decided here)."

RULES = [
    ("C10.ACCEPT", rule_accept, "L(INDI number grammar) within L(message validator)"),
    ("C10.PARSE", rule_parse, "per format class: L(grammar) within the language str_to_num accepts; capture groups safe for int()/float()"),
    ("C10.RENDER", rule_render, "per format class: output language of num_to_str within L(message validator)"),
]


# ------------------------------------------------------------------ SIGN / CARRY (structural halves of the numeric clauses)
_SIGNVAL = [None]   # valuation of a separate sign group (+1 / -1) while a form with sign-concatenation is evaluated
_SIGN_CONCAT = [False]


def _is_sign_group(g):
    """A capture group that can only hold '', '+' or '-'."""
    try:
        ok, _, _ = included(group_lang(g[0], g[1]), Lang([r"[-+]?"], mode="fullmatch"))
        return ok
    except Undecided:
        return False


def _linform(t):
    """Linear form {symbol: coeff, 1: const} of an arithmetic term over capture-group symbols, or None.
    Symbols are (pattern, group index) pairs: float()/int() of a capture group.  float(sign_group + digits_group)
    is sign x digits; the sign's value comes from _SIGNVAL (the caller evaluates the form once per sign)."""
    if isinstance(t, Const) and isinstance(t.v, (int, float)) and not isinstance(t.v, bool):
        return {1: float(t.v)}
    if not isinstance(t, Term):
        return None
    if t.op == "call" and isinstance(t.args[0], Builtin) and t.args[0].name in ("float", "int") and t.args[1]:
        a0 = t.args[1][0]
        g = _group_ref(a0)
        if g is not None:
            return {g: 1.0}
        if isinstance(a0, Term) and a0.op == "binop" and a0.args[0] == "+":
            sg, dg = _group_ref(a0.args[1]), _group_ref(a0.args[2])
            if sg is not None and dg is not None and _is_sign_group(sg):
                _SIGN_CONCAT[0] = True
                return {dg: float(_SIGNVAL[0] if _SIGNVAL[0] is not None else 1)}
        return None
    if t.op == "unary" and t.args[0] in ("USub", "UAdd"):
        f = _linform(t.args[1])
        if f is None:
            return None
        return {k: (-v if t.args[0] == "USub" else v) for k, v in f.items()}
    if t.op == "binop":
        op, a, b = t.args
        fa, fb = _linform(a), _linform(b)
        if fa is None or fb is None:
            return None
        if op in ("+", "-"):
            out = dict(fa)
            for k, v in fb.items():
                out[k] = out.get(k, 0.0) + (v if op == "+" else -v)
            return out
        if op == "*":
            if set(fa) <= {1}:
                return {k: v * fa.get(1, 0.0) for k, v in fb.items()}
            if set(fb) <= {1}:
                return {k: v * fb.get(1, 0.0) for k, v in fa.items()}
            return None
        if op == "/":
            if set(fb) <= {1} and fb.get(1):
                return {k: v / fb[1] for k, v in fa.items()}
            return None
    return None


def rule_sign(ctx):
    """The sign applies to the whole sexagesimal magnitude (parse side), as a statement about the linear form
    of the returned value in the captured fields, path by path."""
    p = ctx.p
    f = _values_fn(p, "str_to_num")
    bad = False
    npaths = 0
    for fmt in ("%.6m", "%f"):
        s = Term("param", "s", pytype="str")
        paths = run_method(p, f, args=[s, Const(fmt)], opts={"assert_forks": True, "fork_ifexp": True})
        ctx.paths_enumerated += len(paths)
        work = []
        for pa in paths:
            if pa.outcome != "return" or pa.value is None:
                continue
            _SIGNVAL[0], _SIGN_CONCAT[0] = None, False
            form = _linform(pa.value)
            for e in pa.assumes():
                _linform(e.data["cond"].args[1]) if isinstance(e.data["cond"], Term) and e.data["cond"].op == "cmp" and len(e.data["cond"].args) > 2 else None
            if _SIGN_CONCAT[0]:
                work.extend((pa, sv) for sv in (+1, -1))   # the sign enters through float(sign + digits): one evaluation per sign
            else:
                work.append((pa, None))
        for pa, signval in work:
            _SIGNVAL[0] = signval
            form = _linform(pa.value)
            if form is None:
                continue  # plain int()/float() of the whole text, None, ...
            syms = [k for k in form if k != 1]
            if len(syms) < 2:
                continue  # not a sexagesimal path
            npaths += 1
            # which groups can carry a sign themselves, and what does the path assume about a separate sign group?
            signed = {}
            for g in syms:
                try:
                    gl = group_lang(g[0], g[1])
                    ok_unsigned, _, _ = included(gl, Lang([r"[^-]*"], mode="fullmatch"))
                    signed[g] = not ok_unsigned
                except Undecided:
                    signed[g] = True
            sep_sign = None
            for e in pa.assumes():
                c = e.data["cond"]
                if isinstance(c, Term) and c.op == "cmp" and c.args[0] in ("==", "!=") and isinstance(c.args[2], Const) and c.args[2].v == "-" and _group_ref(c.args[1]) is not None:
                    t_ = e.data["truth"] if c.args[0] == "==" else not e.data["truth"]
                    sep_sign = -1 if t_ else +1
            # feasibility of assumptions comparing a linear form with 0 (all magnitudes are >= 0)
            infeasible = False
            zero_syms = set()
            for e in pa.assumes():
                c = e.data["cond"]
                if isinstance(c, Term) and c.op == "cmp" and c.args[0] in ("<", "<=", ">", ">=") and isinstance(c.args[2], Const) and c.args[2].v == 0:
                    lf = _linform(c.args[1])
                    if lf is None or any(signed.get(k) for k in lf if k != 1):
                        continue
                    coeffs = [v for k, v in lf.items() if k != 1]
                    const = lf.get(1, 0.0)
                    op, truth = c.args[0], e.data["truth"]
                    if not truth:
                        op = {"<": ">=", "<=": ">", ">": "<=", ">=": "<"}[op]
                    if all(v >= 0 for v in coeffs) and const >= 0 and op == "<":
                        infeasible = True
                    if all(v <= 0 for v in coeffs) and const <= 0 and op == ">":
                        infeasible = True
                    if all(v <= 0 for v in coeffs) and const <= 0 and op == ">=":
                        zero_syms |= {k for k, v in lf.items() if k != 1 and v != 0}
                    if all(v >= 0 for v in coeffs) and const >= 0 and op == "<=":
                        zero_syms |= {k for k, v in lf.items() if k != 1 and v != 0}
            if infeasible:
                continue
            order = sorted(syms, key=lambda g: g[1])
            weights = [1.0, 1 / 60.0, 1 / 3600.0]
            if any(signed.values()):
                # a field that carries the sign itself: the other fields must follow its sign - impossible for a fixed coefficient
                sg = [g for g in order if signed[g]][0]
                others = [g for g in order if g is not sg and abs(form.get(g, 0.0)) > 0]
                if others:
                    ctx.violated("C10.SIGN", f.short, f"under format {fmt} the sign is part of capture group {sg[1]} only, while the other fields are added with a fixed positive coefficient: '-1:30' is read as -1 + 0.5 instead of -(1 + 0.5)", fi=f, text="sign-on-first-field-only", witness="-0:30")
                    bad = True
                continue
            expect_sign = sep_sign if sep_sign is not None else (signval if signval is not None else +1)
            live = [g for g in order if g not in zero_syms]
            mism = [g for i, g in enumerate(order) if g in live and abs(form.get(g, 0.0) - expect_sign * weights[min(i, 2)]) > 1e-12]
            if mism and len(order) <= 3:
                zs = f" with field(s) {sorted(k[1] for k in zero_syms)} equal to zero" if zero_syms else ""
                ctx.violated("C10.SIGN", f.short, f"under format {fmt} a path returns {show(pa.value)[:90]}: for a text with sign {'-' if expect_sign < 0 else '+'}{zs} the fields have coefficients { {g[1]: round(form.get(g, 0.0), 6) for g in order} }, expected { {g[1]: round(expect_sign * weights[min(i, 2)], 6) for i, g in enumerate(order)} } (the sign applies to the whole magnitude)", fi=f, text=f"sign-linear-form:{'neg' if expect_sign < 0 else 'pos'}:{bool(zero_syms)}", witness="-0:30")
                bad = True
    if npaths == 0:
        ctx.undecided("C10.SIGN", f.short, "no sexagesimal return path with a linear form in the captured fields found", fi=f)
    elif not bad:
        ctx.holds("C10.SIGN", f.short, f"{npaths} sexagesimal return paths: value = sign x (whole + minutes/60 + seconds/3600) as a linear form in the captured fields", fi=f)


def rule_sign_render(ctx):
    """Rendering: the sign is a separate leading field and every numeric field is computed from the magnitude;
    no field after the first ':' can render 60 or more (carry)."""
    p = ctx.p
    f = _values_fn(p, "num_to_str")
    bad = False
    nfields = 0
    for fmt in SEX_FORMATS[:5]:
        paths = run_method(p, f, args=[Term("param", "n", pytype="float"), Const(fmt)], opts={"assert_forks": True})
        ctx.paths_enumerated += len(paths)
        neg_paths = 0
        seen_render = 0
        for pa in paths:
            v = pa.value
            if pa.outcome != "return" or not (isinstance(v, Term) and v.op == "fstr"):
                continue
            seen_render += 1
            negs = [e.data["truth"] for e in pa.assumes() if isinstance(e.data["cond"], Term) and e.data["cond"].op == "cmp" and show(e.data["cond"]) in ("(n < 0)", "(n < 0.0)", "(n >= 0)", "(0 > n)")]
            parts = list(v.args)
            fields = [x for x in parts if not isinstance(x, str)]
            bare = [x for x in fields if mentions(x[0], lambda t: isinstance(t, Term) and t.op == "param" and t.args[0] == "n") and not _only_under_abs(x[0])]
            if bare:
                ctx.violated("C10.SIGN", f.short, f"format {fmt}: field {{{show(bare[0][0])[:50]}}} is computed from the signed value, not from its magnitude: -0.5 is rendered from floor(-0.5) = -1 (as '-1:30'), i.e. the sign is not applied to the whole sexagesimal magnitude", fi=f, text="render-signed-fields", witness="num_to_str(-0.5, '%.3m')")
                bad = True
                continue
            if not negs:
                ctx.violated("C10.SIGN", f.short, f"format {fmt}: the rendering does not distinguish negative values", fi=f, text="render-no-sign-test")
                bad = True
                continue
            is_neg = negs[0] if "(n < 0" in " ".join(show(e.data["cond"]) for e in pa.assumes()) else not negs[0]
            first = parts[0]
            lead = first if isinstance(first, str) else (first[0].v if isinstance(first[0], Const) else None)
            if is_neg:
                neg_paths += 1
                if not (isinstance(lead, str) and lead.startswith("-")):
                    ctx.violated("C10.SIGN", f.short, f"format {fmt}: a negative value is rendered without a leading '-'", fi=f, text="render-missing-minus")
                    bad = True
            elif isinstance(lead, str) and lead.startswith("-"):
                ctx.violated("C10.SIGN", f.short, f"format {fmt}: a non-negative value is rendered with '-'", fi=f, text="render-spurious-minus")
                bad = True
            # carry: fields after the first ':' must stay below 60
            seen_colon = False
            for x in parts:
                if isinstance(x, str):
                    if ":" in x:
                        seen_colon = True
                    continue
                if not seen_colon:
                    continue
                if isinstance(x[0], Const):
                    continue
                nfields += 1
                iv = interval(pa.interp, x[0])
                m = _re.fullmatch(r"0?\d*(?:\.(\d+))?([df]?)", x[1] or "")
                is_float = bool(m and m.group(2) == "f")
                prev_is_dot = False
                if iv is None or iv.hi is None:
                    ctx.undecided("C10.CARRY", f.short, f"format {fmt}: no upper bound derivable for field {{{show(x[0])[:40]}}}", fi=f)
                    bad = True
                elif is_float and iv.hi >= 59:
                    ctx.violated("C10.CARRY", f.short, f"format {fmt}: field {{{show(x[0])[:40]}:{x[1]}}} is a real number in [0, {iv.hi}] that is rounded by its own format specification: values within half a unit of a carry render '60' (e.g. 1.999 -> '1:60')", fi=f, text=f"carry-float-field:{x[1]}", witness="num_to_str(1.999, '%.3m')")
                    bad = True
                elif not is_float and iv.hi > 99:
                    pass  # a fractional-digit field such as tenths/hundredths is bounded by its own modulus below
        if seen_render == 0:
            # how the text is put together is not recognised at all: nothing can be said about its sign field
            ctx.undecided("C10.SIGN", f.short, f"format {fmt}: no return path renders a formatted string the analysis recognises", fi=f)
            bad = True
        elif neg_paths == 0 and not bad:
            ctx.violated("C10.SIGN", f.short, f"format {fmt}: no rendering path for negative values", fi=f, text="render-no-negative-path")
            bad = True
    # integer fields directly after a ':' must be < 60
    if not bad:
        for fmt in SEX_FORMATS[:5]:
            for pa in run_method(p, f, args=[Term("param", "n", pytype="float"), Const(fmt)], opts={"assert_forks": True}):
                v = pa.value
                if pa.outcome != "return" or not (isinstance(v, Term) and v.op == "fstr"):
                    continue
                parts = list(v.args)
                for i, x in enumerate(parts):
                    if isinstance(x, str) or i == 0:
                        continue
                    prev = parts[i - 1]
                    if isinstance(prev, str) and prev.endswith(":") and not isinstance(x[0], Const):
                        iv = interval(pa.interp, x[0])
                        if iv is None or iv.hi is None or iv.hi > 59:
                            ctx.violated("C10.CARRY", f.short, f"format {fmt}: the field after ':' ({{{show(x[0])[:40]}}}) is not bounded by 59 (interval {iv})", fi=f, text=f"carry-unbounded:{fmt}")
                            bad = True
    if not bad:
        ctx.holds("C10.SIGN", f.short + "[render]", "sign rendered as a separate leading '-', all numeric fields computed from abs(n)", fi=f)
        ctx.holds("C10.CARRY", f.short, f"every field after a ':' is an integer in [0, 59] derived from one rounded total ({nfields} fields checked)", fi=f)


def _only_under_abs(t) -> bool:
    """Every occurrence of the parameter n in t lies under abs(...)/fabs(...)."""
    if isinstance(t, Term):
        if t.op == "param":
            return t.args[0] != "n"
        if t.op == "call" and show(t.args[0]) in ("abs", "math.fabs"):
            return True
        ok = True
        for a in t.args:
            if isinstance(a, (Term,)):
                ok = ok and _only_under_abs(a)
            elif isinstance(a, (list, tuple)):
                for b in a:
                    if isinstance(b, Term):
                        ok = ok and _only_under_abs(b)
                    elif isinstance(b, (list, tuple)):
                        for c in b:
                            if isinstance(c, Term):
                                ok = ok and _only_under_abs(c)
        return ok
    return True


def rule_mixed(ctx):
    """Every spelling INDI allows denotes its value: the two separators of a three-field sexagesimal text are chosen
    independently from ':', ';' and blank (27 sign x separator combinations), and the validator of the message parts
    accepts each of them.  Decided by constant evaluation of str_to_num / checks.number (regular expressions folded on
    constants, so also patterns outside the regular fragment - back-references - are decided here)."""
    p = ctx.p
    f = _values_fn(p, "str_to_num")
    chk = p.func("indi.message.checks.number")
    n = 0
    bad = False
    for sign, sgn in (("", 1.0), ("-", -1.0), ("+", 1.0)):
        for s1 in ":; ":
            for s2 in ":; ":
                text = f"{sign}10{s1}30{s2}15.5"
                want = sgn * (10 + 30 / 60 + 15.5 / 3600)
                n += 1
                for fmt in ("%010.6m", "%f"):
                    paths = run_method(p, f, args=[Const(text), Const(fmt)], opts={"inline": lambda fi, node: fi.module.name == "indi.device.values"})
                    ctx.paths_enumerated += len(paths)
                    if len(paths) != 1:
                        ctx.undecided("C10.MIXED", f.short, f"str_to_num({text!r}, {fmt!r}) is not decided by constant evaluation ({len(paths)} paths)", fi=f)
                        bad = True
                        continue
                    pa = paths[0]
                    ok = pa.outcome == "return" and isinstance(pa.value, Const) and isinstance(pa.value.v, (int, float)) and abs(pa.value.v - want) < 1e-9
                    if not ok:
                        got = f"raises {show(pa.value)[:40]}" if pa.outcome != "return" else f"gives {show(pa.value)[:30]}"
                        ctx.violated("C10.MIXED", f.short, f"str_to_num({text!r}, {fmt!r}) {got}; the text denotes {want!r} (each separator may independently be ':', ';' or a blank)", fi=f, text=f"mixed:{'raise' if pa.outcome != 'return' else 'value'}", witness=text)
                        bad = True
                paths = run_method(p, chk, args=[Const(text)], opts={"inline": lambda fi, node: fi.module.name == "indi.message.checks"})
                okc = len(paths) == 1 and paths[0].outcome == "return" and isinstance(paths[0].value, Const) and paths[0].value.v == text
                if not okc:
                    ctx.violated("C10.MIXED", chk.short, f"the part validator does not accept the number text {text!r} unchanged (it is legal INDI: each separator may independently be ':', ';' or a blank)", fi=chk, text="mixed:validator", witness=text)
                    bad = True
                if bad:
                    break
            if bad:
                break
        if bad:
            break
    if not bad:
        ctx.holds("C10.MIXED", f.short, f"{n} sign x separator combinations of a three-field text: accepted by the validator and parsed to the value they denote under a sexagesimal and a printf format", fi=f)


RULES += [
    ("C10.MIXED", rule_mixed, "27 sign x separator combinations (separators chosen independently) validate and parse to their value"),
    ("C10.SIGN", rule_sign, "parse: value = sign x (whole + minutes/60 + seconds/3600) as a linear form in the captured fields on every path"),
    ("C10.SIGNR", rule_sign_render, "render: separate leading sign, fields from the magnitude; no field after ':' can reach 60 (carry)"),
]

# the text a driver emits for a number is num_to_str(current value, own format) on every history (no stale rendering)
# a number text sent to a property is converted by the library's own parser with the element's format
# C03.READ: the number text of a part reaches the conversion as it was sent (interior blanks are sexagesimal separators)
IMPORTS = [('C07', 'C07.META'), ('C06', 'C06.CONV'), ('C03', 'C03.READ')]
