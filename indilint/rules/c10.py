"""C10 - number rendering and parsing: the syntactic clauses, decided as regular-language inclusions."""
from __future__ import annotations

import itertools
import math
import re as _re

from ..absint import Builtin, Cls, Const, Dct, Fn, Foreign, Interp, Lst, Obj, Term, Tup, explore, is_call, mentions, run_method, show, subterms
from ..model import Undecided
from .. import protocol_tables as T
from ..reglang import PY_FLOAT, PY_INT, Lang, find_witness, group_lang, included, stripped_lang
from .c13 import number_validator_lang

EXPLANATION = (
    "Only the syntactic clauses of C10 are decidable statically; they are decided exactly, as inclusions of regular languages built from "
    "the regex literals and format specifications in the source (regex -> NFA -> DFA over a representative alphabet; failures come with "
    "a shortest witness string). C10.ACCEPT: L(INDI number grammar: integer, decimal, sexagesimal with ':', ';' or blank) is included in "
    "L(message validator). C10.PARSE: for every format class (printf, %.3m, %.5m, %.6m, %.8m, %.9m, with and without width) str_to_num "
    "is path-enumerated with the format as a constant and the text symbolic; the language it accepts is the union over its returning "
    "paths of the conjunction of the path's constraints on the text (regex matches, the '.'-test, implicit int()/float() of the text), "
    "and L(grammar) must be included in it; every capture group handed to int()/float() must lie inside Python's numeric syntax "
    "(conversion safety). C10.RENDER: for every format class num_to_str is path-enumerated; the output language of each returned "
    "f-string is derived from its field specifications and interval facts (divmod / // / % / floor bounds carried per path), that of the "
    "printf branch from a model of CPython %-formatting over the format grammar %[-+ 0#]*width(.prec){d,f} (576 formats), including "
    "whether the result is stripped; each must be included in L(message validator)."
)
NOT_DECIDED = "every numeric clause: that rendered text denotes the value within the format's resolution, the sign convention (-0:30 is -0.5), carries at 59.5, and numeric inverse-ness - statements about real arithmetic, out of reach for this family."
ASSUMPTIONS = [
    "model of CPython %-formatting and f-string field formatting for finite ints/floats (padding, sign flags, precision)",
    "int()/float() accept exactly Python's numeric literal syntax (underscores and exponents included, inf/nan ignored)",
    "divmod(a, k), a // k, a % k bounds for non-negative a and positive constant k",
]
TRUSTED = ["CPython ast", "re._parser", "indilint reglang (DFA inclusion) and abstract interpreter"]

SEX_FORMATS = [f"%.{k}m" for k in T.SEXAGESIMAL_FRACTIONS] + ["%10.6m", "%9.3m"]
PRINTF_SAMPLE = ["%f", "%d", "%.2f", "%8.2f", "%+d", "% .3f", "%-8.1f", "%08.3f", "%#.0f", "%5d"]


def _values_fn(p, name):
    return p.func(f"indi.device.values.{name}")


def grammar_lang() -> Lang:
    return Lang(T.NUM_REQUIRED_GRAMMAR, mode="fullmatch", name="INDI number grammar")


# ------------------------------------------------------------------------- ACCEPT
def rule_accept(ctx):
    p = ctx.p
    V, pats = number_validator_lang(ctx)
    f = p.func("indi.message.checks.number")
    G = grammar_lang()
    ok, wit, stats = included(G, V)
    ctx.sample({"rule": "C10.ACCEPT", "validator_patterns": pats, "stats": stats, "witness": wit})
    ctx.check(ok, "C10.ACCEPT", f.short, f"L(INDI number grammar) within L(validator) ({stats})", f"the validator rejects {wit!r}, which INDI allows a peer to send", fi=f, text=f"rejects:{wit!r}", witness=wit)
    for g in T.NUM_REQUIRED_GRAMMAR:
        okg, w, _ = included(Lang([g], "fullmatch"), V)
        ctx.check(okg, "C10.ACCEPT", f"{f.short}[{g}]", "accepted", f"number spelling {g} (e.g. {w!r}) is rejected by the validator", fi=f, text=f"form:{g}", witness=w)


# -------------------------------------------------------------------------- PARSE
def _s_derived(t) -> bool:
    return isinstance(t, (Term,)) and show(t) in ("s", "s.strip()", "str(s)", "str(s).strip()", "s.strip().strip()")


def _raiser(ev):
    callee = ev.data.get("callee")
    if isinstance(callee, Builtin) and callee.name in ("int", "float"):
        a = ev.data.get("args") or []
        if a and not isinstance(a[0], Const):
            return "ValueError"
    return None


def _group_ref(t):
    """(pattern, group index) when t is a capture group of a regex match on the text, else None."""
    if isinstance(t, Term) and t.op in ("unpack", "sub"):
        base, idx = t.args[0], t.args[1]
        k = idx if isinstance(idx, int) else (idx.v if isinstance(idx, Const) and isinstance(idx.v, int) else None)
        if k is None:
            return None
        if isinstance(base, Term) and base.op == "call" and isinstance(base.args[0], Term) and base.args[0].op == "attr" and base.args[0].args[1] == "groups":
            m = base.args[0].args[0]
            rx = getattr(m, "regex", None)
            if rx is not None:
                return rx[0], k + 1
    return None


def rule_parse(ctx):
    p = ctx.p
    f = _values_fn(p, "str_to_num")
    G = grammar_lang()
    formats = SEX_FORMATS + PRINTF_SAMPLE
    nfmt = 0
    for fmt in formats:
        nfmt += 1
        s = Term("param", "s", pytype="str")
        paths = run_method(p, f, args=[s, Const(fmt)], opts={"call_may_raise": _raiser, "assert_forks": True, "fork_ifexp": True})
        ctx.paths_enumerated += len(paths)
        atoms = {}  # key -> Lang
        clauses = []  # per returning path: list of (atom key, truth)
        bad = False

        def atom(key, lang_factory):
            if key not in atoms:
                atoms[key] = lang_factory()
            return key

        for pa in paths:
            cons = []
            undec = None
            for e in pa.events:
                if e.kind == "assume":
                    c = e.data["cond"]
                    rx = getattr(c, "regex", None)
                    if rx is not None and _s_derived(rx[2]):
                        cons.append((atom(("re", rx[0], rx[1]), lambda rx=rx: Lang([rx[0]], mode=rx[1] if rx[1] in ("match", "fullmatch") else "match")), e.data["truth"]))
                        if rx[1] == "search":
                            undec = "re.search on the text"
                    elif isinstance(c, Term) and c.op == "cmp" and c.args[0] in ("in", "not in") and isinstance(c.args[1], Const) and isinstance(c.args[1].v, str) and _s_derived(c.args[2]):
                        ch = c.args[1].v
                        truth = e.data["truth"] if c.args[0] == "in" else not e.data["truth"]
                        cons.append((atom(("has", ch), lambda ch=ch: Lang([r"(.|\n)*" + _re.escape(ch) + r"(.|\n)*"], mode="fullmatch")), truth))
                    elif isinstance(c, Term) and mentions(c, _s_derived) and not getattr(c, "regex", None):
                        if c.op == "cmp" and c.args[0] in ("is", "is not", "==", "!=") and isinstance(c.args[2], Const) and c.args[2].v is None:
                            continue
                        if _group_ref(c) or any(_group_ref(t) for t in subterms(c)):
                            continue
                        undec = f"condition on the text outside the recognised forms: {show(c)[:60]}"
                elif e.kind == "call" and isinstance(e.data.get("callee"), Builtin) and e.data["callee"].name in ("int", "float") and e.data["args"]:
                    a = e.data["args"][0]
                    conv = e.data["callee"].name
                    raised = any(r.kind == "raise" and r.data.get("implicit") and r.node is e.node and r.idx > e.idx and r.idx <= e.idx + 1 for r in pa.events)
                    if _s_derived(a):
                        if not raised:
                            cons.append((atom(("py", conv), lambda conv=conv: Lang([PY_INT if conv == "int" else PY_FLOAT], mode="fullmatch")), True))
                    else:
                        gr = _group_ref(a)
                        if gr is not None and not raised:
                            # conversion safety, under the path's own '.'-tests on that group
                            pat, k = gr
                            try:
                                gl = group_lang(pat, k)
                            except Undecided as u:
                                undec = str(u)
                                continue
                            restrict = None
                            for e2 in pa.assumes():
                                c2 = e2.data["cond"]
                                if isinstance(c2, Term) and c2.op == "cmp" and c2.args[0] in ("in", "not in") and c2.args[2] is a and isinstance(c2.args[1], Const):
                                    has = e2.data["truth"] if c2.args[0] == "in" else not e2.data["truth"]
                                    ch = _re.escape(c2.args[1].v)
                                    restrict = Lang([r"(.|\n)*" + ch + r"(.|\n)*"] if has else [r"[^" + ch.replace("\\", "\\\\") + r"]*"], mode="fullmatch")
                            okc, w, _ = included(gl, Lang([PY_INT if conv == "int" else PY_FLOAT], mode="fullmatch"), restrict=restrict)
                            if not okc:
                                ctx.violated("C10.PARSE", f.short, f"format {fmt}: capture group {k} of {pat!r} is handed to {conv}() but can hold {w!r}: an accepted text raises inside the parser", fi=f, text=f"unsafe-group:{k}:{w!r}", witness=w)
                                bad = True
            if pa.outcome == "return":
                if undec:
                    ctx.undecided("C10.PARSE", f.short, f"format {fmt}: {undec}", fi=f)
                    bad = True
                clauses.append(cons)
        if not clauses:
            ctx.violated("C10.PARSE", f.short, f"format {fmt}: str_to_num never returns", fi=f, text=f"never:{fmt}")
            continue
        keys = list(atoms)
        langs = [G] + [atoms[k] for k in keys]

        def pred(acc, keys=keys, clauses=clauses):
            if not acc[0]:
                return False
            val = dict(zip(keys, acc[1:]))
            accepted = any(all(val[k] == t for k, t in cl) for cl in clauses)
            return not accepted

        wit, stats = find_witness(langs, pred)
        if wit is not None:
            kind = "sexagesimal" if fmt.endswith("m") else "printf"
            ctx.violated("C10.PARSE", f.short, f"under format {fmt} the INDI number text {wit!r} is not parsed (it raises): every spelling INDI allows must be parsed regardless of the property's own format", fi=f, text=f"unparsed:{kind}:{wit!r}", witness=wit)
            bad = True
        if not bad:
            ctx.holds("C10.PARSE", f"{f.short}[{fmt}]", f"L(grammar) within the accepted language ({len(clauses)} returning paths, {len(keys)} atomic constraints, {stats['product_states']} product states)", fi=f)
    ctx.counters["C10.PARSE:format classes"] = nfmt
    ctx.exhaustive_domains.append("format classes {printf sample, %.3m, %.5m, %.6m, %.8m, %.9m, width variants}; all strings of the grammar (DFA inclusion)")


# ------------------------------------------------------------------------- RENDER
class Interval:
    def __init__(self, lo, hi):
        self.lo, self.hi = lo, hi  # hi None = unbounded; ints

    def __repr__(self):
        return f"[{self.lo},{self.hi}]"


def interval(it: Interp, t):
    """Integer/real interval of a term, or None."""
    if isinstance(t, Const) and isinstance(t.v, (int, float)) and not isinstance(t.v, bool):
        return Interval(t.v, t.v)
    if not isinstance(t, Term):
        return None
    lo, hi = it.bounds_of(t)
    if t.op == "unpack" and isinstance(t.args[0], Term) and t.args[0].op == "call" and isinstance(t.args[0].args[0], Builtin) and t.args[0].args[0].name == "divmod":
        a, b = t.args[0].args[1]
        ia, ib = interval(it, a), interval(it, b)
        if ia is not None and ib is not None and ia.lo is not None and ia.lo >= 0 and ib.lo == ib.hi and ib.lo > 0:
            if t.args[1] == 0:
                return Interval(0, None if ia.hi is None else ia.hi // ib.lo)
            return Interval(0, ib.lo - 1)
        return None
    if t.op == "binop":
        op, a, b = t.args
        ia, ib = interval(it, a), interval(it, b)
        if op == "-" and isinstance(b, Term) and b.op == "call" and "floor" in show(b.args[0]) and b.args[1] and show(b.args[1][0]) == show(a):
            return Interval(0, 1)  # x - floor(x) in [0, 1)
        if ia is None or ib is None:
            return None
        if op == "+" and ia.lo is not None and ib.lo is not None:
            return Interval(ia.lo + ib.lo, None if ia.hi is None or ib.hi is None else ia.hi + ib.hi)
        if op == "*" and ia.lo is not None and ib.lo is not None and ia.lo >= 0 and ib.lo >= 0:
            return Interval(ia.lo * ib.lo, None if ia.hi is None or ib.hi is None else ia.hi * ib.hi)
        if op == "//" and ib.lo == ib.hi and ib.lo > 0 and ia.lo is not None and ia.lo >= 0:
            return Interval(ia.lo // ib.lo, None if ia.hi is None else ia.hi // ib.lo)
        if op == "%" and ib.lo == ib.hi and ib.lo > 0 and ia.lo is not None and ia.lo >= 0:
            return Interval(0, ib.lo - 1 if ia.hi is None else min(ia.hi, ib.lo - 1))
        if op == "-" and ib.lo is not None and ia.lo is not None and ib.hi is not None:
            return Interval(ia.lo - ib.hi, None if ia.hi is None else ia.hi - ib.lo)
        return None
    if t.op == "call":
        fn = show(t.args[0])
        if fn in ("abs",) or fn.endswith(".fabs"):
            return Interval(0, None)
        if fn.endswith("floor") or fn in ("int", "round"):
            ia = interval(it, t.args[1][0]) if t.args[1] else None
            if ia is not None and ia.lo is not None:
                return Interval(math.floor(ia.lo), None if ia.hi is None else math.floor(ia.hi))
            return Interval(None, None)
    if lo is not None or hi is not None:
        return Interval(lo, hi)
    return None


def _digits(n):
    return len(str(int(n)))


def field_regex(it: Interp, val, spec: str):
    """Regex of one f-string replacement field, or None when not derivable."""
    if isinstance(val, Const):
        if isinstance(val.v, str) and not spec:
            return _re.escape(val.v)
        if isinstance(val.v, int) and not isinstance(val.v, bool):
            try:
                return _re.escape(format(val.v, spec))
            except ValueError:
                return None
    iv = interval(it, val)
    m = _re.fullmatch(r"(0?)(\d*)(?:\.(\d+))?([dfs]?)", spec or "")
    if m is None:
        return None
    zero, width, prec, conv = m.groups()
    width = int(width) if width else 0
    if conv in ("", "d") and prec is None:
        # integer rendering
        if iv is None or iv.lo is None:
            sign = "-?"
            lo_d, hi_d = 1, None
        else:
            sign = "-?" if iv.lo < 0 else ""
            lo_d = 1 if iv.lo < 0 else _digits(iv.lo)
            hi_d = None if iv.hi is None else max(_digits(iv.hi), _digits(abs(iv.lo)))
        if width and not zero:
            return None  # space padding
        lo_d = max(lo_d, width - (1 if sign else 0)) if zero else lo_d
        if hi_d is not None:
            hi_d = max(hi_d, lo_d)
        return sign + r"\d{" + str(lo_d) + "," + ("" if hi_d is None else str(hi_d)) + "}"
    if conv == "f":
        P_ = int(prec) if prec is not None else 6
        if iv is None or iv.lo is None or iv.lo < 0:
            return None if (width and not zero) else (r"-?\d+" + (r"\.\d{" + str(P_) + "}" if P_ else ""))
        int_min = _digits(iv.lo)
        int_max = None if iv.hi is None else _digits(math.ceil(iv.hi))  # rounding may reach the upper end
        if width:
            if not zero:
                return None
            need = width - (P_ + 1 if P_ else 0)
            int_min = max(int_min, need)
            if int_max is not None:
                int_max = max(int_max, int_min)
        return r"\d{" + str(int_min) + "," + ("" if int_max is None else str(int_max)) + "}" + (r"\.\d{" + str(P_) + "}" if P_ else "")
    return None


def printf_regex(fmt: str, stripped: str):
    """Image of a finite number under '%' formatting with ``fmt`` (model of CPython), then strip mode
    ('both' | 'left' | 'right' | 'none')."""
    m = _re.fullmatch(r"%([-+ 0#]*)(\d*)(?:\.(\d+))?([df])", fmt)
    if m is None:
        return None
    flags, width, prec, conv = m.groups()
    if "+" in flags:
        sign = r"[-+]"
    elif " " in flags:
        sign = r"[- ]"
    else:
        sign = r"-?"
    if conv == "f":
        P_ = int(prec) if prec is not None else 6
        body = r"\d+" + (r"\.\d{" + str(P_) + "}" if P_ else (r"\." if "#" in flags else ""))
    else:
        body = r"\d{" + str(max(int(prec), 1) if prec else 1) + ",}"  # CPython renders 0 as '0' even with precision 0
    left = right = ""
    if width:
        if "-" in flags:
            right = " *"
        elif "0" in flags:
            pass  # zero padding only adds digits
        else:
            left = " *"
    core = sign + body
    if stripped in ("both", "left"):
        left = ""
        if " " in flags and "+" not in flags:
            core = r"-?" + body
    if stripped in ("both", "right"):
        right = ""
    return left + core + right


def all_printf_formats():
    flags = ["".join(c) for r in range(0, 6) for c in itertools.combinations("-+ 0#", r)]
    for fl in flags:
        for w in ("", "1", "8"):
            for pr in ("", ".0", ".3"):
                for conv in ("d", "f"):
                    yield f"%{fl}{w}{pr}{conv}"


def rule_render(ctx):
    p = ctx.p
    f = _values_fn(p, "num_to_str")
    V, pats = number_validator_lang(ctx)
    n_sites = 0
    # sexagesimal branches
    for fmt in SEX_FORMATS:
        paths = run_method(p, f, args=[Term("param", "n", pytype="float"), Const(fmt)], opts={"assert_forks": True})
        ctx.paths_enumerated += len(paths)
        bad = False
        for pa in paths:
            if pa.outcome == "raise":
                ctx.violated("C10.RENDER", f.short, f"format {fmt}: num_to_str raises for a finite value ({show(pa.value)[:40]})", fi=f, text=f"raises:{fmt}")
                bad = True
                continue
            v = pa.value
            if isinstance(v, Const) and v.v is None:
                continue
            n_sites += 1
            rx = None
            if isinstance(v, Const) and isinstance(v.v, str):
                rx = _re.escape(v.v)
            elif isinstance(v, Term) and v.op == "fstr":
                parts = []
                for part_ in v.args:
                    if isinstance(part_, str):
                        parts.append(_re.escape(part_))
                    else:
                        r1 = field_regex(pa.interp, part_[0], part_[1])
                        if r1 is None:
                            parts = None
                            ctx.undecided("C10.RENDER", f.short, f"format {fmt}: output language of field {{{show(part_[0])[:40]}:{part_[1]}}} not derivable", fi=f)
                            bad = True
                            break
                        parts.append(r1)
                if parts is not None:
                    rx = "".join(parts)
            if rx is None:
                if not bad:
                    ctx.undecided("C10.RENDER", f.short, f"format {fmt}: returned text {show(v)[:60]} is not an f-string / literal", fi=f)
                    bad = True
                continue
            ok, w, stats = included(Lang([rx], mode="fullmatch"), V)
            if not ok:
                ctx.violated("C10.RENDER", f.short, f"format {fmt}: num_to_str can render {w!r} (output language {rx}), which the library's own validator rejects", fi=f, text=f"render:{fmt}:{w!r}", witness=w)
                bad = True
            else:
                ctx.sample({"rule": "C10.RENDER", "format": fmt, "output_language": rx, "stats": stats})
        if not bad:
            ctx.holds("C10.RENDER", f"{f.short}[{fmt}]", "output language within L(validator)", fi=f)
    # printf branch: how is the result post-processed?
    paths = run_method(p, f, args=[Term("param", "n", pytype="float"), Const("%8.2f")], opts={"assert_forks": True})
    mode = None
    for pa in paths:
        v = pa.value
        if pa.outcome != "return" or (isinstance(v, Const) and v.v is None):
            continue
        s = show(v)
        if isinstance(v, Term) and v.op == "binop" and v.args[0] == "%":
            mode = "none"
        elif isinstance(v, Term) and v.op == "call" and isinstance(v.args[0], Term) and v.args[0].op == "attr" and v.args[0].args[1] in ("strip", "lstrip", "rstrip") and not v.args[1] and isinstance(v.args[0].args[0], Term) and v.args[0].args[0].op == "binop" and v.args[0].args[0].args[0] == "%":
            mode = {"strip": "both", "lstrip": "left", "rstrip": "right"}[v.args[0].args[1]]
        else:
            mode = f"?{s[:50]}"
    if mode is None or mode.startswith("?"):
        ctx.undecided("C10.RENDER", f.short, f"printf branch returns an unrecognised expression: {mode}", fi=f)
        return
    worst = None
    nf = 0
    groups = {}
    for fmt in all_printf_formats():
        rx = printf_regex(fmt, mode)
        if rx is None:
            continue
        nf += 1
        groups.setdefault(rx, []).append(fmt)
    classes = {}
    for rx, fmts in groups.items():
        ok, w, stats = included(Lang([rx], mode="fullmatch"), V)
        n_sites += 1
        if not ok:
            key = ("leading blank" if w.startswith(" ") else "") + ("trailing blank" if w.endswith(" ") else "") + ("plus sign" if "+" in w else "") or "other"
            classes.setdefault(key, []).append((w, fmts[:2], rx))
    for key, items in sorted(classes.items()):
        w, fmts, rx = items[0]
        ctx.violated("C10.RENDER", f.short, f"printf formats such as {[x for it_ in items[:4] for x in it_[1]][:6]} render e.g. {[it_[0] for it_ in items[:4]]} ({key}; {len(items)} output languages, post-processing: {mode}), which the library's own validator rejects: a driver with such a format cannot publish", fi=f, text=f"printf:{key}", witness=w)
        worst = w
    ctx.counters["C10.RENDER:printf formats"] = nf
    ctx.counters["C10.RENDER:distinct printf output languages"] = len(groups)
    if worst is None:
        ctx.holds("C10.RENDER", f"{f.short}[printf]", f"{nf} printf formats ({len(groups)} distinct output languages, post-processing: {mode}) all within L(validator)", fi=f)
    ctx.floor("C10.RENDER", "rendering sites x formats", n_sites, 8)
    ctx.exhaustive_domains.append("576 printf formats (flags x width x precision x conversion) and 7 sexagesimal formats")


RULES = [
    ("C10.ACCEPT", rule_accept, "L(INDI number grammar) within L(message validator)"),
    ("C10.PARSE", rule_parse, "per format class: L(grammar) within the language str_to_num accepts; capture groups safe for int()/float()"),
    ("C10.RENDER", rule_render, "per format class: output language of num_to_str within L(message validator)"),
]
