"""C14 - driver event contract: Write, then default update and publication, then Change."""
from __future__ import annotations

import ast

from ..absint import Cls, Const, Fn, Foreign, Interp, Lst, Obj, Term, is_call, mentions, explore, run_method, show, subterms
from ..model import Undecided, walk_no_nested
from .common import path_text

EXPLANATION = (
    'Ordering/counting rules over the enumerated paths of the four small functions that implement the event contract, evaluated for every '
    'concrete driver element class (Number, Text, Switch, Light, BLOB). C14.WRITE: set_value constructs exactly one Write with the requested '
    'value and raises it before any store; the assignment through the value property happens exactly once and only on the path where '
    'prevent_default is false; the veto path stores and sends nothing. C14.SETTER: the value setter reads the previous value before the store, '
    "runs the type check and check_value before it, stores check_value's result exactly once, publishes exactly one to_set_message afterwards, "
    'and constructs/raises exactly one Change(previous, stored) on the path where they differ and none on the other. C14.NOWRITE: Write is '
    'constructed nowhere but in set_value and nothing inlined from the setter calls set_value. C14.READ: the getter raises Read before returning '
    "_value; emitters obtain the value through the property. C14.DISPATCH: raise_event looks handlers up by the event's class, visits all, and "
    'per handler either creates a task of cb(event) (coroutine function) or calls cb(event). C14.MSG: every driver-side set_value_from_message '
    'funnels into exactly one self.set_value(...). C14.ATTACH: Driver.__init__ attaches the @on handlers; @on is evaluated (a list of two '
    'sources, then a second decoration with one source): one (source, event type) attachment per source, accumulated, the function returned.'
)
NOT_DECIDED = "counts over handler configurations and whole write sequences (they follow from the per-call rules, the composition is not mechanised); what user handlers do."
ASSUMPTIONS = [
    "asyncio runs a created task only after the current synchronous call chain returns (so coroutine handlers run afterwards)",
    "Driver.send_message drops None, so a disabled property publishes nothing (decided by C07.DISABLED)",
]
TRUSTED = ["CPython ast", "indilint abstract interpreter"]

ELEMENT_MOD = "indi.device.properties.instance.elements"


def element_classes(p):
    base = p.cls(f"{ELEMENT_MOD}.Element")
    out = [c for c in base.all_subclasses() if not c.subclasses]
    return base, out


def _new_of(ev, clsname):
    return ev.kind == "call" and isinstance(ev.data["callee"], Cls) and ev.data["callee"].ci.name == clsname


def _kw(ev, name, pos=None):
    if name in ev.data["kwargs"]:
        return ev.data["kwargs"][name]
    if pos is not None and len(ev.data["args"]) > pos:
        return ev.data["args"][pos]
    return None


VAL = "_value"   # re-discovered from the 'value' getter of Element by _init (never assumed)
VEC = "_vector"


def _init(p):
    global VAL, VEC
    from .common import backing_field
    VAL = backing_field(p, ELEMENT_MOD + ".Element", "value")
    VEC = backing_field(p, ELEMENT_MOD + ".Element", "vector")


def rule_write(ctx):
    p = ctx.p
    _init(p)
    base, classes = element_classes(p)
    ctx.floor("C14.WRITE", "element classes", len(classes), 5)
    for ci in classes:
        f = ci.find_method("set_value")
        if f is None:
            raise Undecided("set_value not found")
        inst = f"{f.short}[{ci.name}]"
        paths = run_method(p, f, self_val=Term("param", "self", hint=ci))
        ctx.paths_enumerated += len(paths)
        bad = False
        veto_paths = default_paths = 0
        for pa in paths:
            if pa.outcome != "return":
                continue
            writes = [e for e in pa.events if _new_of(e, "Write")]
            raises = [e for e in pa.calls(method="raise_event")]
            stores = [e for e in pa.events if e.kind == "store"]
            sends = pa.calls(method="send_message")
            if len(writes) != 1:
                ctx.violated("C14.WRITE", inst, f"{len(writes)} Write events are constructed on a path (expected exactly one)", fi=f, text=f"write-count:{len(writes)}")
                bad = True
                continue
            w = writes[0]
            nv = _kw(w, "new_value", 1)
            el = _kw(w, "element", 0)
            if nv is None or show(nv) != "value" or el is None or show(el) != "self":
                ctx.violated("C14.WRITE", inst, f"Write is built from ({show(el) if el else None}, {show(nv) if nv else None}) instead of (self, requested value)", fi=f, text="write-args")
                bad = True
            wr = [e for e in raises if e.data["args"] and e.data["args"][0] is w.data["term"]]
            if len(wr) != 1:
                ctx.violated("C14.WRITE", inst, f"the Write event is raised {len(wr)} times (expected once)", fi=f, text=f"raise-count:{len(wr)}")
                bad = True
                continue
            if any(s.idx < wr[0].idx for s in stores):
                ctx.violated("C14.WRITE", inst, "state is stored before the Write handlers have run", fi=f, text="store-before-write")
                bad = True
            veto = [e for e in pa.assumes() if "prevent_default" in show(e.data["cond"])]
            if not veto:
                ctx.violated("C14.WRITE", inst, "the default assignment does not depend on event.prevent_default", fi=f, text="no-veto-test")
                bad = True
                continue
            vetoed = any(e.data["truth"] for e in veto if show(e.data["cond"]).endswith(".prevent_default"))
            if any(v.idx < wr[0].idx for v in veto):
                ctx.violated("C14.WRITE", inst, "prevent_default is read before the handlers ran", fi=f, text="veto-read-early")
                bad = True
            vstores = [s for s in stores if s.data.get("attr") == "value" and show(s.data["base"]) == "self"]
            if vetoed:
                veto_paths += 1
                if stores or sends:
                    ctx.violated("C14.WRITE", inst, "a vetoed write still stores or publishes", fi=f, text="veto-ignored")
                    bad = True
            else:
                default_paths += 1
                if len(vstores) != 1 or show(vstores[0].data["value"]) != "value" or len(stores) != 1:
                    ctx.violated("C14.WRITE", inst, f"the default path does not assign the requested value exactly once through the value property (stores: {[repr(s) for s in stores]})", fi=f, text="default-assign")
                    bad = True
        if veto_paths == 0 or default_paths == 0:
            ctx.violated("C14.WRITE", inst, "set_value lacks a veto path or a default path", fi=f, text="paths")
            bad = True
        if not bad:
            ctx.holds("C14.WRITE", inst, f"{len(paths)} paths: Write(self, value) raised once before any store; assignment iff not vetoed", fi=f)
            ctx.sample({"rule": "C14.WRITE", "instance": inst, "path": path_text(paths[-1])})


def rule_setter(ctx):
    p = ctx.p
    _init(p)
    base, classes = element_classes(p)
    for ci in classes:
        f = ci.find_setter("value")
        if f is None:
            raise Undecided("value setter not found")
        inst = f"{f.short}[{ci.name}]"
        paths = run_method(p, f, self_val=Term("param", "self", hint=ci))
        ctx.paths_enumerated += len(paths)
        bad = False
        changed_paths = unchanged_paths = 0
        for pa in paths:
            if pa.outcome != "return":
                continue
            st = [e for e in pa.events if e.kind == "store" and e.data.get("attr") == VAL and show(e.data["base"]) == "self"]
            if len(st) != 1:
                ctx.violated("C14.SETTER", inst, f"the value field is stored {len(st)} times on a path", fi=f, text=f"store-count:{len(st)}")
                bad = True
                continue
            s = st[0]
            stored = s.data["value"]
            if not (isinstance(stored, Term) and is_call(stored, method="check_value") and stored.args[1] and show(stored.args[1][0]) == "value"):
                ctx.violated("C14.SETTER", inst, f"the stored value is {show(stored)[:60]}, not self.check_value(value)", fi=f, text="stored-unchecked")
                bad = True
            tc = [e for e in pa.calls(method="check_value_type") if e.data["args"] and show(e.data["args"][0]) == "value"]
            if not tc or tc[0].idx > s.idx:
                ctx.violated("C14.SETTER", inst, "the value's type is not checked before the store", fi=f, text="type-check")
                bad = True
            sends = pa.calls(method="send_message")
            good_sends = [e for e in sends if e.data["args"] and isinstance(e.data["args"][0], Term) and is_call(e.data["args"][0], method="to_set_message") and show(e.data["args"][0]) in (f"self.{VEC}.to_set_message()", "self.vector.to_set_message()")]
            if len(sends) != 1 or len(good_sends) != 1 or sends[0].idx < s.idx:
                ctx.violated("C14.SETTER", inst, f"expected exactly one publication of the own vector's to_set_message() after the store, found {[show(e.data['term'])[:70] for e in sends]}", fi=f, text="publication")
                bad = True
            elif any(c.idx < s.idx for c in pa.calls(method="to_set_message")):
                ctx.violated("C14.SETTER", inst, "the update message is rendered before the store (it would carry the old value)", fi=f, text="render-before-store")
                bad = True
            changes = [e for e in pa.events if _new_of(e, "Change")]
            craises = [e for e in pa.calls(method="raise_event")]
            diff = [e for e in pa.assumes() if isinstance(e.data["cond"], Term) and e.data["cond"].op == "cmp" and e.data["cond"].args[0] in ("!=", "==")]
            dec = None
            for e in diff:
                c = e.data["cond"]
                a, b = c.args[1], c.args[2]
                sides = (a, b)
                has_prev = any(show(x) == f"self.{VAL}" for x in sides)
                has_new = any(x is stored for x in sides)
                if has_prev and has_new:
                    dec = e.data["truth"] if c.args[0] == "!=" else not e.data["truth"]
            if dec is None:
                ctx.violated("C14.SETTER", inst, f"no comparison of the previous value (read before the store) with the stored value guards the Change event (tests: {[show(e.data['cond'])[:60] for e in diff]})", fi=f, text="no-diff-test")
                bad = True
                continue
            if dec:
                changed_paths += 1
                if len(changes) != 1 or len(craises) != 1:
                    ctx.violated("C14.SETTER", inst, f"on the changed path {len(changes)} Change events are built and {len(craises)} raised (expected 1/1)", fi=f, text="change-count")
                    bad = True
                    continue
                ch = changes[0]
                ov, nv = _kw(ch, "old_value", 1), _kw(ch, "new_value", 2)
                if ov is None or show(ov) != f"self.{VAL}" or nv is not stored:
                    ctx.violated("C14.SETTER", inst, f"Change carries ({show(ov) if ov else None}, {show(nv)[:40] if nv else None}) instead of (previous value, stored value)", fi=f, text="change-args")
                    bad = True
                if not (craises[0].data["args"] and craises[0].data["args"][0] is ch.data["term"]) or craises[0].idx < s.idx:
                    ctx.violated("C14.SETTER", inst, "the Change event is not raised (after the store)", fi=f, text="change-raise")
                    bad = True
                if sends and craises[0].idx < sends[0].idx:
                    ctx.violated("C14.SETTER", inst, "Change handlers run before the update is published", fi=f, text="change-before-publish")
                    bad = True
            else:
                unchanged_paths += 1
                if changes or craises:
                    ctx.violated("C14.SETTER", inst, "a Change event is raised although the value did not change", fi=f, text="spurious-change")
                    bad = True
        if changed_paths == 0 or unchanged_paths == 0:
            ctx.violated("C14.SETTER", inst, "the setter lacks a changed or an unchanged path", fi=f, text="paths")
            bad = True
        if not bad:
            ctx.holds("C14.SETTER", inst, "type check + check_value before store; one publication after; Change(prev, stored) iff different", fi=f)


def rule_nowrite(ctx):
    p = ctx.p
    _init(p)
    wcls = p.cls("indi.device.events.Write")
    sites = []
    for fi in p.functions:
        for n in walk_no_nested(fi.node):
            if isinstance(n, ast.Call) and isinstance(n.func, (ast.Name, ast.Attribute)):
                if p.resolve_class(fi.module, n.func) is wcls:
                    sites.append((fi, n))
    ctx.floor("C14.NOWRITE", "Write construction sites", len(sites), 1)
    for fi, n in sites:
        ctx.check(fi.name == "set_value" and fi.module.name == ELEMENT_MOD, "C14.NOWRITE", fi.short, "Write constructed in set_value", "a Write event is constructed outside Element.set_value: direct assignments must not raise Write", fi=fi, node=n)
    base, classes = element_classes(p)
    sv = p.cls("indi.device.properties.instance.vectors.SwitchVector")
    for ci in classes:
        f = ci.find_setter("value")

        def pol(fi, node):
            return (fi.cls is not None and (fi.cls in ci.mro) and fi.name in ("check_value", "check_value_type")) or (fi.cls is sv and fi.name == "apply_rule")

        def hints(c, attr):
            if attr == VEC and ci.name == "Switch":
                return sv
            return None

        paths = run_method(p, f, self_val=Term("param", "self", hint=ci), opts={"inline": pol, "attr_hints": hints, "max_for": 1})
        ctx.paths_enumerated += len(paths)
        bad = any(pa.calls(method="set_value") or any(_new_of(e, "Write") for e in pa.events) for pa in paths)
        ctx.check(not bad, "C14.NOWRITE", f"{f.short}[{ci.name}]", "direct assignment raises no Write", "the value setter (or a function inlined from it) calls set_value / constructs Write", fi=f, text=f"setter-writes:{ci.name}")
    _rule_nowrite_routes(ctx)


def _rule_nowrite_routes(ctx):
    """Every other driver-side assignment route: each property setter of the element and vector classes (bool_value,
    selected_value(s), state_, enabled, ...) - followed through whatever it calls inside the property package - neither
    calls set_value (the client-write entry that raises Write) nor constructs a Write."""
    p = ctx.p
    base, classes = element_classes(p)
    sv = p.cls("indi.device.properties.instance.vectors.SwitchVector")
    vmod = p.module("indi.device.properties.instance.vectors")
    vclasses = [c for c in vmod.classes.values() if c.module is vmod and not c.name.startswith("_")]
    n = 0
    for ci in list(classes) + vclasses:
        names = []
        for k in ci.mro:
            for s in getattr(k, "setters", {}):
                if s not in names:
                    names.append(s)
        for name in names:
            if name == "value" and ci in classes:
                continue  # decided above
            f = ci.find_setter(name)
            if f is None or not f.module.name.startswith("indi.device.properties.instance"):
                continue

            def pol(fi, node):
                return fi.module.name.startswith("indi.device.properties.instance") and fi.name != "set_value"

            def hints(c, attr, ci=ci):
                if attr == VEC and ci.name == "Switch":
                    return sv
                return None

            try:
                paths = run_method(p, f, self_val=Term("param", "self", hint=ci), opts={"inline": pol, "attr_hints": hints, "max_for": 1, "max_while": 1})
            except Undecided as u:
                ctx.undecided("C14.NOWRITE", f"{f.short}[{ci.name}]", f"assignment route not explored: {u}", fi=f)
                continue
            ctx.paths_enumerated += len(paths)
            n += 1
            bad = any(pa.calls(method="set_value") or any(_new_of(e, "Write") for e in pa.events) for pa in paths)
            ctx.check(not bad, "C14.NOWRITE", f"{f.short}[{ci.name}.{name}]", "driver-side assignment raises no Write", f"assigning {ci.name}.{name} on the driver side goes through set_value / constructs a Write: Write handlers (which forward to the hardware or veto) run for an assignment the driver itself made", fi=f, text=f"route-writes:{ci.name}.{name}", witness=f"<{ci.name}>.{name} = ...")
    ctx.floor("C14.NOWRITE", "other assignment routes (property setters)", n, 4)


def rule_read(ctx):
    p = ctx.p
    _init(p)
    base, classes = element_classes(p)
    g = base.find_getter("value")
    paths = run_method(p, g)
    ok = True
    for pa in paths:
        reads = [e for e in pa.events if _new_of(e, "Read")]
        rs = pa.calls(method="raise_event")
        ret = [e for e in pa.events if e.kind == "return"]
        if pa.outcome != "return" or len(reads) != 1 or len(rs) != 1 or not (rs[0].data["args"] and rs[0].data["args"][0] is reads[0].data["term"]) or show(pa.value) != f"self.{VAL}":
            ok = False
        el = _kw(reads[0], "element", 0) if reads else None
        if el is None or show(el) != "self":
            ok = False
    ctx.check(ok, "C14.READ", g.short, "Read(self) raised exactly once before _value is returned", "the value getter does not raise exactly one Read(self) before returning _value", fi=g, text="getter")
    n = 0
    for ci in classes:
        for meth in ("to_def_message", "to_set_message"):
            f = ci.find_method(meth)
            if f is None:
                continue
            n += 1
            inst = f"{f.short}[{ci.name}]"
            paths = run_method(p, f, self_val=Term("param", "self", hint=ci))
            ctx.paths_enumerated += len(paths)
            bad = False
            for pa in paths:
                if pa.outcome != "return":
                    continue
                v = pa.value
                raw = mentions(v, lambda t: isinstance(t, Term) and t.op == "attr" and t.args[1] == VAL)
                if raw:
                    ctx.violated("C14.READ", inst, "the emitted part reads _value directly: Read handlers cannot refresh it before publication", fi=f, text="raw-read")
                    bad = True
                carries_value = isinstance(v, Term) and v.op == "call" and any(k == "value" and not (isinstance(x, Const) and x.v is None) for k, x in v.args[2])
                if carries_value:
                    vv = [x for k, x in v.args[2] if k == "value"][0]
                    if not mentions(vv, lambda t: isinstance(t, Term) and t.op == "attr" and t.args[1] == "value" and show(t.args[0]) == "self"):
                        ctx.violated("C14.READ", inst, f"the emitted value {show(vv)[:50]} does not come from the value property", fi=f, text="value-source")
                        bad = True
            if not bad:
                ctx.holds("C14.READ", inst, "value obtained through the property", fi=f)
    ctx.floor("C14.READ", "element emitters", n, 10)


def _dispatch_eval(ctx, raised, vetoed=False):
    """Attach A, B (plain) and C (coroutine function) for Write and D (plain) for Change on a definition object produced by
    its real constructor, raise one event of class <raised> through the real raise_event, and report what was invoked:
    [(handler, 'direct' | 'task', called with the event?)] in order - or a string describing why it is undecided."""
    p = ctx.p
    esd = p.cls("indi.device.events.EventSourceDefinition")
    f = esd.methods["attach_event_handler"]
    src = p.cls("indi.device.events.EventSource")
    rz = src.find_method("raise_event")
    classes = {k: p.cls(f"indi.device.events.{k}") for k in ("Write", "Change", "Read")}
    from ..absint import Frame
    defattrs = {n_.value.attr for n_ in ast.walk(rz.node) if isinstance(n_, ast.Attribute) and n_.attr == "event_handlers" and isinstance(n_.value, ast.Attribute) and isinstance(n_.value.value, ast.Name) and n_.value.value.id == "self"}
    if len(defattrs) != 1:
        raise Undecided("raise_event does not read self.<definition>.event_handlers")
    defattr = defattrs.pop()

    def fm(it, callee, args, kwargs):
        if isinstance(callee, Foreign) and callee.dotted.endswith("iscoroutinefunction"):
            return Const(isinstance(args[0], Obj) and args[0].label.startswith("<co:"))
        return None

    def run_att(it: Interp):
        fr = Frame(None, esd.module, {})
        d = it.apply(Cls(esd), [], {}, [], None, fr, False)
        cbs = {n_: Obj(None, {}, label=n_) for n_ in ("<fn:A>", "<fn:B>", "<co:C>", "<fn:D>")}
        for n_, et in (("<fn:A>", "Write"), ("<fn:B>", "Write"), ("<co:C>", "Write"), ("<fn:D>", "Change")):
            it.run_function(Fn(f, d), [Cls(classes[et]), cbs[n_]], {})
        holder = Obj(src, {defattr: d}, label="source")
        # the event as a handler may have left it: vetoed or not - dispatch must not depend on it
        ev = Obj(classes[raised], {"prevent_default": Const(vetoed), "element": Obj(None, label="<element>"), "__closed__": Const(True)}, label="event")
        it.ev = ev
        del it.events[:]
        return it.run_function(Fn(rz, holder), [ev], {})

    paths = explore(p, run_att, {"inline": lambda fi, node: fi.module.name == "indi.device.events", "instantiate": lambda ci: ci is esd, "foreign_model": fm})
    ctx.paths_enumerated += len(paths)
    if not (len(paths) == 1 and paths[0].outcome == "return"):
        return f"{len(paths)} paths / outcome {paths[0].outcome if paths else None}"
    pa = paths[0]
    got = []
    for e in pa.events:
        if e.kind != "call":
            continue
        cal = e.data["callee"]
        if isinstance(cal, Obj) and cal.label.startswith(("<fn:", "<co:")):
            as_task = any(is_call(x.data["term"], method="create_task") and x.data["args"] and x.data["args"][0] is e.data["term"] for x in pa.events if x.kind == "call")
            got.append((cal.label, "task" if as_task else "direct", bool(e.data["args"]) and e.data["args"][0] is pa.interp.ev))
    return got


def rule_dispatch(ctx):
    """raise_event invokes exactly the handlers attached for the event's class: once each, in attachment order, plain
    functions directly (before it returns), coroutine functions as tasks; nothing for a class without handlers."""
    p = ctx.p
    _init(p)
    f = p.cls("indi.device.events.EventSource").find_method("raise_event")
    want = {
        "Write": [("<fn:A>", "direct", True), ("<fn:B>", "direct", True), ("<co:C>", "task", True)],
        "Change": [("<fn:D>", "direct", True)],
        "Read": [],
    }
    bad = False
    for raised, exp, vetoed in [(r_, e_, v_) for r_, e_ in want.items() for v_ in (False, True)]:
        got = _dispatch_eval(ctx, raised, vetoed)
        if isinstance(got, str):
            ctx.undecided("C14.DISPATCH", f.short, f"raising a {raised} event is not decided by constant evaluation ({got})", fi=f)
            bad = True
        elif got != exp:
            ctx.violated("C14.DISPATCH", f.short, f"with A, B (plain), C (coroutine) attached for Write and D for Change, raising a {raised} (vetoed={vetoed}) invokes {got}, expected {exp}: every handler of the event's class exactly once, in order, coroutine functions as tasks, nobody else", fi=f, text=f"dispatch:{raised}:{vetoed}", witness=raised)
            bad = True
    if not bad:
        ctx.holds("C14.DISPATCH", f.short, "handlers of the event's class: all invoked once, in order; task for coroutine functions, direct call otherwise; none for other classes", fi=f)


def rule_msg(ctx):
    p = ctx.p
    _init(p)
    base, classes = element_classes(p)
    n = 0
    for ci in classes:
        f = ci.find_method("set_value_from_message")
        n += 1
        inst = f"{f.short}[{ci.name}]"
        paths = run_method(p, f, self_val=Term("param", "self", hint=ci))
        ctx.paths_enumerated += len(paths)
        ok = True
        for pa in paths:
            if pa.outcome != "return":
                continue
            sv = pa.calls(method="set_value")
            st = [e for e in pa.events if e.kind == "store"]
            if len(sv) != 1 or st:
                ok = False
        ctx.check(ok, "C14.MSG", inst, "exactly one self.set_value(...), no direct store", "a client write does not go through set_value exactly once (Write event skipped or doubled)", fi=f, text=f"msg:{ci.name}")
    ctx.floor("C14.MSG", "set_value_from_message bindings", n, 5)


def rule_attach(ctx):
    p = ctx.p
    _init(p)
    drv = p.cls("indi.device.driver.Driver")
    init = drv.methods["__init__"]
    calls = [n for n in walk_no_nested(init.node) if isinstance(n, ast.Call) and isinstance(n.func, ast.Name) and n.func.id == "attach_event_handlers"]
    ok = len(calls) == 1 and len(calls[0].args) == 1 and ast.unparse(calls[0].args[0]) == "self"
    ctx.check(ok, "C14.ATTACH", init.short, "attach_event_handlers(self) called once", "Driver.__init__ does not attach the @on handlers of the instance", fi=init, text="attach")
    on = p.func("indi.device.events.on")
    # @on is evaluated: a list of two sources, then a second decoration with a single source, on one function object
    from ..absint import Frame

    def run_on(it: Interp):
        fn = Obj(None, {"__closed__": Const(True)}, label="<fn>")
        s1, s2, s3 = [Obj(None, {}, label=f"<src{i}>") for i in (1, 2, 3)]
        et, et2 = Obj(None, {}, label="<ET>"), Obj(None, {}, label="<ET2>")
        fr = Frame(None, on.module, {})
        w = it.run_function(Fn(on), [Lst([s1, s2]), et], {})
        r = it.apply(w, [fn], {}, [], None, fr, False)
        w2 = it.run_function(Fn(on), [s3, et2], {})
        r2 = it.apply(w2, [fn], {}, [], None, fr, False)
        it.res = (r, r2, fn)
        return Const(None)

    paths = explore(p, run_on, {"inline": lambda fi, node: fi.module.name == "indi.device.events", "instantiate": lambda ci: ci.module.name == "indi.device.events"})
    ok = len(paths) == 1 and paths[0].outcome == "return"
    got = None
    if ok:
        r, r2, fn = paths[0].interp.res
        lists = [v for k, v in fn.attrs.items() if isinstance(v, Lst)]
        got = [(show(o.attrs.get("src")), show(o.attrs.get("event_type"))) for o in lists[0].items if isinstance(o, Obj)] if len(lists) == 1 else None
        ok = r is fn and r2 is fn and got == [("<src1>", "<ET>"), ("<src2>", "<ET>"), ("<src3>", "<ET2>")]
    ctx.check(ok, "C14.ATTACH", on.short, "one attachment (source, event type) per source, accumulated over decorations; returns the function", f"@on([s1, s2], ET) followed by @on(s3, ET2) on one function records {got} instead of one (source, event type) attachment per source / does not return the function", fi=on, text="on")
    att = p.func("indi.device.events.attach_event_handlers")
    calls = [n for n in ast.walk(att.node) if isinstance(n, ast.Call) and isinstance(n.func, ast.Attribute) and n.func.attr == "attach_event_handler"]
    ok = len(calls) == 1 and len(calls[0].args) == 2 and ast.unparse(calls[0].args[0]).endswith("event_type")
    ctx.check(ok, "C14.ATTACH", att.short, "attach_event_handler(event_type, f) per attachment", "attach_event_handlers does not register every attachment under its event type", fi=att, text="attach-loop")
    got = _dispatch_eval(ctx, "Write")
    esd = p.cls("indi.device.events.EventSourceDefinition")
    f = esd.methods["attach_event_handler"]
    ok = got == [("<fn:A>", "direct", True), ("<fn:B>", "direct", True), ("<co:C>", "task", True)]
    ctx.check(ok, "C14.ATTACH", f.short, "handlers attached for an event type are invoked for events of that type: once each, in order, coroutine functions as tasks", f"after attaching A, B (plain), C (coroutine) for Write and D for Change, raising a Write invokes {got}: expected A and B directly and C as a task, each once with the event, and not D", fi=f, text="attach-store")


# 'exactly one update is published (if the property is enabled)' needs the disabled-property and None-dropping rules;
# a client write reaches the elements of a disabled property too (C06.KEY has a disabled property in its world)
# plain handlers run before any state changes, a vetoed write changes nothing: decided on constructed switch vectors
IMPORTS = [('C07', 'C07.DISABLED'), ('C07', 'C07.BRANCH'), ('C06', 'C06.KEY'), ('C09', 'C09.VETO')]

EXPLANATION = EXPLANATION + ' C14.NOWRITE also follows every other driver-side assignment route - each property setter of the element and vector classes (bool_value, selected_value(s), state_, enabled, ...) through whatever it calls inside the property package: none calls set_value or constructs a Write.'

RULES = [
    ("C14.WRITE", rule_write, "set_value: one Write(self, value) raised before any store; assignment iff not vetoed"),
    ("C14.SETTER", rule_setter, "value setter: checks before store, one publication after, Change(prev, stored) iff different"),
    ("C14.NOWRITE", rule_nowrite, "Write constructed only in set_value; direct assignment raises none"),
    ("C14.READ", rule_read, "getter raises Read before returning; emitters read through the property"),
    ("C14.DISPATCH", rule_dispatch, "raise_event: handlers by event class, all visited, task vs direct call"),
    ("C14.MSG", rule_msg, "set_value_from_message funnels into exactly one set_value"),
    ("C14.ATTACH", rule_attach, "handlers attached at construction; @on records one attachment per source"),
]
